"""C36 (storage reads honour the read contract; code / blob loading instructions) and C30 (execution touches only the
state of input contracts): spec/vm/StorageRead*.tla, spec/vm/VmContract.tla + the FuelVM trace specification,
harness binary vh_vmcontract (harness/src/vmcontract.rs, recstore.rs)."""
import json
import os

import tracecheck as tc
import vlib
from vlib import ToolError

# Until the lead has merged the dispatch lines / trace-spec disjuncts (docs/NOTES_vmcontract.md) the trace specification is
# the private copy regenerated from spec/vm by work/vmcontract/sync.py; afterwards: SPEC_TR = "vm/FuelVM_Trace.tla".
SPEC_TR = "vm/FuelVM_Trace.tla"
SPEC_SR = "vm/StorageRead_MC.tla"
BIN = "vh_vmcontract"

CLASS_CALL = "vm/Step/CALL/code-size-lookup-before-input-check"
CLASS_LDCPAD = "vm/Step/LDC/padding-copied-from-source"

PROPERTIES = ["C30", "C36"]

_NOTE = ("Trusted base: the harness only builds chain states / programs, runs the real interpreter over a recording storage "
         "(recstore.rs delegates every storage-trait call to MemoryStorage and logs it) and logs register / memory differences; "
         "BigNat and SHA-256 are Java overrides inside TLC. ")

MANIFEST = {
    "C36": dict(category="model_checking",
                technique="TLA+ specification of the storage read contract (StorageRead.tla: ReadExact / ReadZerofill / ReadAlloc) model-checked "
                          "by TLC over the full grid and replayed into the StorageRead impls of MemoryStorage; TLA+ semantics of LDC (3 modes), "
                          "CCP, CSIZ, CROO, BSIZ, BLDD (VmContract.tla, built on that contract) as oracle in the FuelVM trace specification "
                          "validating recorded single-instruction executions of the real interpreter",
                text="Leg M/R: TLC enumerates value lengths 0..9 (+ missing key) x offsets 0..11 x buffer lengths 0..11, checks the contract as "
                     "byte-wise laws on the three operators and prints the expected outcome of each read; the harness performs all of them on "
                     "ContractsRawCode, ContractsState and BlobData of MemoryStorage (0xEE pre-filled buffers) and every outcome (result kind, "
                     "buffer, reported total length) is compared. Leg T: exec-mode sessions over chain states whose contract / blob lengths sit "
                     "on the grid (x1, x8, around 16 KiB leaves, contract_max_size) execute LDC/CCP/CSIZ/CROO/BSIZ/BLDD with boundary-biased "
                     "offsets, lengths, pointers, destinations, gas, in script context and inside a called contract; TLC recomputes copied "
                     "bytes + zero padding, $ssp/$sp, the frame's code-size word, the code root (RFC 6962 over 16 KiB leaves), the two-stage "
                     "gas charge and the admissible panic set and requires equality of registers and whole-memory differences.",
                note=_NOTE + "Known finding kept strict: LDC of contract code / blobs with an unaligned length fills the alignment padding with "
                     "object bytes (class " + CLASS_LDCPAD + "); such loads are generated only by the part ldcpad so that the rest of each "
                     "session stays checked. ContractMaxSize is modelled on the padded length (identical to the text for sizes that are "
                     "multiples of 8, which is all the drivers use).", design_ref="4/C36"),
    "C30": dict(category="model_checking",
                technique="(thorough tier also: TLC model-checks FuelVM_Calls_MC — all programs over a call/asset alphabet with a deployed non-input "
                          "contract — for ContextsAreInputs, TouchesInputsOnly, NonInputPanics, PanicChangesNothing, BalReadsInputs) "
                          "every storage access of every executed instruction is recorded by a recording InterpreterStorage and attached to the "
                          "Step event; the FuelVM trace specification (TLC) requires, for every step, that each access to the code / state / "
                          "assets tables concerns an input contract and that the id at $fp is an input contract; the instruction semantics admit "
                          "only ContractNotInInputs for a non-input id; predicates run over a recording predicate storage",
                text="Generated scripts and contracts (script context and inside a called prober contract) CALL / TR / BAL / CSIZ / CROO / CCP / "
                     "LDC the prober itself, another input contract, a contract that exists in storage but is not an input and a non-existing "
                     "id, chained with further probes and SRW/SWW of input contracts; single-instruction sessions additionally aim the same "
                     "instructions at an input that is missing from storage. TLC checks the access log of every step and the exact outcome "
                     "(the only admissible panic for a non-input is ContractNotInInputs). Predicates: every opcode as the instruction after a "
                     "MOVI/NOOP prologue is verified through check_predicates over a recording predicate storage; no contract-table access may "
                     "be logged and instructions not allowed in predicates must fail with ContractInstructionNotAllowed.",
                note=_NOTE + "Known finding kept strict: CALL looks up the callee's code size before the inputs check (class " + CLASS_CALL +
                     "). No separate Leg M: the property is an obligation on accesses of the implementation; its design-level counterpart "
                     "(ContractPanics admits only ContractNotInInputs for a non-input) is part of VmContract.tla / VmCall.tla. The predicate "
                     "storage wrapper cannot forward contract-table reads by construction, so the predicate leg mainly pins the refusal.",
                design_ref="4/C30"),
}

RULES = {
    "C36": "library level: one replayed comparison per (case, table, read kind); instruction level: distinct = distinct (opcode, LDC mode, outcome, "
           "panic reason, length class rC mod 8, offset class (0 / inside / at end / beyond), context (script / call)) tuples over recorded steps",
    "C30": "distinct = distinct (driver, probe instruction, target class, context, terminal outcome, panic reason) tuples over runs + distinct "
           "(opcode, outcome, reason, tables touched, input / non-input) tuples over steps + distinct (opcode, ok, reason) predicate checks",
}


def _inputs_by_run(events):
    m = {}
    for e in events:
        if e.get("ev") == "Init":
            m[e.get("run")] = set(e.get("inputs") or [])
    return m


def _class_fn(events):
    inputs = _inputs_by_run(events)

    def f(dom, ev):
        if ev.get("ev") == "Step":
            w = ev.get("word") or "--------"
            op = w[:2]
            ins = inputs.get(ev.get("run"), set())
            # the recorded finding, exactly: a CALL that PANICS (the callee is refused) after nothing but the code-size lookup of the
            # non-input contract; a CALL that gets any further with a non-input (enters it, reads its code, touches its balance) is
            # not this finding
            foreign = [a for a in ev.get("acc", []) if a.get("table") in ("code", "state", "assets") and a.get("contract") is not None and a.get("contract") not in ins]
            reason = ev.get("reason") or next((r.get("reason") for r in ev.get("rc", []) if r.get("kind") == "Panic"), None)
            if (op == "2d" and foreign and all(a.get("table") == "code" and a.get("op") == "size" for a in foreign)
                    and reason in ("ContractNotInInputs", "ContractNotFound")):
                return CLASS_CALL
            if op == "32" and len(w) == 8 and int(w, 16) % 64 in (0, 1) and ev.get("out") == "proceed":
                rc_reg = str((int(w, 16) >> 6) % 64)
                rc = (ev.get("poke") or {}).get(rc_reg)
                rz = [a for a in ev.get("acc", []) if a.get("op") == "read_zerofill"]
                if rc is not None and int(rc) % 8 != 0 and rz and rz[0].get("len", 0) > int(rc):
                    return CLASS_LDCPAD
            out = ev.get("out") or (ev["fin"]["state"] if "fin" in ev else "cont")
            return "%s/Step/op=%s/%s" % (dom, op, out)
        return tc.event_class(dom, ev)
    return f


def _record(part, tier, name):
    tr = os.path.join(vlib.WORK, name)
    for k in range(0, 12):
        for suf in (".g%d" % k, ".rest%d" % k):
            if os.path.exists(tr + suf):
                os.remove(tr + suf)
    vlib.vh(["record", "vmc", "--tier", tier, "--part", part, "-o", tr], bin=BIN, timeout=3000)
    ev = vlib.read_ndjson(tr)
    return tr, ev


def _validate(chk, pid, tr, events, parallel, max_rejections=8):
    bad = [e for e in events if e.get("ev") in ("HostPanic", "Runaway", "SetupFailed", "NotReady")]
    nev, nseg, st = tc.validate(chk, "vm", SPEC_TR, tr, tag=pid + "_" + os.path.basename(tr).split(".")[0], timeout=3000, parallel=parallel,
                                class_fn=_class_fn(events), max_rejections=max_rejections)
    chk.add("states", st)
    chk.add("transitions", st)
    chk.add("host_panics_or_setup_failures_recorded", len(bad))
    return nev


def _len_class(e):
    w = e.get("word") or "--------"
    pk = e.get("poke") or {}
    op = w[:2]
    if op not in ("32", "2e", "bb") or len(w) != 8:
        return ("-", "-")
    x = int(w, 16)
    regs = [(x >> 18) % 64, (x >> 12) % 64, (x >> 6) % 64, x % 64]
    ln = pk.get(str(regs[2] if op == "32" else regs[3]))
    off = pk.get(str(regs[1] if op == "32" else regs[2]))
    sizes = [a.get("len") for a in e.get("acc", []) if a.get("op") == "size" and a.get("hit")]
    oc = "-"
    if off is not None:
        o = int(off)
        oc = "0" if o == 0 else ("?" if not sizes else ("in" if o < sizes[0] else ("end" if o == sizes[0] else "beyond")))
    return (str(int(ln) % 8) if ln is not None else "-", oc)


def _distinct_c36(events):
    keys = set()
    in_call = False
    for e in events:
        if e.get("ev") == "Seg":
            in_call = False
        if e.get("ev") != "Step":
            continue
        w = e.get("word") or "--------"
        if w[:2] == "2d" and e.get("out") == "proceed":
            in_call = True
        mode = int(w, 16) % 64 if w[:2] == "32" and len(w) == 8 else -1
        keys.add((w[:2], mode, e.get("out"), e.get("reason"), _len_class(e), in_call))
    return len(keys)


def _distinct_c30(events):
    keys = set()
    inputs = _inputs_by_run(events)
    cur = None
    for e in events:
        ev = e.get("ev")
        if ev == "Init":
            cur = (e.get("driver"), e.get("probe"), e.get("target"), e.get("ctx"))
        elif ev == "Step":
            ins = inputs.get(e.get("run"), set())
            w = e.get("word") or "--"
            tabs = tuple(sorted({(a.get("table"), a.get("op"), a.get("contract") in ins if "contract" in a else None) for a in e.get("acc", [])}))
            keys.add(("step", w[:2], e.get("out") or ("fin" if "fin" in e else "cont"), e.get("reason"), tabs))
            if "fin" in e:
                rs = [r.get("reason") for r in e.get("rc", []) if r.get("kind") == "Panic"]
                keys.add(("run", cur, e["fin"].get("state"), rs[0] if rs else None))
        elif ev == "PredCheck":
            keys.add(("pred", (e.get("word") or "--")[:2], e.get("ok"), e.get("reason")))
    return len(keys)


def _mut_copy(events, rng):
    """self-test C36: flip one byte the code / blob loading instruction wrote"""
    cands = [i for i, e in enumerate(events) if e.get("ev") == "Step" and e.get("mem") and e.get("out") == "proceed"
             and (e.get("word") or "--")[:2] in {"32", "2e", "bb", "2f"}]
    if not cands:
        return None
    i = rng.choice(cands)
    k = rng.randrange(len(events[i]["mem"]))
    a, h = events[i]["mem"][k]
    events[i]["mem"][k] = [a, h[:-2] + ("ff" if h[-2:] != "ff" else "00")]
    return i


def _mut_size(events, rng):
    """self-test C36 (thorough): the size a CSIZ / BSIZ reported is off by one"""
    cands = [i for i, e in enumerate(events) if e.get("ev") == "Step" and e.get("out") == "proceed" and (e.get("word") or "--")[:2] in {"30", "ba"}
             and len(e.get("word")) == 8 and str((int(e["word"], 16) >> 18) % 64) in e.get("regs", {})]
    if not cands:
        return None
    i = rng.choice(cands)
    r = str((int(events[i]["word"], 16) >> 18) % 64)
    events[i]["regs"][r] = str(int(events[i]["regs"][r]) + 1)
    return i


def _mut_acc(events, rng):
    """self-test C30: one logged access of a contract table is attributed to a contract that is not an input"""
    cands = [i for i, e in enumerate(events) if e.get("ev") == "Step" and any(a.get("table") in ("code", "state", "assets") and "contract" in a for a in e.get("acc", []))]
    if not cands:
        return None
    i = rng.choice(cands)
    for a in events[i]["acc"]:
        if a.get("table") in ("code", "state", "assets") and "contract" in a:
            a["contract"] = "ee" * 32
            break
    return i


def _mut_pred(events, rng):
    """self-test C30 (thorough): a predicate verification logs an access to the contract code table"""
    cands = [i for i, e in enumerate(events) if e.get("ev") == "PredCheck"]
    if not cands:
        return None
    i = rng.choice(cands)
    events[i]["acc"].append({"table": "code", "op": "size", "contract": "ee" * 32, "key": "ee" * 32, "hit": True, "len": 40, "oob": False})
    return i


def _leg_sread(chk, pid, thorough):
    """Leg M + Leg R of the library-level read contract"""
    dump = os.path.join(vlib.WORK, "%s_sread.out" % pid)
    consts = {"EmitReplay": "TRUE"}
    if thorough:
        consts.update({"MaxLen": 12, "MaxOff": 15, "MaxBuf": 14})
    res = tc.model_check(chk, SPEC_SR, workers=1, constants=consts, dump_out=dump, tag=pid + "_sread", timeout=1200)
    beh = os.path.join(vlib.WORK, "%s_sread_beh.ndjson" % pid)
    nbeh = tc.extract_replay(dump, beh)
    os.remove(dump)
    if nbeh == 0 or nbeh != res.distinct:
        raise ToolError("StorageRead_MC printed %d cases, TLC found %d states" % (nbeh, res.distinct))
    outp = os.path.join(vlib.WORK, "%s_sread_replay.ndjson" % pid)
    vlib.vh(["replay", "sread", beh, "-o", outp], bin=BIN, timeout=1200)
    rs = vlib.read_ndjson(outp)
    summ = [r for r in rs if "summary" in r]
    if not summ or summ[0]["summary"]["behaviours"] != nbeh:
        raise ToolError("sread replay did not process all cases")
    seen = set()
    for r in rs:
        if "mismatch" in r:
            cls = "sread/replay/" + r["mismatch"]
            if cls in seen:
                continue
            seen.add(cls)
            rp = os.path.join(vlib.WORK, "%s_sread_mismatch_%d.json" % (pid, len(seen)))
            with open(rp, "w") as f:
                json.dump(r, f)
            chk.violation(cls, rp, dict(leg="R", case={k: r["behaviour"][k] for k in ("missing", "off", "n", "value")},
                                        expected=r["expected"], observed=r["observed"]))
    chk.add("behaviours_replayed", nbeh)
    chk.add("replay_steps", summ[0]["summary"]["steps"])
    chk.set("model", dict(spec=SPEC_SR, cases=nbeh, grid=consts, invariants=["MissingLaw", "ExactLaw", "ZerofillLaw", "AllocLaw", "Agree", "PaddedLaw"],
                          tables=["ContractsRawCode", "ContractsState", "BlobData"]))
    with open(beh) as f:
        lines = f.readlines()
    chk.sample({"replayed_case": json.loads(lines[min(len(lines) - 1, 700)])})
    os.remove(beh)
    return nbeh, summ[0]["summary"]["steps"]


def _run_c36(chk, tier):
    thorough = tier == "thorough"
    vlib.harness_build(BIN)
    nbeh, rsteps = _leg_sread(chk, "C36", thorough)
    # exec: the main sessions; ldcpad: loads whose alignment padding lies over object bytes (regression scenario of the
    # repaired finding, small segments of their own so that a regression rejects only them)
    tr, events = _record("exec,ldcpad", tier, "C36_trace.ndjson")
    nev = _validate(chk, "C36", tr, events, parallel=4, max_rejections=14)
    evp = [e for e in events if e.get("part") == "ldcpad"]
    steps = [e for e in events if e.get("ev") == "Step"]
    chk.set("steps", len(steps))
    chk.set("sessions", len([e for e in events if e.get("ev") == "Init"]))
    by = {}
    for e in steps:
        k = "%s/%s" % ((e.get("word") or "--")[:2], e.get("out"))
        by[k] = by.get(k, 0) + 1
    chk.set("steps_by_opcode_outcome", by)
    chk.set("ldcpad_steps", len(evp))
    for e in [x for x in steps if x.get("out") == "proceed" and (x.get("word") or "--")[:2] in ("32", "2e", "bb")][2:5]:
        chk.sample(tc._short({k: v for k, v in e.items() if k != "acc"}, 700))
    if chk.violations:
        chk.set("binding_selftest", "skipped: the run already reports violations")
    else:
        tc.selftest_corrupt(chk, "vm", SPEC_TR, tr, _mut_copy, max_events=400, timeout=1200)
        if thorough:
            first = chk.cov.get("binding_selftest")
            tc.selftest_corrupt(chk, "vm", SPEC_TR, tr, _mut_size, max_events=400, timeout=1200)
            chk.set("binding_selftests", {"copied_bytes": first, "reported_size": chk.cov.get("binding_selftest")})
    chk.set("evaluations", nev + rsteps)
    chk.set("distinct_nontrivial", _distinct_c36(events) + nbeh)
    chk.set("rule", RULES["C36"])
    chk.set("exhaustive", False)
    chk.assumptions.extend([
        "exec-mode sessions never preset $fp, $ssp, $sp or $hp (they are moved by CFEI/CFSI/ALOC/CALL executed for real)",
        "gas schedules of the current version (bsiz / bldd defined); default, unit and two seeded random schedules (light and heavy dependent costs)",
        "LDC of contract code / blobs with a length whose alignment padding covers object bytes is generated only by the part ldcpad (recorded finding)",
    ])


def _run_c30(chk, tier):
    thorough = tier == "thorough"
    vlib.harness_build(BIN)
    parts = "c30,pred" + (",exec" if thorough else "")
    tr, events = _record(parts, tier, "C30_trace.ndjson")
    nev = _validate(chk, "C30", tr, events, parallel=4)
    trk, evk = _record("c30call", tier, "C30_call.ndjson")
    nev += _validate(chk, "C30", trk, evk, parallel=1, max_rejections=60)
    steps = [e for e in events if e.get("ev") == "Step"]
    ins = _inputs_by_run(events)
    n_acc = sum(len(e.get("acc", [])) for e in steps)
    n_ct = sum(1 for e in steps for a in e.get("acc", []) if a.get("table") in ("code", "state", "assets"))
    chk.set("steps", len(steps))
    chk.set("runs", len([e for e in events if e.get("ev") == "Init"]))
    chk.set("storage_accesses_checked", n_acc)
    chk.set("contract_table_accesses_checked", n_ct)
    chk.set("predicate_checks", len([e for e in events if e.get("ev") == "PredCheck"]))
    chk.set("known_shape_runs", len([e for e in evk if e.get("ev") == "Init"]))
    fins = {}
    for e in steps:
        if "fin" in e:
            rs = [r.get("reason") for r in e.get("rc", []) if r.get("kind") == "Panic"]
            k = rs[0] if rs else e["fin"].get("state")
            fins[k] = fins.get(k, 0) + 1
    chk.set("terminal_outcomes", fins)
    for e in [x for x in steps if x.get("acc")][5:8]:
        chk.sample(tc._short({k: v for k, v in e.items() if k in ("word", "acc", "regs", "run", "i", "fin")}, 700))
    if chk.violations:
        chk.set("binding_selftest", "skipped: the run already reports violations")
    else:
        tc.selftest_corrupt(chk, "vm", SPEC_TR, tr, _mut_acc, max_events=400, timeout=1200)
        if thorough:
            first = chk.cov.get("binding_selftest")
            tc.selftest_corrupt(chk, "vm", SPEC_TR, tr, _mut_pred, max_events=400, timeout=1200)
            chk.set("binding_selftests", {"access_contract": first, "predicate_access": chk.cov.get("binding_selftest")})
    chk.set("evaluations", nev)
    chk.set("distinct_nontrivial", _distinct_c30(events) + _distinct_c30(evk))
    chk.set("rule", RULES["C30"])
    chk.set("exhaustive", False)
    chk.assumptions.extend([
        "the access log is complete for everything that goes through the storage traits (recstore.rs wraps every trait method of MemoryStorage)",
        "the Normal verifier (the default); AttemptContinue is out of scope of the property",
        "CALLs of contracts outside the inputs are generated only by the part c30call (recorded finding)",
    ])


def run(pid, tier):
    def body(chk):
        if pid == "C36":
            _run_c36(chk, tier)
        else:
            if tier == "thorough":
                # design level: FuelVM_Calls_MC (all programs over a call / asset alphabet with a deployed NON-input contract) checks
                # ContextsAreInputs, TouchesInputsOnly, NonInputPanics, PanicChangesNothing, BalReadsInputs
                import mccalls
                mccalls.hook(chk, tier)
            _run_c30(chk, tier)
    return vlib.run_check(body, pid, MANIFEST[pid]["category"], tier)
