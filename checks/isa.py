"""C08 — instruction encoding is a bijection on valid 32-bit words (spec/asm/Isa*.tla, harness vh_isa)."""
import json
import os

import tracecheck as tc
import vlib
from vlib import ToolError, log

SPEC_MC = "asm/Isa_MC.tla"
SPEC_TR = "asm/Isa_Trace.tla"
BIN = "vh_isa"

RULE = ("model = one TLC state per opcode byte 0..255, laws evaluated on every boundary argument pattern of that byte; "
        "replay = every word TLC printed (shape-independent 24-bit patterns: single bit, single hole, low runs, high runs, for "
        "every defined opcode; 26 patterns for every undefined byte; per-opcode boundary argument tuples {0,1,max,max-1,2^j} "
        "per field on 4 backgrounds; reserved-bit perturbations) decoded, re-encoded, re-constructed, parsed by op::X::from_raw_args and "
        "executed by Interpreter::instruction, compared with TLC's predicted result; sweep = every word of the enumerated "
        "top bytes (thorough: all 256, i.e. all 2^32 words) against TLC's decision table; trace = seeded words and seeded "
        "(mnemonic, argument tuple) constructions validated by TLC. distinct_nontrivial = distinct replayed words whose top "
        "byte is a defined opcode + distinct traced words with a defined top byte + distinct traced constructions + valid "
        "instructions in the enumerated part of the sweep (each enumerated word is distinct by construction)")

PROPERTIES = ['C08']
MANIFEST = {
    'C08': dict(category='model_checking',
                technique='TLA+ spec Isa (opcode table as data; field layout, reserved bits, Decode, Encode derived bit by bit '
                          'from the format text) model-checked by TLC over all 256 opcode bytes x boundary argument patterns; '
                          'TLC prints the 256-row decision table and every boundary word with its predicted decode result, which '
                          'are replayed into fuel-asm and the interpreter; all 2^32 words enumerated in Rust against the '
                          'TLC-printed table (thorough); seeded decode/encode traces validated by TLC',
                text='Leg M: laws (valid iff opcode defined and reserved bits zero, stated three independent ways; '
                     'Encode(Decode(w)) = w; Decode(Encode(i)) = i) on ~25k boundary words. Leg R: each of those words through '
                     'Instruction::try_from(u32 / [u8;4]), u32::from, to_bytes, opcode(), unpack(), reg_ids(), op::X::new, op::x '
                     'short-hand, From<X> for u32/[u8;4]/[u8;3], op::X::from_raw_args (the interpreter\'s parser) and '
                     'Interpreter::instruction (InvalidInstruction iff invalid), compared with TLC\'s prediction. Exhaustive '
                     'sweep: for every word, decode succeeds iff the table says so, re-encodes to the same word, unpacks to the '
                     'table\'s argument values, re-constructs from them to the same instruction, and the per-opcode parser '
                     'agrees with the general decoder (quick: all 2^24 patterns of 32 seeded bytes + 6M sampled words; thorough: '
                     'all 2^32). Leg T: seeded words and constructions recorded from the real code and accepted by Isa_Trace.',
                note='The opcode table (byte, mnemonic, shape) in Isa.tla is data fixed in the spec; a byte the implementation '
                     'decodes that the table does not define is reported as a violation (the property says "exactly when"). '
                     'The harness holds Rust names and call arities only (needed to call typed constructors), cross-checked '
                     'against the table. Out-of-range arguments to constructors are outside the property.',
                design_ref='4/C08'),
}


def _load(path):
    return vlib.read_ndjson(path)


def _report(chk, pid, leg, prefix, results, src):
    """One violation per distinct mismatch kind."""
    seen = set()
    for r in results:
        if "mismatch" not in r:
            continue
        cls = prefix + r["mismatch"]
        if cls in seen:
            continue
        seen.add(cls)
        rp = os.path.join(vlib.WORK, "%s_%s_mismatch_%d.json" % (pid, leg, len(seen)))
        with open(rp, "w") as f:
            json.dump(r, f)
        chk.violation(cls, rp, dict(leg=leg, input=src, **{k: r.get(k) for k in ("w", "expected", "observed", "line", "count")
                                                         if k in r}))
    return len(seen)


def _summary(results, what):
    s = [r["summary"] for r in results if "summary" in r]
    if not s:
        raise ToolError("%s: harness wrote no summary" % what)
    return s[0]


def run(pid, tier):
    def body(chk):
        thorough = tier == "thorough"
        vlib.harness_build(BIN)
        w = lambda name: os.path.join(vlib.WORK, "%s_%s" % (pid, name))

        # ---- Leg M: the laws on the design, and the generator of the table + boundary words ----
        dump = w("mc.out")
        res = tc.model_check(chk, SPEC_MC, constants={"EmitReplay": "TRUE"}, need_actions=["ADefined", "AUndefined"],
                             workers=1, dump_out=dump, tag=pid + "_mc", timeout=600)
        lines_p = w("lines.ndjson")
        nlines = tc.extract_replay(dump, lines_p)
        os.remove(dump)
        lines = _load(lines_p)
        tab = {l["b"]: l for l in lines if l.get("t") == "tab"}
        words = [l for l in lines if l.get("t") == "w"]
        if len(tab) != 256 or nlines != len(lines) or not words:
            raise ToolError("model printed %d table rows / %d lines" % (len(tab), nlines))
        chk.set("model", dict(spec=SPEC_MC, distinct_states=res.distinct, invariants=["Laws", "Emit"],
                              assumptions_checked=["TableWellFormed", "ShapesWellFormed"],
                              table_rows=256, defined_opcodes=sum(1 for r in tab.values() if r["def"]),
                              boundary_words=len(words), predicted_valid=sum(1 for x in words if x["ok"])))

        # ---- Leg R: table + boundary words -> the real code ----
        rp = w("replay.ndjson")
        vlib.vh(["replay", "isa", lines_p, "-o", rp], bin=BIN, timeout=900)
        rr = _load(rp)
        rs = _summary(rr, "replay")
        if rs["words"] != len(words) or rs["rows"] != 256:
            raise ToolError("replay did not process all lines: %s" % rs)
        _report(chk, pid, "R", "isa/replay/", rr, lines_p)
        chk.add("replay_words", rs["words"])
        chk.add("replay_constructions", rs["constructed"])
        chk.add("replay_interpreter_executions", rs["vm_executed"])
        chk.sample({"table_row": tab[0x23]})
        valid_words = [x for x in words if x["ok"]]
        if valid_words:
            chk.sample({"boundary_word": valid_words[len(valid_words) // 2]})
        resv = [x for x in words if not x["ok"] and tab[int(x["w"][:2], 16)]["def"]]
        if resv:
            chk.sample({"boundary_word": resv[len(resv) // 3]})

        # ---- exhaustive sweep against the TLC-printed table ----
        tab_p = w("table.ndjson")
        vlib.write_ndjson(tab_p, [tab[b] for b in range(256)])
        sp = w("sweep.ndjson")
        vlib.vh(["sweep", "isa", tab_p, "--tier", tier, "-o", sp], bin=BIN, timeout=1500)
        sr = _load(sp)
        ss = _summary(sr, "sweep")
        if thorough and (ss["words_enumerated"] != 2 ** 32 or not ss["exhaustive"]):
            raise ToolError("thorough sweep did not enumerate 2^32 words: %s" % ss["words_enumerated"])
        if ss["words_enumerated"] != len(ss["enumerated_bytes"]) * 2 ** 24:
            raise ToolError("sweep enumerated %d words for %d bytes" % (ss["words_enumerated"], len(ss["enumerated_bytes"])))
        _report(chk, pid, "S", "isa/sweep/", sr, tab_p)
        chk.set("sweep", {k: ss[k] for k in ("words", "valid", "words_enumerated", "valid_enumerated", "constructed",
                                             "interpreter_parser_calls", "sampled_words", "threads", "exhaustive")})
        chk.set("sweep_enumerated_bytes", len(ss["enumerated_bytes"]))
        chk.sample({"sweep_enumerated_top_bytes": ss["enumerated_bytes"][:40]})

        # ---- Leg T: recorded decode/encode events validated by TLC ----
        tr = w("trace.ndjson")
        vlib.vh(["record", "isa", "--tier", tier, "-o", tr], bin=BIN, timeout=900)
        events = _load(tr)
        nev, nseg, st = tc.validate(chk, "isa", SPEC_TR, tr, tag=pid, timeout=1200, max_rejections=3,
                                    class_fn=lambda dom, e: "isa/trace/%s" % e.get("ev"))
        chk.add("states", st)
        chk.add("transitions", st)
        for e in [x for x in events if x.get("ev") == "Dec" and x.get("ok")][40:41] + \
                 [x for x in events if x.get("ev") == "Enc"][300:301]:
            chk.sample(tc._short(e, 600))

        # ---- binding self-tests ----
        # (1) corrupt one logged observation: TLC must reject exactly there
        # (only on a trace TLC accepted: a segment it already rejected cannot show where the corruption is caught)
        if not chk.violations:
            tc.selftest_corrupt(chk, "isa", SPEC_TR, tr, tc.corrupt_hex_field(["reenc", "raww", "wnew", "wshort", "wop"]))
        else:
            chk.set("binding_selftest", dict(skipped="violations already reported on this trace"))
        # (2) perturb one row of the table (never the code): the sweep must report mismatches
        cp = w("sweep_selftest.ndjson")
        vlib.vh(["sweep", "isa", tab_p, "--tier", "quick", "--corrupt-table", "-o", cp], bin=BIN, timeout=900)
        cs = _summary(_load(cp), "sweep self-test")
        if not cs.get("corrupted") or cs["mismatches"] == 0:
            raise ToolError("binding self-test FAILED: corrupted table %s accepted by the sweep" % cs.get("corrupted"))
        # (3) perturb one predicted decode result: the replay must report it
        pert = [dict(x) for x in lines]
        cands = [i for i, x in enumerate(pert) if x.get("t") == "w" and x["ok"] and len(x["args"]) >= 2]
        if not cands:
            raise ToolError("self-test: no valid boundary word to perturb")
        k = cands[(vlib.seed() * 7919) % len(cands)]
        pert[k]["args"] = list(pert[k]["args"])
        pert[k]["args"][-1] ^= 1
        pp = w("lines_selftest.ndjson")
        vlib.write_ndjson(pp, [x for x in pert if x.get("t") == "tab"] + [pert[k]])
        pr = w("replay_selftest.ndjson")
        vlib.vh(["replay", "isa", pp, "--no-vm", "-o", pr], bin=BIN, timeout=300)
        if not any(r.get("mismatch") == "arguments" for r in _load(pr)):
            raise ToolError("binding self-test FAILED: perturbed expectation %s accepted by the replay" % pert[k])
        chk.set("binding_selftest_sweep", dict(corrupted=cs["corrupted"], mismatches=cs["mismatches"], passed=True))
        chk.set("binding_selftest_replay", dict(perturbed=pert[k]["w"], passed=True))
        for p in (cp, pp, pr):
            os.remove(p)

        # ---- evidence ----
        defined = {b for b, r in tab.items() if r["def"]}
        d_replay = {x["w"] for x in words if int(x["w"][:2], 16) in defined}
        d_trace = {e["w"] for e in events if e.get("ev") == "Dec" and e.get("opok")}
        d_enc = {(e["m"], tuple(e["args"])) for e in events if e.get("ev") == "Enc"}
        chk.set("evaluations", rs["words"] + rs["constructed"] + nev + ss["words"])
        chk.set("distinct_nontrivial", len(d_replay) + len(d_trace) + len(d_enc) + ss["valid_enumerated"])
        chk.set("distinct_breakdown", dict(replayed_words_defined_byte=len(d_replay), traced_words_defined_byte=len(d_trace),
                                           traced_constructions=len(d_enc), sweep_valid_instructions=ss["valid_enumerated"]))
        chk.set("rule", RULE)
        chk.set("exhaustive", bool(thorough and ss["exhaustive"]))
        chk.assumptions.extend([
            "the opcode table (byte, mnemonic, argument shape) in Isa.tla is the definition of 'defined opcode'",
            "the sweep evaluates TLC's printed table rows (defined, reserved mask, field shift/width) in Rust; the table "
            "itself and all boundary-word predictions are computed by TLC from Isa.tla",
            "Interpreter::instruction is driven on a freshly initialised script VM; only 'panics with InvalidInstruction or "
            "not' is observed (what a valid instruction then does belongs to other properties)",
            "hex conversion in TLC uses the BigNat/Hex Java overrides",
        ])
        for p in (lines_p, rp, sp, tab_p):
            if not chk.violations:
                os.remove(p)
    return vlib.run_check(body, pid, "model_checking", tier)
