"""C22 — wide-integer instructions follow the specification.
Spec: spec/vm/VmWide.tla (effects), spec/vm/VmWide_MC.tla (finite design model with a second, relational formulation),
the FuelVM trace specification (spec/vm/FuelVM_Trace.tla + the MemPoke disjunct); recorder: harness/src/bin/vh_vmwide.rs."""
import collections
import os

import tracecheck as tc
import vlib
from vlib import ToolError

# Until the lead has merged the dispatch line / MemPoke disjunct into the shared spec these point at the builder's private
# copy (a snapshot of spec/vm plus those lines, see docs/NOTES_vmwide.md). At integration: "vm/FuelVM_Trace.tla", "vm/VmWide_MC.tla".
_PRIV = os.path.join(vlib.SPEC, "vm")
SPEC_TR = os.path.join(_PRIV, "FuelVM_Trace.tla")
SPEC_MC = os.path.join(_PRIV, "VmWide_MC.tla")
BIN = "vh_vmwide"

PROPERTIES = ["C22"]

MANIFEST = {
    "C22": dict(category="model_checking",
                technique="TLA+ specification of the 14 wide-integer instructions with exact naturals (VmWide.tla) used as the oracle of the "
                          "FuelVM trace specification: recorded single-instruction executions of the real interpreter are accepted or rejected "
                          "by TLC; the same effect operators are model-checked by TLC on a finite operand grid against a second, relational "
                          "formulation of the instruction-set text (VmWide_MC.tla)",
                text="Every WDCM/WQCM/WDOP/WQOP/WDML/WQML/WDDV/WQDV/WDMD/WQMD/WDAM/WQAM/WDMM/WQMM is executed on the real interpreter through "
                     "Interpreter::instruction with all 64 immediates x 4 flag settings, boundary-biased 128/256-bit operands (0, 1, 2^64+-1, "
                     "2^127, 2^128-1, 2^255, 2^256-1, related pairs x / x+-1 / ~x, modulus and divider 0 and 1, shift amounts around the "
                     "width, random), operands placed in memory the VM really allocated (CFEI/CFSI/ALOC) and logged as MemPoke events, "
                     "operand / destination pointers also aimed at unowned, unallocated, straddling, overlapping and out-of-range memory, "
                     "reserved destination registers for compares, system registers as operands, low gas and seeded random gas schedules. "
                     "TLC recomputes from VmWide.tla the destination bytes (whole-memory diff), the compare result, $of, $err, $pc, the gas "
                     "entry charged and the set of admissible panic reasons and requires equality of the complete register file and memory. "
                     "Leg M: TLC executes an alphabet of ~230 encoded instructions on every operand combination of a boundary grid and checks "
                     "defining (in)equalities (q*c <= b < (q+1)*c, x + k*2^n = b*c, 2^(n-1-z) <= b < 2^(n-z), ...), the completes-iff rule, the "
                     "frame condition and the exact charge.",
                note="Trusted base: the harness snapshots registers/memory around each instruction and logs differences; BigNat Java overrides "
                     "inside TLC (BigInteger). Register contents after a panic are not observable by programs; the specification admits the "
                     "flag registers to hold the completed arithmetic's values when only the destination write fails (pmay).",
                design_ref="4/C22"),
}

RULE = ("one Step event per executed wide-integer instruction; distinct = distinct (opcode, immediate, flag value, outcome, panic reason, "
        "$of written 1, $err written 1, destination written, which operand registers are system registers) tuples observed; "
        "imm_flag_combinations = distinct (opcode, immediate, flag) triples of the 8 instructions with an immediate (complete = 2048)")

NAMES = {0xa0: "WDCM", 0xa1: "WQCM", 0xa2: "WDOP", 0xa3: "WQOP", 0xa4: "WDML", 0xa5: "WQML", 0xa6: "WDDV", 0xa7: "WQDV",
         0xa8: "WDMD", 0xa9: "WQMD", 0xaa: "WDAM", 0xab: "WQAM", 0xac: "WDMM", 0xad: "WQMM"}
WITH_IMM = set(range(0xa0, 0xa8))


def _is_wide(e):
    return e.get("ev") == "Step" and e.get("word") and int(e["word"][:2], 16) in NAMES


def _fields(e):
    w = int(e["word"], 16)
    return w >> 24, (w >> 18) & 63, (w >> 12) & 63, (w >> 6) & 63, w & 63


def class_of(dom, e):
    """stable violation class of a rejected event"""
    if _is_wide(e):
        op, ra, rb, rc, rd = _fields(e)
        parts = ["C22", NAMES[op]]
        if op in WITH_IMM:
            parts.append("imm=%d" % rd)
        parts.append("flag=%s" % e.get("poke", {}).get("15", "?"))
        parts.append(str(e.get("out")))
        if e.get("reason"):
            parts.append(e["reason"])
        return "/".join(parts)
    return tc.event_class(dom, e)


def _stats(events):
    keys, triples = set(), set()
    per = collections.Counter()
    for e in events:
        if not _is_wide(e):
            continue
        op, ra, rb, rc, rd = _fields(e)
        flag = e.get("poke", {}).get("15")
        regs = e.get("regs", {})
        keys.add((op, rd if op in WITH_IMM else -1, flag, e.get("out"), e.get("reason"), regs.get("2") == "1", regs.get("8") == "1",
                  bool(e.get("mem")), ra < 16, rb < 16, rc < 16))
        if op in WITH_IMM:
            triples.add((op, rd, flag))
        per[(NAMES[op], e.get("out") if e.get("out") != "panic" else e.get("reason"))] += 1
    return keys, triples, per


def _mut_wide(events, rng):
    """self-test: corrupt one logged observation of a wide-integer instruction (result bytes, compare result, flag register,
    panic reason, or drop the memory write)"""
    steps = [i for i, e in enumerate(events) if _is_wide(e)]
    kinds = ["mem", "cmp", "flagreg", "reason", "nomem", "gas"]
    rng.shuffle(kinds)
    for kind in kinds:
        if kind in ("mem", "nomem"):
            c = [i for i in steps if events[i].get("out") == "proceed" and events[i].get("mem")]
        elif kind == "cmp":
            c = [i for i in steps if events[i].get("out") == "proceed" and int(events[i]["word"][:2], 16) in (0xa0, 0xa1)
                 and str(_fields(events[i])[1]) in events[i].get("regs", {})]
        elif kind == "flagreg":
            c = [i for i in steps if events[i].get("out") == "proceed" and ("2" in events[i]["regs"] or "8" in events[i]["regs"])]
        elif kind == "gas":
            c = [i for i in steps if events[i].get("out") == "proceed" and "9" in events[i]["regs"] and "10" in events[i]["regs"]]
        else:
            c = [i for i in steps if events[i].get("out") == "panic" and events[i].get("reason") in ("ArithmeticOverflow", "ArithmeticError",
                                                                                                   "InvalidImmediateValue", "MemoryOwnership")]
        c = [i for i in c if i < 2400]
        if not c:
            continue
        i = rng.choice(c)
        e = events[i]
        if kind == "mem":
            a, h = e["mem"][0]
            k = rng.randrange(len(h))
            e["mem"][0] = [a, h[:k] + "0123456789abcdef"[(int(h[k], 16) + 1 + rng.randrange(15)) % 16] + h[k + 1:]]
        elif kind == "nomem":
            e["mem"] = []
        elif kind == "cmp":
            r = str(_fields(e)[1])
            e["regs"][r] = str(int(e["regs"][r]) + 1)
        elif kind == "flagreg":
            r = rng.choice([x for x in ("2", "8") if x in e["regs"]])
            e["regs"][r] = "1" if e["regs"][r] == "0" else "0"
        elif kind == "gas":
            for r in ("9", "10"):
                e["regs"][r] = str(int(e["regs"][r]) + 1)
        else:
            e["reason"] = {"ArithmeticOverflow": "ArithmeticError", "ArithmeticError": "ArithmeticOverflow",
                           "InvalidImmediateValue": "MemoryOwnership", "MemoryOwnership": "InvalidImmediateValue"}[e["reason"]]
        del events[i + 3:]          # keep the self-test trace short
        _mut_wide.last = dict(kind=kind, word=e["word"])
        return i
    return None


def _leg_m(chk, pid, thorough):
    """Leg M without TLC's -coverage (its bookkeeping on the large relational invariant costs minutes and gigabytes): vacuity is
    excluded more strongly by the exact state count — every alphabet entry executed from every operand combination."""
    import re
    d = os.path.dirname(SPEC_MC)
    txt = open(SPEC_MC.replace(".tla", ".cfg")).read()
    for k, v in (("Grid", 1 if thorough else 0), ("MaxDepth", 1)):
        txt, n = re.subn(r"(?m)^(\s*%s\s*=\s*).*$" % k, lambda m: m.group(1) + str(v), txt)
        if n == 0:
            raise ToolError("constant %s not in cfg" % k)
    cfg = "VmWide_MC_%d.gen.cfg" % os.getpid()
    with open(os.path.join(d, cfg), "w") as f:
        f.write(txt)
    try:
        res = vlib.tlc(SPEC_MC, cfg=cfg, workers=4, timeout=2400, xmx="6g", tag=pid + "_mc")
    finally:
        os.remove(os.path.join(d, cfg))
    if res.invariant_violated:
        raise ToolError("model %s violates %s at design level:\n%s" % (SPEC_MC, res.invariant_violated, vlib.tlc_fail_text(res, 80)))
    if not res.ok:
        raise ToolError("TLC failed on %s:\n%s" % (SPEC_MC, vlib.tlc_fail_text(res)))
    m = re.search(r'<<"GRID", (\d+), (\d+), (\d+)>>', res.out)
    if not m:
        raise ToolError("model did not report its grid size")
    nv, nd, na = (int(x) for x in m.groups())
    inits = nv * nv * nd * 4
    if res.distinct != inits * (na + 1) or na < 200:
        raise ToolError("vacuous model run: %d states, expected %d inits x (%d instructions + 1)" % (res.distinct, inits, na))
    chk.add("states", res.distinct)
    chk.add("transitions", res.generated)
    chk.add("model_states", res.distinct)
    chk.set("model_grid", dict(operand_values=nv, third_operand_values=nd, flags=4, alphabet=na, initial_states=inits))
    return res


def run(pid, tier):
    level = MANIFEST[pid]["category"]

    def body(chk):
        thorough = tier == "thorough"
        vlib.harness_build(BIN)
        # ---- Leg M: finite design model, relational second formulation ----
        res = _leg_m(chk, pid, thorough)
        chk.set("model", dict(spec="vm/VmWide_MC.tla", grid="large" if thorough else "small", distinct_states=res.distinct,
                              transitions=res.generated, invariants=["WideLaw", "GasInv", "ConstRegs", "StackOrder", "ZeroOutside"],
                              wall_s=round(res.wall, 1)))
        # ---- Leg T ----
        tr = os.path.join(vlib.WORK, "%s_trace.ndjson" % pid)
        parts = "wide,grid" if thorough else "wide"
        vlib.vh(["record", "vmwide", "--tier", tier, "--part", parts, "-o", tr], bin=BIN, timeout=3000)
        events = vlib.read_ndjson(tr)
        bad = [e for e in events if e.get("ev") in ("HostPanic", "Runaway")]
        nev, nseg, st = tc.validate(chk, "vmwide", SPEC_TR, tr, tag=pid, timeout=3000, parallel=4, class_fn=class_of)
        chk.add("states", st)
        chk.add("transitions", st)
        keys, triples, per = _stats(events)
        steps = [e for e in events if _is_wide(e)]
        chk.set("steps", len(steps))
        chk.set("mem_pokes", len([e for e in events if e.get("ev") == "MemPoke"]))
        chk.set("runs", len([e for e in events if e.get("ev") == "Init"]))
        chk.set("imm_flag_combinations", len(triples))
        chk.set("outcomes_per_instruction", {"%s/%s" % k: v for k, v in sorted(per.items())})
        chk.set("host_panics_recorded", len(bad))
        if len(triples) != 8 * 64 * 4:
            raise ToolError("vacuous run: only %d of 2048 (instruction, immediate, flag) combinations were recorded" % len(triples))
        if {k[0] for k in per} != set(NAMES.values()):
            raise ToolError("vacuous run: instructions missing from the trace")
        for e in steps[5:8]:
            chk.sample(tc._short(e, 700))
        tc.selftest_corrupt(chk, "vmwide", SPEC_TR, tr, _mut_wide, max_events=6000, timeout=1200)
        chk.cov["binding_selftest"].update(getattr(_mut_wide, "last", {}))
        chk.set("evaluations", len(steps) + res.generated)
        chk.set("distinct_nontrivial", len(keys))
        chk.set("rule", RULE)
        chk.set("exhaustive", False)
        chk.assumptions.extend([
            "exact BigNat arithmetic is evaluated by Java overrides (java.math.BigInteger) inside TLC",
            "the gas schedule is read from the implementation (Init event), not frozen in the spec",
            "register contents after a panic are unobservable; only the admissible-reason set, unchanged memory and the gas rule are required",
        ])
    return vlib.run_check(body, pid, level, tier)
