"""C05 — in-VM transaction introspection (GTF / GM) returns the executed transaction's data.
Specification: spec/vm/VmMeta.tla (selector tables as data, over the wire format of spec/tx/TxFormat.tla),
VmMeta_MC.tla (Leg M + generator of Leg R), VmMeta_Trace.tla (Leg T).  Harness: harness/src/bin/vh_vmmeta.rs."""
import json
import os
import re
from concurrent.futures import ThreadPoolExecutor

import tracecheck as tc
import vlib
from vlib import ToolError, log

SPEC = "vm/VmMeta.tla"
SPEC_TR = "vm/VmMeta_Trace.tla"
SPEC_MC = "vm/VmMeta_MC.tla"
BIN = "vh_vmmeta"
DOM = "vmmeta"

PROPERTIES = ["C05"]

MANIFEST = {
    "C05": dict(category="model_checking",
                technique="TLA+ specification of GTF / GM with the selector tables as data over the wire-format specification "
                          "(TxFormat: Enc, OffsetOf); TLC model-checks the decision table on model transactions of every kind "
                          "(totality, consistency, every pointer answer = offset of the field's canonical bytes) and emits every "
                          "(kind, selector, index) case for replay on the real interpreter; recorded GTF/GM executions of the real "
                          "interpreter in predicate, script and call context are validated by a TLC trace specification that "
                          "recomputes value / address / panic / gas from the abstract transaction and dereferences pointer answers "
                          "in the recorded VM memory",
                text="The harness builds script / create / upgrade / upload / blob transactions with all seven input variants "
                     "(byte-vector lengths around the word boundary, empty ones included), all output kinds, witnesses and sampled "
                     "policy masks, initialises the real interpreter (init_predicate for every kind, init_script, transact + "
                     "single-stepping into a called contract at depth 1 and 2), logs registers, the whole stack and "
                     "vm.transaction() as an abstract value, then executes GTF for every selector x every index value "
                     "(0..count+1, 2^16, 2^32, 2^64-1 ...) and GM for every selector through the real fetch or Interpreter::instruction, "
                     "plus undefined selectors, reserved / aliasing destination registers, $cgas/$ggas/$pc as index register and "
                     "insufficient gas. TLC accepts the Init event only if VM memory holds Enc(tx) at tx_offset, its length below, the "
                     "base asset id and the transaction id where the initialisation layout prescribes; it accepts a Step only if the "
                     "whole register file equals an outcome the specification admits (exact value; or address = tx_offset + "
                     "OffsetOf(field) with memory there equal to the field's canonical bytes; or the specified panic), memory and "
                     "stack extent are unchanged and the gas charge is the schedule's gtf / gm entry.",
                note="Where the instruction-set text leaves a choice the specification admits every outcome: deprecated Script*/Create* "
                     "aliases of fields every kind has, on other kinds (answer or InvalidMetadataIdentifier); fields a variant leaves "
                     "absent on the wire, Change.amount and Variable outputs under the coin selectors (wire value or not-found panic); "
                     "WHICH reason a failing query reports for an index outside the list (the list's not-found reason or "
                     "InvalidMetadataIdentifier; OutputContractInputIndex also InputNotFound); order of ReservedRegisterNotWritable vs "
                     "selector panics; charge before a non-gas panic; $cgas/$ggas read before or after the charge. Value-vs-panic "
                     "deviations are strict (see known_findings.json: $rB >= 2^32 refused by index-free selectors, ScriptGasLimit on "
                     "non-script kinds, InputContractOutputIndex). Trusted base: harness logs snapshots; BigNat/SHA-256 Java overrides; "
                     "b-txfmt's Canonical/TxFormat modules (bound to fuel-tx by C01/C04).",
                design_ref="4/C05"),
}

RULE = ("Leg M: one TLC state per (model transaction kind x policy mask x selector x index) case. Leg R: each of these cases performed "
        "on the real interpreter. Leg T: one Step event per executed GTF/GM; distinct = distinct (context, transaction kind, "
        "instruction, selector, variant of the indexed element | absent, index class, destination class, outcome / panic reason) "
        "tuples observed in the recorded trace")


# ------------------------------------------------------------------------------------------------------------------
# selector names (parsed from the specification's tables: the check has no table of its own)
# ------------------------------------------------------------------------------------------------------------------
def _tables():
    txt = open(os.path.join(vlib.SPEC, SPEC)).read()
    gtf = {}
    for m in re.finditer(r'\b(TxR|InR|OutR)\((\d+),\s*"(\w+)"', txt):
        gtf[int(m.group(2))] = (m.group(3), {"TxR": "tx", "InR": "input", "OutR": "output"}[m.group(1)])
    for m in re.finditer(r'\bRow(?:Nf)?\((\d+),\s*"(\w+)",\s*\w+,\s*(?:Rest\(\w+\)|\{\}|\w+),\s*"(\w+)"', txt):
        gtf[int(m.group(1))] = (m.group(2), m.group(3))
    gm = {int(a): b for a, b in re.findall(r'\((\d+) :> "(\w+)"\)', txt)}
    if len(gtf) < 80 or len(gm) < 8:
        raise ToolError("cannot parse the selector tables from " + SPEC)
    return gtf, gm


LISTS = {"input": "inputs", "output": "outputs", "witness": "witnesses", "slot": "storage_slots", "proof": "proof_set"}


def _describe(e, init, gtf, gm):
    """(instruction, selector name, dimension, index class, destination class, outcome) of a Step event"""
    w = int(e.get("word") or "0", 16)
    op, ra, rb = w >> 24, (w >> 18) & 63, (w >> 12) & 63
    obs = "ok" if e.get("out") == "proceed" else str(e.get("reason") or e.get("out"))
    dest = "reserved" if ra < 16 else "writable"
    tx = init["tx"]
    if op == 0x61:
        sel = w & 0xfff
        name, scope = gtf.get(sel, ("undefined", "tx"))
        pk = e.get("poke", {})
        b = int(pk.get(str(rb), init["regs"][rb]))
        big = b >= 2 ** 32
        if scope in LISTS:
            lst = tx.get(LISTS[scope], [])
            if b < len(lst):
                dim = lst[b]["kind"] if scope in ("input", "output") else "present"
                pres = "present"
            else:
                dim = pres = "absent"
            idx = "in" if b < len(lst) else ("ge2^32" if big else ("ge2^16" if b >= 65536 else "out"))
        elif scope == "policy":
            dim = pres = "policy"
            idx = "ge2^32" if big else "any"
        else:
            dim = pres = "kind=" + tx["kind"]
            idx = "ge2^32" if big else "any"
        d = dict(ins="GTF", name=name, dim=dim, pres=pres, idx=idx, dest=dest, obs=obs, defined=sel in gtf, b=b)
        if name == "InputContractOutputIndex":
            # the IMPLEMENTED rule of this selector (a recorded finding: it is not the documented field): the position of an
            # Output::Contract whose input_index is $rB; InputNotFound when there is none; InvalidMetadataIdentifier for $rB >= 2^16.
            # `rule` says whether the observation follows that rule exactly — only then does it fall into a known class.
            outs = tx.get("outputs", [])
            pos = [k for k, o in enumerate(outs) if o.get("kind") == "Contract" and int(o.get("input_index", -1)) == b]
            if b >= 65536:
                want = "InvalidMetadataIdentifier"
            elif not pos:
                want = "InputNotFound"
            else:
                want = "ok"
            follows = obs == want
            if follows and obs == "ok":
                got = e.get("val")
                if got is None:
                    got = (e.get("regs") or {}).get(str(ra))
                # (a checked transaction has exactly one such output; the generators also build transactions with several)
                follows = got is not None and int(got) in pos
            d["rule"] = follows
        return d
    if op == 0x71:
        imm = w & 0x3ffff
        return dict(ins="GM", name=gm.get(imm, "undefined"), dim=init["ctx"]["kind"], pres=init["ctx"]["kind"], idx="-", dest=dest,
                    obs=obs, defined=imm in gm, b=0)
    return dict(ins="op%02x" % op, name="?", dim="?", pres="?", idx="-", dest=dest, obs=obs, defined=False, b=0)


# selectors whose implemented meaning is not a function of the element at the index: their classes carry no element dimension
NO_ELEMENT_DIMENSION = {"InputContractOutputIndex"}


def _class(d):
    """stable class string of a deviating event: instruction / selector / dimension / observed outcome, where the dimension is
    the transaction kind (transaction-level selectors), the variant of the indexed element or `absent` (list selectors), the
    context (GM).  The set of classes a given deviation can produce is closed and does not depend on the seed."""
    if d["ins"] == "GTF" and d["defined"] and d["idx"] == "ge2^32" and d["obs"] == "InvalidMetadataIdentifier":
        return "vmmeta/GTF/index>=2^32/InvalidMetadataIdentifier"
    if d["dest"] == "reserved" and d["obs"] == "ok":
        return "vmmeta/%s/reserved-destination/ok" % d["ins"]
    if d["name"] in NO_ELEMENT_DIMENSION:
        if d.get("rule") is False:
            return "vmmeta/%s/%s/%s/not-the-implemented-rule" % (d["ins"], d["name"], d["obs"])
        return "vmmeta/%s/%s/%s" % (d["ins"], d["name"], d["obs"])
    return "vmmeta/%s/%s/%s/%s" % (d["ins"], d["name"], d["dim"], d["obs"])


# ------------------------------------------------------------------------------------------------------------------
# Leg T: tolerant trace validation — every event is evaluated, deviating events are listed by TLC
# ------------------------------------------------------------------------------------------------------------------
def _validate_tolerant(chk, trace_path, events, parallel, timeout):
    segs = tc.split_segments(events)
    n = max(1, min(parallel, len(segs)))
    total = len(events)
    groups = [[] for _ in range(n)]
    gi, acc = 0, 0
    for s in segs:
        if acc >= total / float(n) * (gi + 1) and gi < n - 1:
            gi += 1
        groups[gi].append(s)
        acc += len(s)
    groups = [g for g in groups if g]
    starts, pos = [], 0
    for g in groups:
        starts.append(pos)
        pos += sum(len(s) for s in g)

    def work(k):
        p = trace_path + ".g%d" % k
        vlib.write_ndjson(p, [x for s in groups[k] for x in s])
        res = vlib.tlc(SPEC_TR, workers=1, deque=True, env={"TRACE": p, "VMMETA_TOLERANT": "1"}, timeout=timeout, xmx="5g",
                       tag="%s_tr_%d_g%d" % (DOM, os.getpid(), k))
        if res.rejected or not res.ok:
            raise ToolError("TLC did not consume trace group %s:\n%s" % (p, vlib.tlc_fail_text(res)))
        bad = [(int(m.group(1)), m.group(2)) for m in re.finditer(r'<<"MISMATCH", (\d+), "(\w+)">>', res.out)]
        os.remove(p)
        return res.distinct, [(starts[k] + i - 1, what) for i, what in bad]

    if len(groups) == 1:
        results = [work(0)]
    else:
        with ThreadPoolExecutor(max_workers=len(groups)) as ex:
            results = list(ex.map(work, range(len(groups))))
    states = sum(r[0] for r in results)
    bad = sorted(set(x for r in results for x in r[1]))
    return states, bad, len(segs)


MC_INVARIANTS = ["I_Total", "I_OutcomeShape", "I_UnknownSelector", "I_WrongKind", "I_OutOfRange", "I_InRangeAnswered", "I_IndexIgnored",
                 "I_PolicyLaw", "I_PointerInImage", "I_ValueFits", "I_ZeroedLaw", "I_AliasesAgree", "TableWellFormed", "GmTotal", "GmContext", "Emit"]


def _model_check(chk, thorough, dump):
    """Leg M (TLC without -coverage: the per-expression statistics of the recursive format operators exhaust the heap; the
    vacuity test is done on the state count instead)"""
    base = os.path.join(vlib.SPEC, SPEC_MC.replace(".tla", ".cfg"))
    txt = open(base).read()
    txt = re.sub(r"(?m)^(\s*Thorough\s*=\s*).*$", lambda m: m.group(1) + ("TRUE" if thorough else "FALSE"), txt)
    txt = re.sub(r"(?m)^(\s*EmitReplay\s*=\s*).*$", lambda m: m.group(1) + "TRUE", txt)
    cfg = os.path.basename(base).replace(".cfg", "_%d.gen.cfg" % os.getpid())
    with open(os.path.join(os.path.dirname(base), cfg), "w") as f:
        f.write(txt)
    try:
        res = vlib.tlc(SPEC_MC, cfg=cfg, workers=4, timeout=2400, xmx="6g", dump_out=dump, tag="C05_mc_%d" % os.getpid())
    finally:
        os.remove(os.path.join(os.path.dirname(base), cfg))
    if res.invariant_violated:
        raise ToolError("model %s violates %s at design level:\n%s" % (SPEC_MC, res.invariant_violated, vlib.tlc_fail_text(res, 80)))
    if not res.ok:
        raise ToolError("TLC failed on %s:\n%s" % (SPEC_MC, vlib.tlc_fail_text(res)))
    chk.add("states", res.distinct)
    chk.add("transitions", res.generated)
    chk.add("model_states", res.distinct)
    return res


def _mut_step(events, rng):
    """binding self-test: perturb one logged observation of one GTF/GM event (a returned value / address, the gas charge,
    the panic reason)"""
    cands = [i for i, e in enumerate(events) if e.get("ev") == "Step" and e.get("out") in ("proceed", "panic")]
    if not cands:
        return None
    for _ in range(50):
        i = rng.choice(cands)
        e = events[i]
        w = int(e["word"], 16)
        ra = str((w >> 18) & 63)
        if e["out"] == "proceed" and ra in e.get("regs", {}):
            e["regs"][ra] = str(int(e["regs"][ra]) + rng.choice([1, 8, 32]))      # value / address off by a little
            e.pop("deref", None)
            return i
        swap = {"InputNotFound": "WitnessNotFound", "OutputNotFound": "WitnessNotFound", "WitnessNotFound": "InputNotFound",
                "PolicyIsNotSet": "InvalidMetadataIdentifier", "CanNotGetGasPriceInPredicate": "ExpectedInternalContext"}
        if e["out"] == "panic" and e.get("reason") in swap:
            e["reason"] = swap[e["reason"]]                                       # another list's / condition's panic reason
            return i
    return None


def run(pid, tier):
    level = "model_checking"

    def body(chk):
        thorough = tier == "thorough"
        import time
        t0 = time.time()

        def lap(what):
            log("[C05] %s done at %.0fs" % (what, time.time() - t0))
        vlib.harness_build(BIN)
        gtf, gm = _tables()
        # ---- Leg M: the decision table on model transactions; the same run generates the cases of Leg R ----
        dump = os.path.join(vlib.WORK, "%s_mc_dump.txt" % pid)
        res = _model_check(chk, thorough, dump)
        beh = os.path.join(vlib.WORK, "%s_cases.ndjson" % pid)
        nlines = tc.extract_replay(dump, beh)
        os.remove(dump)
        lines = vlib.read_ndjson(beh)
        ncases = sum(len(x["cases"]) for x in lines)
        # vacuity: both actions were taken for every model transaction (1 start state + one state per transaction + one per case)
        if nlines == 0 or res.distinct != 1 + nlines + ncases or res.depth != 3:
            raise ToolError("vacuous model run: %d transactions, %d cases, %d states, depth %d" % (nlines, ncases, res.distinct, res.depth))
        chk.set("model", dict(spec=SPEC_MC, distinct_states=res.distinct, model_transactions=nlines, cases=ncases, invariants=MC_INVARIANTS))
        # ---- Leg R: every case on the real interpreter ----
        rres = os.path.join(vlib.WORK, "%s_replay.ndjson" % pid)
        vlib.vh(["replay", DOM, beh, "-o", rres], bin=BIN, timeout=1800)
        summary, seen = None, {}
        for r in vlib.read_ndjson(rres):
            if "summary" in r:
                summary = r["summary"]
            elif "mismatch" in r:
                ob = r["observed"]
                pseudo = dict(word="%08x" % ((0x61 << 24) | (0x10 << 18) | (0x11 << 12) | r["sel"]), poke={"17": r["b"]},
                              out="proceed" if ob.get("ok") else "panic", reason=ob.get("why"), val=ob.get("val") if ob.get("ok") else None)
                d = _describe(pseudo, dict(tx=lines[r["line"]]["tx"], regs=["0"] * 64, ctx=dict(kind="predicate")), gtf, gm)
                seen.setdefault(_class(d), []).append(r)
        if summary is None or summary["cases"] != ncases:
            raise ToolError("Leg R: incomplete replay %s of %d cases" % (summary, ncases))
        for cls, rs in sorted(seen.items()):
            r = rs[0]
            chk.violation(cls, rres, dict(leg="R", cases_in_class=len(rs), **{k: r[k] for k in ("name", "expected", "observed", "sel", "b", "case")}))
        chk.add("behaviours_replayed", ncases)
        lap("legs M+R")
        chk.set("replay", dict(summary, classes=sorted(seen)))
        # ---- Leg T ----
        tr = os.path.join(vlib.WORK, "%s_trace.ndjson" % pid)
        vlib.vh(["record", DOM, "--tier", tier, "-o", tr], bin=BIN, timeout=1800)
        events = vlib.read_ndjson(tr)
        hp = [i for i, e in enumerate(events) if e.get("ev") == "HostPanic"]
        for i in hp[:5]:
            chk.violation("vmmeta/HostPanic/" + str(events[i].get("where")), tr, dict(leg="T", index=i, event=tc._short(events[i])))
        events = [e for e in events if e.get("ev") != "HostPanic"]
        states, bad, nseg = _validate_tolerant(chk, tr, events, 4, 2400)
        lap("leg T")
        # the Init event each event belongs to
        init_of, cur = {}, None
        inits = 0
        badidx = {i for i, _ in bad}
        regfile = None
        for i, e in enumerate(events):
            if e.get("ev") == "Init":
                cur = e
                inits += 1
                regfile = [str(x) for x in e.get("regs", [])]
            elif e.get("ev") == "Step" and regfile:
                # the register file after the step (the Step event logs differences only): needed to judge the answer of a
                # deviating GTF whose destination happened to hold the answer already
                for k, v in (e.get("poke") or {}).items():
                    regfile[int(k)] = str(v)
                for k, v in (e.get("regs") or {}).items():
                    regfile[int(k)] = str(v)
                if i in badidx and e.get("out") == "proceed":
                    ra = (int(e.get("word") or "0", 16) >> 18) & 63
                    e["val"] = regfile[ra]
            init_of[i] = cur
        by_class = {}
        for i, what in bad:
            e = events[i]
            if e.get("ev") == "Init":
                cls = "vmmeta/Init/%s/%s" % (e["ctx"]["kind"], e["tx"]["kind"])
                d = None
            else:
                d = _describe(e, init_of[i], gtf, gm)
                cls = _class(d)
            by_class.setdefault(cls, []).append((i, d))
        for cls, lst in sorted(by_class.items()):
            i, d = lst[0]
            chk.violation(cls, tr, dict(leg="T", spec=SPEC_TR, events_in_class=len(lst), index=i, event=tc._short(events[i], 900), described=d,
                                        tx_kind=init_of[i]["tx"]["kind"], context=init_of[i]["ctx"]))
        badset = {i for i, _ in bad}
        steps = [(i, e) for i, e in enumerate(events) if e.get("ev") == "Step"]
        chk.add("states", states)
        chk.add("transitions", states)
        chk.add("trace_events_recorded", len(events) + len(hp))
        chk.add("trace_events_validated", len(events) - len(badset))
        chk.add("traces_validated_against_impl", nseg)
        chk.set("sessions", inits)
        chk.set("steps", len(steps))
        chk.set("deviating_events", len(badset))
        chk.set("deviating_classes", sorted(by_class))
        keys, sels, ctxs = set(), set(), set()
        for i, e in steps:
            ini = init_of[i]
            d = _describe(e, ini, gtf, gm)
            keys.add((ini["ctx"]["kind"], ini["tx"]["kind"], d["ins"], d["name"], d["dim"], d["idx"], d["dest"], d["obs"], bool(e.get("fetch"))))
            sels.add((d["ins"], d["name"]))
            ctxs.add((ini["ctx"]["kind"], ini["tx"]["kind"], len(ini["ctx"].get("frames", []))))
        chk.set("selectors_exercised", len(sels))
        chk.set("contexts", sorted("%s/%s/depth%d" % c for c in ctxs))
        chk.set("policy_masks_seen", len({init_of[i]["tx"]["policies"]["mask"] for i, _ in steps}))
        for i, e in steps[40:43]:
            chk.sample(tc._short(e, 500))
        # ---- binding self-test (strict protocol) on the events the specification explains ----
        clean = tr + ".clean"
        vlib.write_ndjson(clean, [e for i, e in enumerate(events) if i not in badset or e.get("ev") == "Init"])
        tc.selftest_corrupt(chk, DOM, SPEC_TR, clean, _mut_step, max_events=3000, timeout=1200)
        os.remove(clean)
        lap("self-test")
        chk.set("evaluations", len(events) - len(badset) + summary["cases"])
        chk.set("distinct_nontrivial", len(keys))
        chk.set("rule", RULE)
        chk.set("exhaustive", False)
        chk.assumptions.extend([
            "exact BigNat arithmetic and SHA-256 are evaluated by Java overrides inside TLC",
            "the gas schedule, tx offset, chain id, base asset id and gas price are read from the implementation (Init event)",
            "the wire format (Enc / OffsetOf) is the one of spec/tx/TxFormat.tla, bound to fuel-tx by C01 / C04",
        ])
    return vlib.run_check(body, pid, level, tier)
