"""VM-core properties decided by the FuelVM specification (spec/vm/FuelVM*.tla) and the per-instruction recorder
(harness/src/vmcore.rs, vm/drivers.rs, binary vh_vm)."""
import json
import os
import sys

import tracecheck as tc
import mccalls
import vlib
from vlib import ToolError

SPEC_TR = "vm/FuelVM_Trace.tla"
SPEC_MC = "vm/FuelVM_MC.tla"
BIN = "vh_vm"

# property -> recorder parts (each part = one driver in harness/src/vm/drivers.rs)
PARTS = {
    "C21": ["alu"],
    "C24": ["mem", "prog", "fuzz", "calls"],
    "C25": ["flow", "prog"],
    "C26": ["prog", "gas", "calls", "assets"],
    "C34": ["calls"],
    "C27": ["assets", "calls"],
    "C28": ["assets", "prog", "client"],
    "C31": ["reuse"],
    "C32": ["debug"],
    "C29": ["fuzz", "prog"],
}

# extra recorder parts of the thorough tier (C29: the boundary-operand drivers of every instruction family are also run for crashes)
PARTS_THOROUGH = {"C29": ["alu", "flow", "mem", "calls", "assets"]}
PROPERTIES = ["C21", "C24", "C25", "C26", "C27", "C28", "C29", "C31", "C32", "C34"]

_COMMON_NOTE = ("Trusted base: the harness only snapshots registers/memory/receipts around each instruction and logs differences; "
                "BigNat/SHA-256 Java overrides inside TLC. Instructions without an exact action yet are checked only against the "
                "universal obligations (gas monotone, $cgas <= $ggas, $zero/$one constant); the evidence file lists which opcodes were exact.")

MANIFEST = {
    "C21": dict(category="model_checking",
                technique="TLA+ FuelVM specification of every register-level ALU instruction (exact BigNat semantics) as oracle in a TLC trace "
                          "specification; recorded single-instruction executions of the real interpreter validated against it",
                text="Every ALU opcode (ADD..XORI, MLDV, NIOP, MOVE/MOVI, NOOP) is executed on the real interpreter through Interpreter::instruction with "
                     "boundary-biased operand pairs, all immediates classes, the four flag settings, writable and reserved destinations and low gas; "
                     "TLC recomputes result, $of, $err, $pc, gas charge and the admissible panic reasons from FuelVM.tla and requires equality of the "
                     "whole register file; NIOP is swept over 8-bit operands (exhaustive in the thorough tier).",
                note=_COMMON_NOTE, design_ref="4/C21"),
    "C24": dict(category="model_checking",
                technique="TLC model-checks WritesOwned/ZeroOutside on a generative tiny VM built from the same effect operators; whole-memory "
                          "snapshots around every real instruction are validated by the FuelVM trace specification (exact expected writes for "
                          "memory instructions, ownership panics)",
                text="Memory instructions (loads, stores, MCL/MCP/MEQ, ALOC, CFEI/CFSI/CFE/CFS, PSH*/POP*) are driven with addresses aimed at the "
                     "region boundaries ($ssp, $sp, $hp, stack extent, 2^26, u64 extremes); the recorder diffs the whole memory around each step and "
                     "TLC requires the changed bytes to equal the specification's writes (none on panic) and the panic reason to be one the "
                     "specification admits (MemoryOverflow / UninitalizedMemoryAccess / MemoryOwnership / MemoryWriteOverlap / MemoryGrowthOverlap).",
                note=_COMMON_NOTE, design_ref="4/C24"),
    "C25": dict(category="model_checking",
                technique="TLA+ jump semantics (four modes, saturating arithmetic, memory bound, JAL link) + fetch rule as oracle in the TLC trace "
                          "specification; real single jumps (exec mode) and generated programs through the real run loop validated",
                text="Every jump opcode x boundary register/immediate values x $pc/$is placements is executed on the real interpreter and compared "
                     "with the specified target or MemoryOverflow panic; in run mode every step must fetch the word at $pc inside [$is, $ssp) and "
                     "every modelled non-jump instruction must advance $pc by 4; a failing fetch must yield the specified panic.",
                note=_COMMON_NOTE, design_ref="4/C25"),
    "C26": dict(category="model_checking",
                technique="TLC checks GasInv/GasNeverUp on the generative VM model; every recorded step of every trace is validated for $cgas <= $ggas, "
                          "$ggas non-increasing and, for modelled instructions, the exact schedule charge (incl. dependent costs and out-of-gas); "
                          "script-result gas_used = limit - $ggas",
                text="The gas schedule is read from the implementation at run time (default, unit and seeded random schedules); TLC recomputes the "
                     "prescribed charge of each modelled instruction from that schedule and its arguments and requires the exact register effect, "
                     "including out-of-gas ($cgas = 0, $ggas reduced by the old $cgas) with limits that run out mid-program.",
                note=_COMMON_NOTE + " CALL gas forwarding is covered by C34's check once CALL/RET are exact.", design_ref="4/C26"),
    "C34": dict(category="model_checking",
                technique="TLC model-checks the generative model FuelVM_Calls_MC (ALL programs over an alphabet of CALL/RET/RVRT/TR/TRO/MINT/BURN/"
                          "LOG/stack/heap words up to a depth bound, two input contracts + one outsider, same effect operators as the trace spec) for "
                          "FrameIntact, FramesNested, CallStep, RetStep, CallerStackUnchanged, TopReturn, GasLedger with reachability witnesses; the "
                          "TLA+ specification of CALL / RET / RETD / RVRT (frame bytes, register save/restore, gas forwarding and credit, balance "
                          "movement, receipts) is the oracle in the TLC trace specification; generated call trees on the real VM validated step by step",
                text="Scripts with random caller registers and stack contents call deployed contracts (plain return, return data of lengths 0..70000, "
                     "callee stack/heap use, recursion, nested calls forwarding coins and gas, revert, panic, attempts to write the caller's frame); "
                     "at the CALL step TLC requires the exact frame bytes (callee id, asset, all 64 saved registers, padded code size, params, code + "
                     "zero padding), $fp/$ssp/$sp/$is/$pc/$bal/$cgas/$flag, the Call receipt and the balance table update; at the returning step every "
                     "register must equal the saved frame except $cgas (credited), $ggas, $ret, $retl, $hp, and $pc = call site + 4; memory outside the "
                     "callee's owned regions must be unchanged at every step.",
                note=_COMMON_NOTE, design_ref="4/C34"),
    "C27": dict(category="model_checking",
                technique="TLC model-checks FuelVM_Calls_MC (all programs over a call/asset alphabet, depth-bounded) for per-asset conservation in EVERY "
                          "state (Conserved, NoOtherAsset, FinalConserved, ReceiptsMove, MovesHaveReceipt) with reachability witnesses; "
                          "TLA+ specification of TR / TRO / MINT / BURN / SMO / BAL / CALL balance movements (exact, with receipts) as oracle in the TLC "
                          "trace specification, plus a per-asset ledger equation evaluated by TLC at the end of every successful run on OBSERVED "
                          "balances (memory table, storage dump, outputs, receipts)",
                text="Generated scripts and contracts transfer to contracts and to variable outputs, forward coins in calls, mint, burn, send messages and "
                     "return / revert / panic; at each asset instruction TLC requires the exact debit (free-balance table bytes in memory or contract "
                     "balance), credit, new-entry storage gas, receipt fields and panic reason; at the end: initial free balance + contracts' prior "
                     "balances + minted = final free balance + contracts' final balances + variable outputs + burned (+ message amounts for the "
                     "base asset) for every asset seen, model balances = real storage, change outputs = free balance (+ refund of the fee limit "
                     "for the base asset) and on revert = initial balance.",
                note=_COMMON_NOTE + " Internal RuntimeBalances are observed through their in-memory table (the table bytes are compared at every step).",
                design_ref="4/C27"),
    "C28": dict(category="model_checking",
                technique="TLC trace specification: terminal-step rules (exactly one ScriptResult, Panic receipt iff panic, state/result mapping, gas_used), "
                          "receipts root recomputed with the RFC 6962 oracle over the encoded receipts, output finalisation rules, storage rollback law "
                          "for the in-memory client, receipt limit",
                text="Every recorded run must end with exactly one ScriptResult preceded by a Panic receipt iff the run panicked, success iff top-level "
                     "return, revert iff RVRT; TLC recomputes the receipts root (RFC 6962 over receipt encodings) and the change / variable outputs "
                     "(zeroed variable outputs and initial balances on revert); transactions through MemoryClient that write storage then revert / "
                     "panic / run out of gas must leave slots, balances and code exactly as before; a LOG loop to the 65 535 receipt bound must stop "
                     "with TooManyReceipts as the last-but-one receipt.",
                note=_COMMON_NOTE, design_ref="4/C28"),
    "C31": dict(category="model_checking",
                technique="the reference execution (fresh interpreter, single-stepped) is validated instruction by instruction against the deterministic "
                          "FuelVM specification; executions of the SAME ready transaction against equal storage on reused instances are replica "
                          "events whose final state TLC requires to equal the reference's (receipts byte for byte, receipts root, output transaction, "
                          "storage dump)",
                text="For seeded pairs (history, target) the target runs on a fresh interpreter and on an interpreter that previously executed 1-3 "
                     "other transactions (large heaps, deep stacks, warm storage-slot caches, panics, reverts), on a second fresh un-stepped "
                     "interpreter and on a reused MemoryClient; the specification is a function of (tx, params, storage), so the accepted reference "
                     "trace fixes the unique admissible final state and every replica must match it.",
                note=_COMMON_NOTE + " Predicate memory modes (fresh / reused / pool) are covered by C20's check.", design_ref="4/C31"),
    "C32": dict(category="model_checking",
                technique="TLC trace specification: the single-stepped reference run is validated step by step and yields the sequence of visited "
                          "(contract, pc) locations; runs without a debugger and with seeded breakpoint sets (resumed after every event) are replica "
                          "events: equal final state, and the reported debug events must equal the reference's arrivals at breakpoint locations",
                text="Scripts calling contracts (storage writes, logs, mint, revert / panic variants, tight loops whose target carries a breakpoint, "
                     "breakpoints inside the callee) run plain, single-stepped and with 2-4 breakpoint sets each; TLC requires identical receipts, "
                     "receipts root, output transaction and storage, and breaks = SelectSeq(visited locations, in breakpoint set): every arrival "
                     "reported exactly once, in order, none spurious.",
                note=_COMMON_NOTE, design_ref="4/C32"),
    "C29": dict(category="exploration",
                technique="seeded byte-level and grammar-generated scripts executed on the real VM under the TLC trace specification: a host panic, "
                          "Bug error or runaway execution is an event with no specification action (trace rejected); universal per-step "
                          "obligations evaluated by TLC on every step; since the instruction dispatch of the specification is total except ECAL/GM/GTF "
                          "every executed word is also checked against its exact effect (incl. the hashing, signature, curve and block instructions, "
                          "driven at their operand boundaries by vh_vmcrypto)",
                text="Random instruction words (fully random, valid opcode + random arguments, plausible operands) and structured programs run through "
                     "transact/resume; the recorder catches panics of the host; TLC rejects HostPanic/Bug/Runaway events and checks that every "
                     "non-terminal executed instruction strictly decreases $ggas under the default schedule.",
                note="Exploration: the input space is programs; the specification supplies the per-step obligations.", design_ref="4/C29"),
}

RULES = {
    "C21": "one Step event per executed ALU instruction; distinct = distinct (opcode, outcome, panic reason, flag value, destination class, "
           "$of != 0, $err) tuples observed",
    "C24": "distinct = distinct (opcode, outcome, panic reason, region class of the target address) tuples over all memory-touching steps",
    "C25": "distinct = distinct (opcode, outcome, panic reason, taken/not taken, target class) tuples + distinct terminal outcomes of runs",
    "C26": "distinct = distinct (opcode, paid / out-of-gas, schedule kind) tuples over all steps",
    "C34": "distinct = distinct (callee shape, call depth reached, terminal outcome, coins forwarded > 0, gas forwarded class) tuples over runs "
           "+ distinct (opcode, outcome) pairs inside calls",
    "C27": "distinct = distinct (asset opcode, context script/contract, outcome, panic reason) tuples + distinct (terminal state, number of "
           "assets conserved) pairs over runs",
    "C28": "distinct = distinct (terminal state, panic reason, number of receipts, outputs shape) tuples over runs + ClientTx / RunSummary events",
    "C31": "distinct = distinct (replica kind, history shape, terminal state, number of receipts) tuples",
    "C32": "distinct = distinct (number of breakpoints, number of break events, terminal state) tuples + replica kinds",
    "C29": "distinct = distinct programs (by hash of code) + distinct (first opcode, terminal outcome) pairs",
}


def _class_of_addr(a, regs):
    return "?"


def _distinct(pid, events):
    keys = set()
    for e in events:
        if pid in ("C31", "C32") and e.get("ev") in ("Replica", "ReplicaReceipts", "BpRun"):
            f = e.get("final", {})
            keys.add((e.get("ev"), e.get("kind"), tuple(e.get("history", [])), f.get("state"), f.get("nrc"), len(e.get("bps", [])), len(e.get("breaks", []))))
            continue
        if e.get("ev") != "Step":
            continue
        w = e.get("word") or "--"
        out = e.get("out") or (e["fin"]["state"] if "fin" in e else "cont")
        if pid == "C21":
            pk = e.get("poke", {})
            keys.add((w[:2], out, e.get("reason"), pk.get("15"), "2" in e.get("regs", {}), "8" in e.get("regs", {})))
        elif pid == "C24":
            keys.add((w[:2], out, e.get("reason"), len(e.get("mem", [])) > 0, e.get("slen"), e.get("hp")))
        elif pid == "C25":
            keys.add((w[:2], out, e.get("reason"), "3" in e.get("regs", {}), e.get("regs", {}).get("3")))
        elif pid == "C26":
            keys.add((w[:2], out, e.get("reason"), e.get("run")))
        elif pid == "C27":
            if w[:2] in ("3c", "3d", "35", "2c", "4c", "49", "2d"):
                keys.add((w[:2], out, tuple(r.get("reason") for r in e.get("rc", []) if r.get("kind") == "Panic"), len(e.get("mem", []))))
        elif pid == "C28":
            if "fin" in e:
                keys.add((out, len(e.get("rc", [])), tuple(r.get("reason") for r in e["rc"] if r.get("kind") == "Panic"), e.get("run") % 7))
        elif pid == "C34":
            keys.add((w[:2], out, len(e.get("rc", [])), e.get("regs", {}).get("6"), e.get("regs", {}).get("11")))
        else:
            keys.add((e.get("run"), w[:2], out))
    return len(keys)


def _mut_reg(events, rng):
    """self-test: perturb one logged post-register of a successful step of an exactly modelled instruction"""
    exact = {"10", "11", "12", "13", "14", "15", "16", "19", "1a", "1b", "1c", "1d", "1e", "1f", "20", "21", "50", "51", "55", "59", "72",
             "5d", "5f", "4a", "74", "75", "90", "26", "91"}
    cands = [i for i, e in enumerate(events) if e.get("ev") == "Step" and (e.get("out") == "proceed" or (e.get("mode") == "run" and "fin" not in e))
             and (e.get("word") or "--")[:2] in exact and e.get("regs")]
    if not cands:
        return None
    i = rng.choice(cands)
    r = rng.choice(sorted(events[i]["regs"]))
    events[i]["regs"][r] = str(int(events[i]["regs"][r]) + 1)
    return i


def _mut_mem(events, rng):
    """self-test: perturb one logged memory change of a store-like instruction"""
    cands = [i for i, e in enumerate(events) if e.get("ev") == "Step" and e.get("mem") and (e.get("out") == "proceed" or (e.get("mode") == "run" and "fin" not in e))
             and (e.get("word") or "--")[:2] in {"5f", "5e", "64", "65", "28", "60", "95", "96"}]
    if not cands:
        return None
    i = rng.choice(cands)
    a, h = events[i]["mem"][0]
    events[i]["mem"][0] = [a, ("ff" if h[:2] != "ff" else "00") + h[2:]]
    return i


def _mut_gas(events, rng):
    """self-test: the step charges one unit of gas less than logged"""
    cands = [i for i, e in enumerate(events) if e.get("ev") == "Step" and "9" in e.get("regs", {}) and "10" in e.get("regs", {})
             and (e.get("out") == "proceed" or (e.get("mode") == "run" and "fin" not in e))
             and (e.get("word") or "--")[:2] in {"10", "50", "72", "5d", "5f", "1b", "20", "91", "26"}]
    if not cands:
        return None
    i = rng.choice(cands)
    for r in ("9", "10"):
        events[i]["regs"][r] = str(int(events[i]["regs"][r]) + 1)
    return i


def _mut_hostpanic(events, rng):
    """self-test: a host panic event appears in the trace"""
    cands = [i for i, e in enumerate(events) if e.get("ev") == "Step" and "fin" not in e]
    if not cands:
        return None
    i = rng.choice(cands)
    events[i] = {"ev": "HostPanic", "run": events[i].get("run"), "where": "resume", "msg": "self-test"}
    return i


def _mut_ret(events, rng):
    """self-test: one register restored by a return inside a call is off by 8"""
    cands = [i for i, e in enumerate(events) if e.get("ev") == "Step" and (e.get("word") or "--")[:2] in {"24", "25"} and "fin" not in e
             and "5" in e.get("regs", {}) and "6" in e.get("regs", {})]
    if not cands:
        return None
    i = rng.choice(cands)
    r = rng.choice(["5", "6", "4"])
    if r not in events[i]["regs"]:
        r = "5"
    events[i]["regs"][r] = str(int(events[i]["regs"][r]) + 8)
    return i


def _mut_final_root(events, rng):
    cands = [i for i, e in enumerate(events) if e.get("ev") == "Final" and e.get("receipts_root")]
    if not cands:
        return None
    i = rng.choice(cands)
    r = events[i]["receipts_root"]
    events[i]["receipts_root"] = ("0" if r[0] != "0" else "1") + r[1:]
    return i


def _mut_balance(events, rng):
    """self-test: a contract balance in the final storage dump of a successful run is off by one"""
    cands = [i for i, e in enumerate(events) if e.get("ev") == "Final" and e.get("state") in ("return", "returndata")
             and any(v.get("bal") for v in (e.get("post") or {}).get("contracts", {}).values())]
    if not cands:
        return None
    i = rng.choice(cands)
    for c, v in events[i]["post"]["contracts"].items():
        if v["bal"]:
            a = sorted(v["bal"])[0]
            v["bal"][a] = str(int(v["bal"][a]) + 1)
            break
    return i


def _mut_replica(events, rng):
    """self-test: a replica's receipts differ from the reference in one byte"""
    cands = [i for i, e in enumerate(events) if e.get("ev") in ("Replica", "BpRun") and e.get("final", {}).get("rc_all")]
    if not cands:
        return None
    i = rng.choice(cands)
    r = events[i]["final"]["rc_all"][-1]
    events[i]["final"]["rc_all"][-1] = r[:-1] + ("0" if r[-1] != "0" else "1")
    return i


def _mut_breaks(events, rng):
    """self-test: one reported debug event is dropped"""
    cands = [i for i, e in enumerate(events) if e.get("ev") == "BpRun" and e.get("breaks")]
    if not cands:
        return None
    i = rng.choice(cands)
    events[i]["breaks"].pop(rng.randrange(len(events[i]["breaks"])))
    return i


SELFTEST = {"C34": _mut_ret, "C31": _mut_replica, "C32": _mut_breaks, "C27": _mut_balance, "C28": _mut_final_root, "C21": _mut_reg, "C24": _mut_mem, "C25": _mut_reg, "C26": _mut_gas, "C29": _mut_hostpanic}


def run(pid, tier):
    level = MANIFEST[pid]["category"]

    def body(chk):
        thorough = tier == "thorough"
        vlib.harness_build(BIN)
        # ---- Leg M: generative tiny VM (design-level invariants of the same effect operators) ----
        if pid in ("C24", "C25", "C26") or thorough:
            # (no -coverage: TLC's coverage bookkeeping of the recursive memory operators exhausts the heap; vacuity is
            #  excluded by requiring a minimum number of distinct states instead)
            res = tc.model_check(chk, SPEC_MC, constants={"MaxDepth": 5 if thorough else 3}, workers=4, timeout=2400,
                                 tag=pid + "_mc", coverage=False, min_states=500, xmx="6g")
            chk.set("model", dict(spec=SPEC_MC, depth=5 if thorough else 3, distinct_states=res.distinct,
                                  invariants=["GasInv", "ConstRegs", "PcOk", "StackOrder", "ZeroOutside"], properties=["GasNeverUp", "WritesOwned"]))
        else:
            chk.set("model", "quick tier: the straight-line generative model FuelVM_MC runs in the C24/C25/C26 checks and in this check's thorough tier (FuelVM_Calls_MC: see mc_calls)")
        # ---- Leg M for calls / assets: all programs over a call + asset alphabet (FuelVM_Calls_MC) ----
        if pid in ("C27", "C34"):
            mccalls.hook(chk, tier)
        # ---- Leg T for the hashing / signature / curve / block instructions at their operand boundaries (vh_vmcrypto) ----
        if pid == "C29" or (thorough and pid in ("C24", "C26", "C28")):
            sys.path.insert(0, os.path.dirname(os.path.abspath(__file__)))
            import vm_crypto
            vm_crypto.leg(chk, tier, tag=pid + "_crypto", selftest=False)
        # ---- Leg T ----
        tr = os.path.join(vlib.WORK, "%s_trace.ndjson" % pid)
        parts = PARTS[pid] + (PARTS_THOROUGH.get(pid, []) if thorough else [])
        vlib.vh(["record", "vm", "--tier", tier, "--part", ",".join(parts), "-o", tr], bin=BIN, timeout=3000)
        events = vlib.read_ndjson(tr)
        bad = [e for e in events if e.get("ev") in ("HostPanic", "Runaway")]
        # (thorough sessions reach several hundred KiB of stack and heap: the states TLC holds need more than the default heap)
        nev, nseg, st = tc.validate(chk, "vm", SPEC_TR, tr, tag=pid, timeout=5400, parallel=4 if thorough else 5, groups=16 if thorough else None, xmx="12g" if thorough else "4g")
        chk.add("states", st)
        chk.add("transitions", st)
        steps = [e for e in events if e.get("ev") == "Step"]
        chk.set("steps", len(steps))
        chk.set("runs", len([e for e in events if e.get("ev") == "Init"]))
        chk.set("opcodes_seen", sorted({(e.get("word") or "--")[:2] for e in steps}))
        chk.set("host_panics_or_runaways_recorded", len(bad))
        for e in steps[3:6]:
            chk.sample(tc._short(e, 500))
        tc.selftest_corrupt(chk, "vm", SPEC_TR, tr, SELFTEST[pid], max_events=2500, timeout=1200)
        chk.set("evaluations", nev)
        chk.set("distinct_nontrivial", _distinct(pid, events))
        chk.set("rule", RULES[pid])
        chk.set("exhaustive", False)
        chk.assumptions.extend([
            "exact BigNat arithmetic and SHA-256 are evaluated by Java overrides inside TLC",
            "the gas schedule, tx offset and chain id are read from the implementation (Init event), not frozen in the spec",
        ])
    return vlib.run_check(body, pid, level, tier)
