"""C19 — transaction checking accepts exactly the specification-valid transactions
(spec/tx/Validity*.tla, harness/src/bin/vh_validity.rs)."""
import collections
import json
import os
import re

import tracecheck as tc
import vlib
from vlib import ToolError, log

BIN = "vh_validity"
SPEC_MC = "tx/Validity_MC.tla"
SPEC_TR = "tx/Validity_Trace.tla"

RULE = ("Leg M/R: TLC enumerates every transaction of the structural families of Validity_MC (all sequences of <= 2-3 inputs / "
        "outputs over 2 assets, 2 owners, 2 contracts, 2 utxo ids, 2 nonces, all 6 kinds, tight consensus limits) plus all amount "
        "combinations over {0,1,5,2^64-1} for 7 shapes, and from every accepted one every single mutation of a limit / policy / "
        "amount / input attribute / witness vector / body field; each case is built as a real transaction and checked with "
        "into_checked_basic and check_without_signatures under two concrete identifier maps; verdict and free balances are compared "
        "with the TLA+ expectation. Leg T: seeded random transactions (0-2 mutations, randomised limits and heights), factory "
        "transactions with seeded repairs, and a sample of the replayed cases are validated event by event by Validity_Trace. "
        "distinct = distinct (kind, mutation tag, verdict, sorted failing-rule set) of model cases + distinct (kind, ok, fmt, error "
        "variant, #inputs, #outputs, source tag) of trace events; a case is non-trivial when it has at least one input or is a Mint")

PROPERTIES = ['C19']
MANIFEST = {
    'C19': dict(category='model_checking',
                technique='TLA+ specification of the transaction validity rules and the sufficient-balance rule (Validity.tla: one named '
                          'predicate per rule, exact BigNat balances) evaluated by TLC; TLC-enumerated small transactions and all single '
                          'mutations of the valid ones replayed into fuel-tx/fuel-vm (spec->impl); recorded checks of random, mutated and '
                          'factory transactions validated by TLC (impl->spec)',
                text='Validity_MC enumerates all small transactions of every kind over a tiny universe with tight limits, and every '
                     'single-rule violation reachable from an accepted one; TLC prints verdict, failing rules and free balances; the '
                     'harness builds the real transaction and parameters, calls into_checked_basic / check_without_signatures and the '
                     'verdict (accept/reject) and the non-retryable / retryable balances are compared. Validity_Trace re-decides every '
                     'recorded event (random + factory transactions with randomised consensus limits) from the projected real transaction.',
                note='size and max_gas are taken from the implementation (C01/C18 own them) and only their comparison with the limits is '
                     'checked; hash equalities (contract id, state root, blob id, checksum, Merkle proof) are abstracted to booleans '
                     'computed with the public hash functions; the predicate-owner rule belongs to the signature stage (C20) and is not '
                     'part of the basic checks; where a balance sum exceeds 64 bits the verdict is left open (rejecting allowed, accepting '
                     'only with exact balances); invalid policy bitmasks are not constructible through the public API.',
                design_ref='4/C19'),
}

ACTION_TAGS = {  # action of Validity_MC -> prefix its cases carry in `mut` (vacuity test without -coverage)
    "ABase/AArith": "base", "ALimit": "limit:", "APolicy": "pol:", "AAmount": "amount:", "AInputAttr": "input:", "AWitness": "wit:",
    "AKind(script)": "script:", "AKind(create)": "create:", "AKind(upgrade)": "upgrade:", "AKind(upload)": "upload:",
    "AKind(blob)": "blob:", "AKind(mint)": "mint:",
}


def _model(chk, tier, cparams_len, dump):
    """Leg M: run Validity_MC (derived cfg), dumping the REPLAY lines."""
    base = os.path.join(vlib.SPEC, "tx", "Validity_MC.cfg")
    txt = open(base).read()
    for k, v in (("Tier", '"%s"' % tier), ("CParamsLen", cparams_len), ("EmitReplay", "TRUE")):
        txt, n = re.subn(r"(?m)^(\s*%s\s*=\s*).*$" % k, lambda m: m.group(1) + str(v), txt)
        if n != 1:
            raise ToolError("constant %s not in %s" % (k, base))
    cfg = "Validity_MC_%d.gen.cfg" % os.getpid()
    with open(os.path.join(vlib.SPEC, "tx", cfg), "w") as f:
        f.write(txt)
    try:
        res = vlib.tlc(SPEC_MC, cfg=cfg, workers=4, timeout=2400, xmx="8g", dump_out=dump, tag="C19_mc")
    finally:
        os.remove(os.path.join(vlib.SPEC, "tx", cfg))
    if res.invariant_violated:
        raise ToolError("Validity_MC violates %s at design level:\n%s" % (res.invariant_violated, vlib.tlc_fail_text(res, 60)))
    if not res.ok:
        raise ToolError("TLC failed on Validity_MC:\n" + vlib.tlc_fail_text(res))
    chk.add("states", res.distinct)
    chk.add("transitions", res.generated)
    chk.add("model_states", res.distinct)
    return res


def _case_key(c):
    return (c["tx"]["kind"], c["mut"], c["exp"]["verdict"], tuple(sorted(c["exp"]["failing"])))


def _event_class(dom, e):
    if e.get("ev") != "Checked":
        return "%s/%s" % (dom, e.get("ev"))
    t = e.get("tx", {})
    outcome = "accepted" if e.get("ok") else "rejected:" + str(e.get("err"))
    fmt = "format-ok" if e.get("fmt") else "format-err:" + str(e.get("fmtErr"))
    return "%s/trace/%s/%s/%s" % (dom, t.get("kind"), outcome, fmt)


def _corrupt(events, rng):
    """Binding self-test: one logged observation is falsified (a recorded balance, or the verdict)."""
    cands = [i for i, e in enumerate(events) if e.get("ev") == "Checked"]
    if not cands:
        return None
    i = rng.choice(cands)
    e = events[i]
    if e["ok"] and e["bal"]:
        j = rng.randrange(len(e["bal"]))
        e["bal"][j]["amount"] = str(int(e["bal"][j]["amount"]) + 1)
    elif e["ok"]:
        e["ok"] = False       # a Mint that was accepted is logged as rejected
    else:
        e["ok"] = True        # a rejected transaction is logged as accepted (without balances)
    return i


def run(pid, tier):
    def body(chk):
        thorough = tier == "thorough"
        vlib.harness_build(BIN)
        info = json.loads(vlib.vh(["info"], bin=BIN))
        # ---------------- Leg M: model + generation ----------------
        dump = os.path.join(vlib.WORK, "%s_mc.out" % pid)
        res = _model(chk, tier, info["cparams_len"], dump)
        log("[C19] model: %d distinct states in %.1fs" % (res.distinct, res.wall))
        cases = os.path.join(vlib.WORK, "%s_cases.ndjson" % pid)
        ncases = tc.extract_replay(dump, cases)
        os.remove(dump)
        if ncases == 0:
            raise ToolError("no cases emitted by Validity_MC")
        keys = set()
        verdicts = collections.Counter()
        single = collections.Counter()
        tags = collections.Counter()
        nontrivial = 0
        with open(cases) as f:
            for k, ln in enumerate(f):
                c = json.loads(ln)
                keys.add(_case_key(c))
                verdicts[c["exp"]["verdict"]] += 1
                tags[c["mut"].split(":")[0] + (":" if ":" in c["mut"] else "")] += 1
                if len(c["exp"]["failing"]) == 1:
                    single[c["exp"]["failing"][0]] += 1
                if c["tx"]["inputs"] or c["tx"]["kind"] == "Mint":
                    nontrivial += 1
                if k in (40, ncases // 2, ncases - 7):
                    chk.sample(dict(case=dict(tx=c["tx"], p=c["p"], h=c["h"], mut=c["mut"]), expected=c["exp"]), cap=3)
        for act, pref in ACTION_TAGS.items():
            if tags.get(pref, 0) == 0:
                raise ToolError("vacuous model run: no case produced by %s (tag %s)" % (act, pref))
        if verdicts["accept"] == 0 or verdicts["reject"] == 0:
            raise ToolError("vacuous model run: verdicts %s" % dict(verdicts))
        chk.set("model", dict(spec=SPEC_MC, tier=tier, cases=ncases, verdicts=dict(verdicts), distinct_states=res.distinct,
                              rules_failing_alone=len(single), cases_by_action=dict(tags),
                              invariants=["TableIsValid", "Conservation", "ExpectationExplained", "OverspendRejected", "TightHolds"]))
        # ---------------- Leg R: spec -> impl ----------------
        seen = set()
        ev_files = []
        for idmap in (0, 1):
            outp = os.path.join(vlib.WORK, "%s_replay_%d.ndjson" % (pid, idmap))
            evp = os.path.join(vlib.WORK, "%s_replay_events_%d.ndjson" % (pid, idmap))
            every = (24 if thorough else 12)
            vlib.vh(["replay", "validity", cases, "-o", outp, "--idmap", idmap, "--events", evp, "--events-every", every], bin=BIN)
            ev_files.append(evp)
            summ = None
            with open(outp) as f:
                for ln in f:
                    r = json.loads(ln)
                    if "summary" in r:
                        summ = r["summary"]
                        continue
                    cls = "validity/replay/" + r["mismatch"]
                    if cls in seen:
                        continue
                    seen.add(cls)
                    rp = os.path.join(vlib.WORK, "%s_mismatch.json" % pid)
                    with open(rp, "w") as g:
                        json.dump(r, g)
                    chk.violation(cls, rp, dict(leg="R", idmap=idmap, kind=r["kind"], mut=r["mut"], expected=r["expected"],
                                                observed=r["observed"], err=r.get("err"), case=r["behaviour"]))
            if not summ or summ["cases"] != ncases:
                raise ToolError("replay did not process all cases")
            chk.add("behaviours_replayed", ncases)
            log("[C19] replay idmap=%d: %d cases, %d accepted, %d distinct mismatch classes so far" % (idmap, ncases, summ["accepted"], len(seen)))
            chk.add("replay_accepted", summ["accepted"])
            chk.add("replay_rejected", summ["rejected"])
            os.remove(outp)
        os.remove(cases)
        # ---------------- Leg T: impl -> spec ----------------
        tr = os.path.join(vlib.WORK, "%s_trace.ndjson" % pid)
        for k in range(1, 17):
            if os.path.exists(tr + ".rest%d" % k):
                os.remove(tr + ".rest%d" % k)
        vlib.vh(["record", "validity", "--tier", tier, "-o", tr], bin=BIN)
        with open(tr, "a") as f:           # the sampled replay events are validated by the trace specification too
            for evp in ev_files:
                with open(evp) as g:
                    for ln in g:
                        f.write(ln)
                os.remove(evp)
        events = vlib.read_ndjson(tr)
        nev, nseg, st = tc.validate(chk, "validity", SPEC_TR, tr, tag=pid, timeout=2400, class_fn=_event_class)
        log("[C19] trace: %d events in %d segments validated" % (nev, nseg))
        chk.add("states", st)
        chk.add("transitions", st)
        ekeys = set()
        shown = 0
        for e in events:
            if e.get("ev") != "Checked":
                continue
            t = e["tx"]
            if t["inputs"] or t["kind"] == "Mint":
                ekeys.add((t["kind"], e["ok"], e["fmt"], e["err"], len(t["inputs"]), len(t["outputs"]), e["src"].split("+")[0]))
            if shown < 2 and e["ok"] and len(t["inputs"]) >= 2 and e["src"].startswith("rand"):
                chk.sample(tc._short(e, 2500), cap=5)
                shown += 1
        # ---------------- binding self-test ----------------
        # (needs segments the specification accepts: after a violation the run fails anyway and the self-test is moot;
        #  after known findings it runs on the segments that were accepted)
        if chk.violations:
            log("[C19] binding self-test skipped: the trace already contains violations")
        else:
            rest = [tr + ".rest%d" % k for k in range(16, 0, -1) if os.path.exists(tr + ".rest%d" % k)]
            tc.selftest_corrupt(chk, "validity", SPEC_TR, rest[0] if (rest and chk.known_hits) else tr, _corrupt, max_events=400)
        chk.set("evaluations", 2 * ncases + nev)
        chk.set("distinct_nontrivial", len(keys) + len(ekeys))
        chk.set("model_cases_nontrivial", nontrivial)
        chk.set("rule", RULE)
        chk.set("exhaustive", False)
        chk.assumptions.extend([
            "serialized size and max gas of a transaction are taken from the implementation (properties C01 / C18); only their "
            "comparison with max_size / max_gas_per_tx is decided here",
            "hash equalities (contract id, state root, blob id, parameters checksum, upload Merkle proof) are abstracted to booleans "
            "computed by the harness with the public hash functions on the transaction's own data",
            "the predicate-owner rule is enforced by check_signatures (C20), not by the basic checks",
            "where the sum of the inputs of an asset exceeds 2^64-1 the verdict is left open (the code rejects with BalanceOverflow)",
        ])
    return vlib.run_check(body, pid, "model_checking", tier)
