"""C33 — contract storage instructions behave like a key-value map.
Spec: spec/vm/VmStorage.tla (effects of SCWQ SRW SRWQ SWW SWWQ SCLR SRDD SRDI SWRD SWRI SUPD SUPI SPLD over a plain map kv,
the warm set, exact gas), dispatched from FuelVM.tla, bound to the code by FuelVM_Trace.tla (Leg T) on traces recorded by
harness/src/bin/vh_vmstorage.rs; design-level model VmStorage_MC.tla (Leg M)."""
import os
import re

import tracecheck as tc
import vlib
from vlib import ToolError

SPEC_TR = "vm/FuelVM_Trace.tla"
SPEC_MC = "vm/VmStorage_MC.tla"
BIN = "vh_vmstorage"

PROPERTIES = ["C33"]

MANIFEST = {
    "C33": dict(category="model_checking",
                technique="TLA+ specification of the 13 contract-storage instructions over a plain key-value map (exact BigNat key arithmetic, "
                          "dynamic lengths, panic sets, exact gas incl. a warm set that influences gas only) used as oracle in a TLC trace "
                          "specification; per-instruction recordings of the real interpreter (registers, memory, persistent-storage delta) validated "
                          "against it; TLC model-checks the design-level clauses (cache irrelevance, isolation, clear/write laws, 2^256 boundary) "
                          "on a small generative model built from the same effect operators",
                text="Scripts CALL two deployed contracts (directly and through a forwarding contract) in two consecutive transactions on one "
                     "interpreter and one storage; at every callee entry a generated sequence mixing legacy (SCWQ SRW SRWQ SWW SWWQ) and dynamic "
                     "(SCLR SRDD SRDI SWRD SWRI SUPD SUPI SPLD) instructions on overlapping key ranges (keys 0..3, 2^256-3..2^256-1, 2^64-1, 2^255, "
                     "random neighbours) is executed through Interpreter::instruction; a fourth contract consists of real storage-instruction "
                     "code. After every instruction TLC requires: result registers "
                     "(value, was-set flags, counts, $err), memory written (zero-filled for absent 32-byte slots), the set of admissible panic reasons "
                     "(TooManySlots at the 2^256 boundary, StorageOutOfBounds slices, ownership/overflow, ExpectedInternalContext outside a "
                     "contract), the exact gas charge (cold vs hot read, write, new bytes, clear) and persistent storage = the specification's map; "
                     "at the end of each transaction the committed / reverted storage = the map, and the next transaction starts from it. Every "
                     "sequence is run with the slot cache cold, pre-warmed and emptied before every instruction; TLC requires the three result lists "
                     "to be equal (only $cgas/$ggas excluded).",
                note="Trusted base: the harness snapshots registers/memory/storage around each instruction and logs differences; BigNat Java "
                     "overrides inside TLC. Transactions are driven instruction by instruction through Interpreter::instruction (the harness fetches "
                     "the word at $pc); a panic ends the transaction as in the VM. Registers/memory after a panicking instruction are constrained "
                     "only loosely (a panicking transaction is reverted as a whole). A dynamic read of an ABSENT slot may leave the destination "
                     "untouched or zero-filled (the flag $err = 1 is required). Ranges longer than 64 slots are modelled only when unaffordable.",
                design_ref="4/C33"),
}

RULE = ("one Step event per executed instruction; distinct = distinct (opcode, outcome, panic reason, key class, slot count / length class, "
        "slots changed, cache variant) tuples over the storage-instruction steps")

ST_OPS = {"37": "SCWQ", "38": "SRW", "39": "SRWQ", "3a": "SWW", "3b": "SWWQ", "c0": "SCLR", "c1": "SRDD", "c2": "SRDI", "c3": "SWRD",
          "c4": "SWRI", "c5": "SUPD", "c6": "SUPI", "c7": "SPLD"}


def _is_st(e):
    return e.get("ev") == "Step" and (e.get("word") or "--")[:2] in ST_OPS


def _class_fn(dom, e):
    """stable class string of a rejected event"""
    if e.get("ev") == "Step":
        op = ST_OPS.get((e.get("word") or "--")[:2], "op" + (e.get("word") or "--")[:2])
        parts = ["vm_storage", "Step", op, str(e.get("out"))]
        if e.get("reason"):
            parts.append(str(e.get("reason")))
        return "/".join(parts)
    if e.get("ev") == "Twin":
        return "vm_storage/Twin/" + str(e.get("what"))
    return "vm_storage/" + str(e.get("ev"))


def _num_class(s):
    try:
        v = int(s)
    except (TypeError, ValueError):
        return "?"
    if v < 6:
        return str(v)
    if v <= 64:
        return "le64"
    if v < 2 ** 32:
        return "lt2^32"
    return "big"


def _distinct(events):
    keys = set()
    variant = "?"
    keys_addr = None
    for e in events:
        if e.get("ev") == "Init":
            variant = e.get("variant", "?")
        if not _is_st(e):
            continue
        pk = e.get("poke", {})
        kp = pk.get("16")
        kcls = (int(kp) // 32) % 14 if kp and int(kp) < 2 ** 26 else "bad"
        keys.add((e["word"][:2], e.get("out"), e.get("reason"), kcls, _num_class(pk.get("18")), _num_class(pk.get("19")), _num_class(pk.get("20")),
                  len(e.get("std", [])), len(e.get("mem", [])) > 0, variant))
    return len(keys)


def _mutators():
    def good(events, pred):
        return [i for i, e in enumerate(events) if _is_st(e) and e.get("out") == "proceed" and pred(e)]

    def m_std(events, rng):
        """a slot value made persistent differs from what was logged"""
        c = good(events, lambda e: any(d[2] == 1 and d[3] for d in e.get("std", [])))
        if not c:
            return None
        i = rng.choice(c)
        d = [x for x in events[i]["std"] if x[2] == 1 and x[3]][0]
        d[3] = ("ff" if d[3][:2] != "ff" else "00") + d[3][2:]
        return i

    def m_clear(events, rng):
        """a cleared slot stays in persistent storage"""
        c = good(events, lambda e: any(d[2] == 0 for d in e.get("std", [])))
        if not c:
            return None
        i = rng.choice(c)
        events[i]["std"] = [d for d in events[i]["std"] if d[2] != 0]
        return i

    def m_flag(events, rng):
        """a result register (value / was-set flag / count / length / $err) is off by one"""
        c = good(events, lambda e: any(r in e.get("regs", {}) for r in ("17", "21", "8")))
        if not c:
            return None
        i = rng.choice(c)
        r = [r for r in ("17", "21", "8") if r in events[i]["regs"]][0]
        events[i]["regs"][r] = str(int(events[i]["regs"][r]) + 1)
        return i

    def m_mem(events, rng):
        """a byte read from storage into memory differs"""
        c = good(events, lambda e: e.get("mem"))
        if not c:
            return None
        i = rng.choice(c)
        a, h = events[i]["mem"][0]
        events[i]["mem"][0] = [a, ("ff" if h[:2] != "ff" else "00") + h[2:]]
        return i

    def m_gas(events, rng):
        """one unit of gas less is charged (e.g. a cold read charged as hot)"""
        c = good(events, lambda e: "9" in e.get("regs", {}) and "10" in e.get("regs", {}))
        if not c:
            return None
        i = rng.choice(c)
        for r in ("9", "10"):
            events[i]["regs"][r] = str(int(events[i]["regs"][r]) + 1)
        return i
    return [m_std, m_clear, m_flag, m_mem, m_gas]


def _selftest_mutator(events, rng):
    ms = _mutators()
    rng.shuffle(ms)
    for m in ms:
        i = m(events, rng)
        if i is not None:
            return i
    return None


def run(pid, tier):
    level = MANIFEST[pid]["category"]

    def body(chk):
        thorough = tier == "thorough"
        vlib.harness_build(BIN)
        # ---- Leg M: design-level model over the same effect operators ----
        depth = 3 if thorough else 2
        cfg = os.path.join(os.path.dirname(SPEC_MC if os.path.isabs(SPEC_MC) else os.path.join(vlib.SPEC, SPEC_MC)), "VmStorage_MC.cfg")
        gen = cfg.replace(".cfg", "_%d.gen.cfg" % os.getpid())
        with open(gen, "w") as f:
            f.write(re.sub(r"MaxDepth = \d+", "MaxDepth = %d" % depth, open(cfg).read()))
        try:
            res = vlib.tlc(SPEC_MC, cfg=os.path.basename(gen), workers=4, timeout=2400, xmx="6g", tag="C33_mc")
        finally:
            os.remove(gen)
        if res.invariant_violated:
            raise ToolError("model %s violates %s at design level:\n%s" % (SPEC_MC, res.invariant_violated, vlib.tlc_fail_text(res, 60)))
        if not res.ok:
            raise ToolError("TLC failed on %s:\n%s" % (SPEC_MC, vlib.tlc_fail_text(res)))
        done = set(re.findall(r'<<"MC-DONE", "(\w+)">>', res.out))
        panicked = set(re.findall(r'<<"MC-PANIC", "(\w+)">>', res.out))
        if done != set(ST_OPS.values()) or not {"SCWQ", "SRWQ", "SWWQ", "SCLR"} <= panicked:
            raise ToolError("vacuous model run: completed %s, panicked %s" % (sorted(done), sorted(panicked)))
        chk.add("states", res.distinct)
        chk.add("transitions", res.generated)
        chk.set("model", dict(spec="vm/VmStorage_MC.tla", depth=depth, distinct_states=res.distinct, transitions=res.generated,
                              invariants=["CacheIrrelevant", "HotNotDearer", "Isolation", "ReadsPure", "Cleared", "Written", "Untouched",
                                          "WarmGrows", "Boundary", "Failed"],
                              families_completed=sorted(done), families_panicked=sorted(panicked)))
        # ---- Leg T ----
        tr = os.path.join(vlib.WORK, "%s_trace.ndjson" % pid)
        vlib.vh(["record", "vmstorage", "--tier", tier, "-o", tr], bin=BIN, timeout=3000)
        events = vlib.read_ndjson(tr)
        nev, nseg, st = tc.validate(chk, "vm_storage", SPEC_TR, tr, tag=pid, timeout=3000, parallel=4, class_fn=_class_fn)
        chk.add("states", st)
        chk.add("transitions", st)
        steps = [e for e in events if _is_st(e)]
        chk.set("storage_instruction_steps", len(steps))
        chk.set("steps", len([e for e in events if e.get("ev") == "Step"]))
        chk.set("transactions", len([e for e in events if e.get("ev") == "Init"]))
        chk.set("committed", len([e for e in events if e.get("ev") == "StEnd" and e.get("outcome") == "commit"]))
        chk.set("reverted", len([e for e in events if e.get("ev") == "StEnd" and e.get("outcome") == "revert"]))
        twins = [e for e in events if e.get("ev") == "Twin"]
        chk.set("twin_comparisons", len(twins))
        chk.set("twin_steps_compared", sum(len(e["a"]) for e in twins))
        per = {}
        for e in steps:
            k = ST_OPS[e["word"][:2]] + ":" + (e.get("reason") or e.get("out"))
            per[k] = per.get(k, 0) + 1
        chk.set("outcomes_by_opcode", per)
        absent_reads = [e for e in steps if e["word"][:2] in ("c1", "c2") and e.get("out") == "proceed" and e.get("regs", {}).get("8") == "1"]
        chk.set("dynamic_reads_of_absent_slots", len(absent_reads))
        chk.set("dynamic_reads_of_absent_slots_that_wrote_memory", len([e for e in absent_reads if e.get("mem")]))
        bad = [e for e in events if e.get("ev") in ("HostPanic", "Runaway", "NotReady")]
        chk.set("host_panics_or_runaways_recorded", len(bad))
        for e in steps[5:8]:
            chk.sample(tc._short(e, 600))
        tc.selftest_corrupt(chk, "vm_storage", SPEC_TR, tr, _selftest_mutator, max_events=2500, timeout=1200)
        chk.set("evaluations", nev)
        chk.set("distinct_nontrivial", _distinct(events))
        chk.set("rule", RULE)
        chk.set("exhaustive", False)
        chk.assumptions.extend([
            "exact BigNat arithmetic is evaluated by Java overrides inside TLC",
            "the gas schedule, max_storage_slot_length, tx offset are read from the implementation (Init event), not frozen in the spec",
            "operands denoting slot counts / byte offsets / byte counts above 2^32-1 must panic (TooManySlots / MemoryOverflow)",
        ])
    return vlib.run_check(body, pid, level, tier)
