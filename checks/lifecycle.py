"""C35 — bytecode upload, blob, deployment and upgrade state (spec/vm/Lifecycle*.tla, harness vh_lifecycle).

Legs:
  M  TLC explores Lifecycle_MC: every state of weight <= MaxW, every transaction of the universe from every state;
     invariants + action properties CreateOnce, SequentialParts, CompleteIffAllParts, VersionPlusOne,
     FailedLeavesUnchanged on the design.
  R  the same run prints, for every distinct state, a witness history + the predicted outcome of every valid
     transaction (success + changed tables | failure + rule); vh_lifecycle replays them with REAL transactions
     through MemoryClient and Interpreter::transact over MemoryStorage and compares success/failure, every table,
     and "did anything in the storage change".
  T  seeded histories of real transactions (boundary versions, random byte codes / claims) are recorded with
     arguments, results and tables; Lifecycle_Trace judges every event with the same Apply and prints a DIVERGE
     line (stable class) for every disagreement, re-synchronising afterwards.
"""
import collections
import json
import os
import random
import re
import time

import tracecheck as tc
import vlib
from vlib import ToolError, log

SPEC_MC = "vm/Lifecycle_MC.tla"
SPEC_TR = "vm/Lifecycle_Trace.tla"
BIN = "vh_lifecycle"
DOM = "lifecycle"

INVARIANTS = ["SequentialPartsInv", "CompleteHoldsAllInv", "VersionsOnlyCompleteInv", "AliasesPresent"]
ACTION_PROPS = ["CreateOnce", "SequentialParts", "CompleteIffAllParts", "VersionPlusOne", "FailedLeavesUnchanged", "SucceededChanges"]
# every transaction kind must succeed somewhere and every failure rule of the property must fire somewhere in the model
NEED_OK = ["Create", "Blob", "Upload", "UpgradeConsensusParameters", "UpgradeStateTransition", "SetCurCP", "SetCurST"]
NEED_FAIL = [("Create", "id-exists"), ("Blob", "id-exists"), ("Upload", "already-complete"), ("Upload", "not-next-index"),
             ("Upload", "not-next-part"), ("UpgradeConsensusParameters", "version-taken"),
             ("UpgradeStateTransition", "version-taken"), ("UpgradeStateTransition", "root-incomplete")]

RULE = ("model: every state of Lifecycle_MC with weight <= MaxW (table entries + accepted subsections + moved versions; covers "
        "every history with <= MaxW successful and any number of failing transactions) x every valid transaction of the universe "
        "(2 contracts, 2 blobs, 2x3-subsection + 2x1-subsection byte codes with EVERY (index,total,bytes,proof) claim that verifies, "
        "2 parameter values, 5 state-transition roots incl. unknown, current versions 0..2), each executed via MemoryClient and via "
        "Interpreter::transact from a witness history; distinct = distinct (state, transaction) pairs + distinct "
        "(kind, checked, ok, error, via, entry-state) keys of trace events; evaluations = real executions + trace events")

PROPERTIES = ['C35']
MANIFEST = {
    'C35': dict(category='model_checking',
                technique='TLA+ spec Lifecycle (tables contracts/blobs/uploads/versions, pure Apply(state, tx) written from the property text, '
                          'RFC 6962 oracle for subsection proofs) model-checked by TLC with action properties; TLC-predicted outcome of every '
                          '(state, transaction) pair replayed with real Create/Blob/Upload/Upgrade transactions through MemoryClient and '
                          'Interpreter::transact over MemoryStorage; seeded real histories validated by TLC against the same Apply',
                text='TLC checks CreateOnce, SequentialParts, CompleteIffAllParts (bytes = concatenation of all parts of the byte code the root '
                     'commits to), VersionPlusOne and FailedLeavesUnchanged on every transition of every state up to a weight bound, with every '
                     'duplicate / out-of-order / interleaved / aliased-claim upload and every stale-version upgrade applied in every state; '
                     'each predicted outcome (success or failure, all tables, whole-storage changed flag) is compared with the real code; '
                     'recorded seeded histories (versions at u32 boundaries, random byte codes, claims the real checker still accepts) '
                     'are judged event by event by Lifecycle_Trace.',
                note='Contract ids are taken from Contract::id (C15 covers the id formula); the contracts/blobs tables are probed on the ids '
                     'of the universe (MemoryStorage has no iterator for them) plus a Debug fingerprint of the whole storage for "nothing '
                     'else changed". Bounded: MaxW 4 (quick) / 6 (thorough). Findings of this check: failed upgrades overwrote the version '
                     'entry (fixed in /repo ffa8196, histories kept as regression); an aliased (index,total) claim completes a root '
                     'with wrong bytes (known finding lifecycle/Upload/not-next-part/accepted).',
                design_ref='4/C35'),
}


def _derive_cfg(constants):
    base = os.path.join(vlib.SPEC, "vm", "Lifecycle_MC.cfg")
    txt = open(base).read()
    for k, v in constants.items():
        txt, n = re.subn(r"(?m)^(\s*%s\s*=\s*).*$" % re.escape(k), lambda m: m.group(1) + str(v), txt)
        if n == 0:
            raise ToolError("constant %s not in %s" % (k, base))
    name = "Lifecycle_MC_%d.gen.cfg" % os.getpid()
    with open(os.path.join(vlib.SPEC, "vm", name), "w") as f:
        f.write(txt)
    return name


def _model_and_behaviours(chk, pid, maxw, workers=4):
    """One TLC run: invariants + action properties on the design AND the REPLAY lines."""
    dump = os.path.join(vlib.WORK, "%s_mc.out" % pid)
    cfg = _derive_cfg({"MaxW": maxw, "EmitReplay": "TRUE"})
    try:
        res = vlib.tlc(SPEC_MC, cfg=cfg, workers=workers, timeout=1500, xmx="8g", dump_out=dump, tag=pid + "_mc")
    finally:
        try:
            os.remove(os.path.join(vlib.SPEC, "vm", cfg))
        except OSError:
            pass
    if res.invariant_violated:
        raise ToolError("model %s violates %s at design level:\n%s" % (SPEC_MC, res.invariant_violated, vlib.tlc_fail_text(res, 80)))
    if not res.ok:
        raise ToolError("TLC failed on %s:\n%s" % (SPEC_MC, vlib.tlc_fail_text(res)))
    cfgp = os.path.join(vlib.WORK, "%s_cfg.json" % pid)
    linesp = os.path.join(vlib.WORK, "%s_lines.ndjson" % pid)
    if tc.extract_replay(dump, cfgp, tagname="LCCFG") != 1:
        raise ToolError("model did not print its universe (LCCFG)")
    nlines = tc.extract_replay(dump, linesp, tagname="REPLAY")
    os.remove(dump)
    if nlines != res.distinct:
        raise ToolError("REPLAY lines (%d) != distinct states (%d)" % (nlines, res.distinct))
    cfgj = json.loads(open(cfgp).readline())
    os.remove(cfgp)
    # vacuity: which (kind, outcome) pairs does the model exercise
    kinds = [t["k"] for t in cfgj["txs"]]
    okc, failc = collections.Counter(), collections.Counter()
    beh = os.path.join(vlib.WORK, "%s_beh.ndjson" % pid)
    sample = None
    with open(linesp) as fi, open(beh, "w") as fo:
        fo.write(json.dumps({"cfg": cfgj}) + "\n")
        for ln in fi:
            fo.write(ln)
            r = json.loads(ln)
            for o in r["ok"]:
                okc[kinds[o["i"] - 1]] += 1
            fl = r["fail"] if isinstance(r["fail"], dict) else {}
            for why, idxs in fl.items():
                for i in idxs:
                    failc[(kinds[i - 1], why)] += 1
            if sample is None and len(r["path"]) >= 3:
                sample = dict(history=[_brief(cfgj["txs"][i - 1]) for i in r["path"]], state=r["pre"],
                              succeed=[_brief(cfgj["txs"][o["i"] - 1]) for o in r["ok"]][:6],
                              fail={w: [_brief(cfgj["txs"][i - 1]) for i in ix][:3] for w, ix in fl.items()})
    os.remove(linesp)
    for k in NEED_OK:
        if okc[k] == 0:
            raise ToolError("vacuous model run: no successful %s in %s" % (k, SPEC_MC))
    for kw in NEED_FAIL:
        if failc[kw] == 0:
            raise ToolError("vacuous model run: failure rule %s/%s never fired in %s" % (kw[0], kw[1], SPEC_MC))
    chk.add("states", res.distinct)
    chk.add("transitions", res.generated)
    chk.add("model_states", res.distinct)
    chk.set("model", dict(spec=SPEC_MC, MaxW=maxw, universe=len(kinds), valid_transactions=sum(1 for v in cfgj["valid"] if v),
                          distinct_states=res.distinct, transitions=res.generated, invariants=INVARIANTS, action_properties=ACTION_PROPS,
                          outcomes_ok=dict(okc), outcomes_fail={"%s/%s" % k: v for k, v in sorted(failc.items())}))
    if sample:
        chk.sample(sample)
    return beh, nlines, cfgj


def _brief(tx):
    keep = ("k", "id", "root", "idx", "total", "part", "proofOf", "value", "v", "data")
    d = {k: tx[k] for k in keep if k in tx}
    if "root" in d:
        d["root"] = d["root"][:8]
    if "id" in d and len(d["id"]) > 12:
        d["id"] = d["id"][:8]
    return d


def _replay(chk, pid, beh, nlines, threads=2):
    outp = os.path.join(vlib.WORK, "%s_replay.ndjson" % pid)
    vlib.vh(["replay", DOM, beh, "-o", outp, "--threads", threads], bin=BIN, timeout=2400)
    rs = vlib.read_ndjson(outp)
    summ = [r for r in rs if "summary" in r]
    if not summ or summ[0]["summary"]["behaviours"] != nlines:
        raise ToolError("replay did not process all behaviours")
    s = summ[0]["summary"]
    classes = []
    for r in rs:
        if "mismatch" in r:
            cls = "%s/%s" % (DOM, r["mismatch"])
            classes.append(cls)
            rp = os.path.join(vlib.WORK, "%s_mismatch_%d.json" % (pid, len(classes)))
            with open(rp, "w") as f:
                json.dump(r, f)
            ex = r["example"]
            chk.violation(cls, rp, dict(leg="R", count=r["count"], via=ex.get("via"), history=[_brief(t) for t in ex.get("history", [])],
                                        tx=_brief(ex.get("tx", {})), expected=_short(ex.get("expected")), observed=_short(ex.get("observed"))))
    chk.add("behaviours_replayed", s["behaviours"])
    chk.add("replay_steps", s["steps"])
    chk.add("replay_pairs", s["pairs"])
    chk.add("replay_executions", s["evaluations"])
    chk.set("replay_invalid_transactions_checked", s["invalid_checked"])
    return s, classes


def _short(v, lim=700):
    s = json.dumps(v, default=str)
    return v if len(s) <= lim else s[:lim] + "..."


def _trace_run(trace_path, tag, strict=False, timeout=1500):
    dump = trace_path + ".tlc"
    res = vlib.tlc(SPEC_TR, cfg="Lifecycle_TraceStrict.cfg" if strict else "Lifecycle_Trace.cfg", workers=1, deque=True,
                   env={"TRACE": trace_path}, timeout=timeout, xmx="6g", dump_out=dump, tag=tag)
    divp = trace_path + ".div"
    tc.extract_replay(dump, divp, tagname="DIVERGE")
    divs = vlib.read_ndjson(divp)
    os.remove(divp)
    os.remove(dump)
    return res, divs


def _entry_state(e):
    if e.get("k") != "Upload":
        return ""
    u = e.get("tables", {}).get("uploads", {}).get(e.get("root"))
    return "-" if u is None else (u["st"] + str(u.get("n", "")))


def _trace_leg(chk, pid, tier):
    tr = os.path.join(vlib.WORK, "%s_trace.ndjson" % pid)
    vlib.vh(["record", DOM, "--tier", tier, "-o", tr], bin=BIN)
    events = vlib.read_ndjson(tr)
    res, divs = _trace_run(tr, pid + "_trace")
    if res.rejected or not res.ok:
        if res.rejected and res.matched is not None and res.matched < len(events):
            ev = events[res.matched]
            chk.violation(tc.event_class(DOM, ev), tr, dict(leg="T", index=res.matched, event=_short(ev), spec=SPEC_TR))
        else:
            raise ToolError("TLC failed on trace %s:\n%s" % (tr, vlib.tlc_fail_text(res)))
    seen = set()
    for d in divs:
        cls = "%s/%s" % (DOM, d["class"])
        if cls in seen:
            continue
        seen.add(cls)
        rp = os.path.join(vlib.WORK, "%s_diverge_%d.json" % (pid, len(seen)))
        with open(rp, "w") as f:
            json.dump(d, f)
        chk.violation(cls, rp, dict(leg="T", index=d["l"] - 1, count=sum(1 for x in divs if x["class"] == d["class"]),
                                    expected=_short(d["expected"]), event=_short(d["event"])))
    nseg = sum(1 for e in events if e.get("ev") == "Seg")
    ntx = sum(1 for e in events if e.get("ev") == "Tx")
    chk.add("trace_events_recorded", len(events))
    chk.add("trace_events_validated", max(res.depth - 1, 0) if not res.rejected else (res.matched or 0))
    chk.add("traces_validated_against_impl", nseg)
    chk.add("trace_states", res.distinct)
    chk.add("states", res.distinct)
    chk.add("transitions", res.distinct)
    chk.set("trace_divergences", len(divs))
    keys = set((e.get("k"), e.get("checked"), e.get("ok"), e.get("err"), e.get("via"), _entry_state(e)) for e in events if e.get("ev") == "Tx")
    for e in [x for x in events if x.get("ev") == "Tx"][:2]:
        chk.sample(tc._short({k: v for k, v in e.items() if k != "tables"}, 500))
    return tr, events, divs, ntx, len(keys)


def _selftest_trace(chk, tr, events, divs, strict=True):
    """Binding self-test: corrupt ONE logged observation of an event that was accepted; TLC must diverge exactly there."""
    rng = random.Random(vlib.seed() * 7919 + 35)
    segs = tc.split_segments(events)
    bad = set(d["l"] - 1 for d in divs)
    starts, pos = [], 0
    for s in segs:
        starts.append(pos)
        pos += len(s)
    order = list(range(len(segs)))
    rng.shuffle(order)
    for k in order:
        cand = [j for j, e in enumerate(segs[k]) if e.get("ev") == "Tx" and (starts[k] + j) not in bad
                and not any(starts[k] + jj in bad for jj in range(j))]
        if not cand:
            continue
        j = rng.choice(cand)
        seg = json.loads(json.dumps(segs[k]))
        e = seg[j]
        kind = rng.choice(["ok", "changed", "tables"])
        if kind == "tables":
            t = e["tables"]
            if t["uploads"]:
                r = sorted(t["uploads"])[0]
                b = t["uploads"][r]["bytes"]
                t["uploads"][r]["bytes"] = (b[:-1] + ("0" if b[-1] != "0" else "1")) if b else "00"
            else:
                t["curCP"] = str(int(t["curCP"]) + 1)
        else:
            e[kind] = not e[kind]
        p = tr + ".selftest"
        vlib.write_ndjson(p, seg)
        res, d2 = _trace_run(p, "lifecycle_self_%d" % os.getpid(), timeout=600)
        hit = any(x["l"] - 1 == j for x in d2)
        if strict:   # the same corrupted trace under Lifecycle_TraceStrict.cfg must violate NoDivergence
            res2, _ = _trace_run(p, "lifecycle_selfs_%d" % os.getpid(), strict=True, timeout=600)
            strict_ok = res2.invariant_violated == "NoDivergence"
        else:
            res2, strict_ok = res, True
        os.remove(p)
        chk.set("binding_selftest", dict(segment=k, corrupted_event_index=j, corrupted=kind, diverged_there=hit,
                                         strict_invariant_violated=strict_ok, passed=bool(hit and strict_ok)))
        if not (hit and strict_ok):
            raise ToolError("binding self-test FAILED: corrupted %s of event %d of segment %d, divergences at %s, strict=%s" % (
                kind, j, k, [x["l"] - 1 for x in d2], res2.summary()))
        return
    raise ToolError("self-test: no accepted event to corrupt")


def _selftest_replay(chk, pid, beh, baseline):
    """Perturb one prediction (a transaction predicted to fail is predicted to succeed without effect): must be reported."""
    with open(beh) as f:
        cfg = f.readline()
        lines = [f.readline() for _ in range(40)]
    for ln in lines:
        if not ln.strip():
            continue
        r = json.loads(ln)
        if isinstance(r["fail"], dict) and r["fail"]:
            why = sorted(r["fail"])[0]
            i = r["fail"][why].pop(0)
            if not r["fail"][why]:
                del r["fail"][why]
            r["ok"].append({"i": i, "d": {}})
            p = beh + ".selftest"
            with open(p, "w") as f:
                f.write(cfg)
                f.write(json.dumps(r) + "\n")
            outp = p + ".out"
            vlib.vh(["replay", DOM, p, "-o", outp, "--threads", 1], bin=BIN)
            got = [x["mismatch"] for x in vlib.read_ndjson(outp) if "mismatch" in x]
            os.remove(p)
            os.remove(outp)
            new = [g for g in got if g.endswith("/ok/rejected") or g.endswith("/ok/nothing-changed")]
            chk.set("replay_selftest", dict(perturbed_tx=i, reported=got, passed=bool(new)))
            if not new:
                raise ToolError("replay self-test FAILED: perturbed prediction was not reported (%s)" % got)
            return
    raise ToolError("replay self-test: nothing to perturb")


def run(pid, tier):
    def body(chk):
        thorough = tier == "thorough"
        vlib.harness_build(BIN)
        # ---- Leg M + generator for Leg R (one TLC run) ----
        maxw = 6 if thorough else 4
        t0 = time.time()
        beh, nlines, cfgj = _model_and_behaviours(chk, pid, maxw)
        log("[C35] model MaxW=%d: %d states, %.1fs" % (maxw, nlines, time.time() - t0))
        # ---- Leg R ----
        t0 = time.time()
        s, classes = _replay(chk, pid, beh, nlines)
        _selftest_replay(chk, pid, beh, classes)
        os.remove(beh)
        log("[C35] replay: %d executions, %.1fs" % (s["evaluations"], time.time() - t0))
        # ---- Leg T ----
        ntx = nkeys = 0
        try:
            t0 = time.time()
            tr, events, divs, ntx, nkeys = _trace_leg(chk, pid, tier)
            log("[C35] trace: %d events, %d divergences, %.1fs" % (len(events), len(divs), time.time() - t0))
            t0 = time.time()
            _selftest_trace(chk, tr, events, divs, strict=thorough)
            log("[C35] self-test: %.1fs" % (time.time() - t0))
        except ToolError as e:
            # a violation already established by the replay leg must not be masked by a later tool problem
            if not chk.violations:
                raise
            log("[C35] trace leg aborted after replay violations: %s" % str(e)[:400])
        chk.set("evaluations", s["evaluations"] + ntx)
        chk.set("distinct_nontrivial", s["pairs"] + nkeys)
        chk.set("rule", RULE)
        chk.set("exhaustive", False)
        chk.assumptions.extend([
            "SHA-256 is evaluated by java.security.MessageDigest inside TLC (override of VerifHash!SHA256)",
            "collision resistance / RFC 6962 domain separation: a root commits to exactly one sequence of subsections (ghost `parts`)",
            "contract ids come from fuel_tx::Contract::id (the id formula itself is C15); contracts and blobs are probed on the "
            "universe's ids, everything else in MemoryStorage through its Debug rendering (changed / not changed)",
            "current versions are environment (MemoryStorage::set_*_version); version u32::MAX is outside the property's domain",
            "replay covers each (state, transaction) pair from one witness history: behaviour is assumed to be a function of the tables",
        ])
    return vlib.run_check(body, pid, "model_checking", tier)


if __name__ == "__main__":
    import sys
    sys.exit(run("C35", vlib.tier(sys.argv[sys.argv.index("--tier") + 1] if "--tier" in sys.argv else None)))
