"""C09 C10 C11 — binary Merkle trees (spec/merkle/BinaryMerkle*.tla, harness bmt)."""
import json
import os

import tracecheck as tc
import vlib
from vlib import ToolError, log

SPEC_MC = "merkle/BinaryMerkle_MC.tla"
SPEC_TR = "merkle/BinaryMerkle_Trace.tla"

PARTS = {"C09": "dense,hist", "C10": "verify,dense,hist", "C11": "hist"}   # C10: proofs must also verify on trees with a reset / reload history
RULES = {
    "C09": "events = every Push/Root/RootOf of 3 implementations in lock-step for every count 1..N plus one-shot helpers at "
           "boundary counts; distinct = distinct (implementation, leaf count) pairs whose root was compared with the RFC 6962 "
           "recursion evaluated by TLC; model = all histories <= MaxLen over {push a, push b, reset, load k, prove i}",
    "C10": "events = real verifier verdicts on valid proofs and 20+ structured mutations per (n, i); distinct = distinct "
           "(n, i, mutation tag) triples; TLC recomputes RFC 6962 audit-path verification for each",
    "C11": "model = ALL histories <= MaxLen of push/reset/load/prove replayed into the real trees; traces = seeded random "
           "histories; distinct = distinct histories (model) + distinct (event kind, count) pairs (traces)",
}


PROPERTIES = ['C09', 'C10', 'C11']
MANIFEST = {
    'C09': dict(category='model_checking',
              technique='TLA+ spec BinaryMerkle (RFC 6962 oracle + MMR design) model-checked by TLC; TLC-enumerated histories replayed into the real trees; recorded traces of 3 implementations validated by TLC against the spec',
              text='TLC checks RootIsMTH/PeaksShape/StoreHoldsPeaks on all histories <= MaxLen; every history is replayed into binary::MerkleTree, in_memory::MerkleTree and MerkleRootCalculator comparing roots with the RFC recursion; a dense trace (every count 1..N, random leaf lengths incl. empty, one-shot helpers and ephemeral_merkle_root at boundary counts) is validated event by event by BinaryMerkle_Trace.',
              note='Trusts java MessageDigest SHA-256 inside TLC and the harness plumbing (no expected values in the harness). Bounded: MaxLen 5/6 histories exhaustively, counts up to 260/1200 in traces.',
              design_ref='4/C09'),
    'C10': dict(category='model_checking',
              technique='TLA+ RFC 6962 audit-path verifier (VerifyRef/RootFromPath) as oracle in a TLC trace specification; real verifier verdicts on structured proof mutations validated against it; ProofsVerify model-checked',
              text="For every (n, i) in the driver's grid the real proof and 20+ mutations (index/count perturbations incl. u64 extremes, dropped/duplicated/reversed/appended elements, other leaf's proof or data, flipped root) are fed to binary::verify; TLC recomputes the RFC verification with exact BigNat index arithmetic and requires verdict equality; real proofs must equal the RFC audit path.",
              note='Same trusted base as C09. Sampled indices for n > 17.',
              design_ref='4/C10'),
    'C11': dict(category='model_checking',
              technique='TLC enumerates ALL histories of push/reset/load/prove up to a bound from the BinaryMerkle spec and each is replayed into the real storage-backed and in-memory trees; random longer histories validated as traces',
              text='Exhaustive small-scope enumeration (17 640 histories at MaxLen 5, ~150k at 6) bound to the code by replay with root, count, proof definedness and proof bytes compared after every step; plus seeded histories of 5-120 operations validated by BinaryMerkle_Trace.',
              note='Load is exercised at k <= current leaves of the source store (the reload point of the property); the store is forked for the reload.',
              design_ref='4/C11'),
}


def _distinct(pid, events):
    keys = set()
    cnt = {}
    for e in events:
        ev = e.get("ev")
        if ev in ("Push", "Reset", "Load", "New"):
            t = e.get("t")
            cnt[t] = 0 if ev in ("Reset", "New") else (e.get("k") if ev == "Load" else cnt.get(t, 0) + 1)
        if pid == "C09" and ev in ("Push", "Root", "RootOf"):
            keys.add((e.get("impl") or e.get("t"), cnt.get(e.get("t"), 0)))
        elif pid == "C10" and ev == "Verify":
            keys.add((e["n"], e["i"], e.get("tag")))
        elif pid == "C10" and ev == "Prove":
            keys.add(("prove", cnt.get(e.get("t"), 0), e["i"]))
        elif pid == "C11" and ev in ("Push", "Reset", "Load", "Prove"):
            keys.add((ev, cnt.get(e.get("t"), 0), e.get("i")))
    return len(keys)


def run(pid, tier):
    def body(chk):
        thorough = tier == "thorough"
        vlib.harness_build("vh_merkle")
        # ---- Leg M (+ generator for Leg R) ----
        maxlen = 6 if thorough else 5
        dump = os.path.join(vlib.WORK, "%s_mc.out" % pid)
        emit = pid in ("C09", "C11")
        res = tc.model_check(chk, SPEC_MC, constants={"MaxLen": maxlen, "EmitReplay": "TRUE" if emit else "FALSE"},
                             need_actions=["APush", "AReset", "ALoad", "AProve"], dump_out=dump if emit else None,
                             tag=pid + "_mc")
        chk.set("model", dict(spec=SPEC_MC, MaxLen=maxlen, alphabet=["", "aa"], distinct_states=res.distinct,
                              invariants=["RootIsMTH", "PeaksShape", "StoreHoldsPeaks", "ProofsVerify", "BigAgrees"]))
        # ---- Leg R ----
        nbeh = 0
        if emit:
            beh = os.path.join(vlib.WORK, "%s_beh.ndjson" % pid)
            nbeh = tc.extract_replay(dump, beh)
            os.remove(dump)
            if nbeh == 0:
                raise ToolError("no behaviours emitted by the model")
            outp = os.path.join(vlib.WORK, "%s_replay.ndjson" % pid)
            vlib.vh(["replay", "bmt", beh, "-o", outp])
            rs = vlib.read_ndjson(outp)
            summ = [r for r in rs if "summary" in r]
            if not summ or summ[0]["summary"]["behaviours"] != nbeh:
                raise ToolError("replay did not process all behaviours")
            seen = set()
            for r in rs:
                if "mismatch" in r:
                    cls = "bmt/replay/" + r["mismatch"]
                    if cls in seen:
                        continue
                    seen.add(cls)
                    rp = os.path.join(vlib.WORK, "%s_mismatch.json" % pid)
                    with open(rp, "w") as f:
                        json.dump(r, f)
                    chk.violation(cls, rp, dict(leg="R", step=r["step"], expected=r["expected"], observed=r["observed"]))
            chk.add("behaviours_replayed", nbeh)
            chk.add("replay_steps", summ[0]["summary"]["steps"])
            with open(beh) as f:
                chk.sample({"behaviour": json.loads(f.readline())[:4]})
            os.remove(beh)
        # ---- Leg T ----
        tr = os.path.join(vlib.WORK, "%s_trace.ndjson" % pid)
        vlib.vh(["record", "bmt", "--tier", tier, "--part", PARTS[pid], "-o", tr])
        events = vlib.read_ndjson(tr)
        nev, nseg, st = tc.validate(chk, "bmt", SPEC_TR, tr, tag=pid)
        chk.add("states", st)
        chk.add("transitions", st)
        for e in events[2:5]:
            chk.sample(tc._short(e, 400))
        if pid == "C09":
            # transaction receipts roots (committed by the VM, below and AT the 65 535-receipt limit) against the same RFC oracle
            trv = os.path.join(vlib.WORK, "C09_receipts.ndjson")
            vlib.vh(["record", "vm", "--tier", tier, "--part", "client,prog", "-o", trv], bin="vh_vm", timeout=3000)
            nev2, nseg2, st2 = tc.validate(chk, "vm", "vm/FuelVM_Trace.tla", trv, tag="C09r", timeout=3000, parallel=4)
            chk.add("states", st2)
            chk.add("transitions", st2)
            chk.set("receipts_root_events", len([e for e in vlib.read_ndjson(trv) if e.get("ev") in ("Final", "RunSummary")]))
        # ---- binding self-test ----
        tc.selftest_corrupt(chk, "bmt", SPEC_TR, tr, tc.flip_bool_field("Verify", "verdict") if pid == "C10" else tc.corrupt_hex_field(["root"]))
        chk.set("evaluations", nev + chk.cov.get("replay_steps", 0))
        chk.set("distinct_nontrivial", _distinct(pid, events) + nbeh)
        chk.set("rule", RULES[pid])
        chk.set("exhaustive", False)
        chk.assumptions.extend([
            "SHA-256 is evaluated by java.security.MessageDigest inside TLC (override of VerifHash!SHA256)",
            "collision resistance: the unique verifying proof is the RFC audit path, so proofs are compared byte-for-byte",
            "Load is exercised only for k <= leaves of the current epoch of the source store (the property's reload point)",
        ])
    return vlib.run_check(body, pid, "model_checking", tier)
