"""vmcrypto — the FuelVM instruction families S256 K256 / ECK1 ECR1 ED19 / ECOP EPAR / BHEI BHSH CB TIME under the FuelVM trace
specification.  NOT a property of its own: coverage growth for C24 (writes only into owned memory), C26 (gas per schedule incl.
dependent cost), C28 (panic reasons), C29 (no crash) and the "instruction semantics follow the specification" family.

Spec: spec/vm/VmCrypto.tla (effects; SEC 1 key recovery, alt_bn128 group law and pairing bilinearity written out with exact
naturals; SHA-256 / Keccak-256 / modular exponentiation as Java overrides, lib/VerifCrypto.tla), dispatched from FuelVM.tla,
bound to the code by FuelVM_Trace.tla (Leg T) on traces recorded by harness/src/bin/vh_vmcrypto.rs.

Integration (lead): checks/vm.py can call `leg(chk, tier, parts=...)` from a property body, or add the recorder parts to PARTS and
use `class_of` as class_fn.  Until VmCrypto.tla / VerifCrypto.tla and the Java overrides are merged into /verif/spec this module
points at the builder's private copy work/vmcrypto/{spec,java,classes} (see docs/NOTES_vmcrypto.md)."""
import collections
import os
import sys

sys.path.insert(0, os.path.join(os.path.dirname(os.path.dirname(os.path.abspath(__file__))), "pylib"))
import tracecheck as tc
import vlib
from vlib import ToolError

PROPERTIES_WIP = []          # no property is registered by this module

_PRIV = os.path.join(vlib.ROOT, "work", "vmcrypto")
MERGED = os.path.exists(os.path.join(vlib.SPEC, "vm", "VmCrypto.tla"))
if MERGED:
    SPEC_TR = "vm/FuelVM_Trace.tla"
    SPEC_TEST = "vm/VmCryptoTest.tla"
else:
    SPEC_TR = os.path.join(_PRIV, "spec", "FuelVM_Trace.tla")
    SPEC_TEST = os.path.join(_PRIV, "spec", "VmCryptoTest.tla")
    if not os.environ.get("VERIF_JAVA"):
        vlib.JAVA_SRC = os.path.join(_PRIV, "java")
    if not os.environ.get("VERIF_CLASSES"):
        vlib.CLASSES = os.path.join(_PRIV, "classes")
BIN = "vh_vmcrypto"

NAMES = {0x2a: "BHSH", 0x2b: "BHEI", 0x31: "CB", 0x43: "TIME", 0x42: "S256", 0x41: "K256", 0x3e: "ECK1", 0x3f: "ECR1", 0x40: "ED19",
         0xbc: "ECOP", 0xbe: "EPAR"}
# every part of the recorder except `blockbig` (BHSH with a height operand >= 2^32: contradicts the instruction-set text, see NOTES)
PARTS = "hash,sig,ed,ecop,epar,block,frame,blockbig"

RULE = ("one Step event per executed instruction; distinct = distinct (instruction, outcome, panic reason, $err written, destination "
        "written, gas class, kind of driver expectation, in a contract frame) tuples over the steps of the eleven instructions")


def _op(e):
    w = e.get("word")
    return int(w[:2], 16) if e.get("ev") == "Step" and w else None


def _is_mine(e):
    return _op(e) in NAMES


def _fields(e):
    w = int(e["word"], 16)
    return w >> 24, (w >> 18) & 63, (w >> 12) & 63, (w >> 6) & 63, w & 63


def _reason(e):
    """panic reason of a step: exec mode logs it directly, run mode in the Panic receipt of the terminal step"""
    if e.get("reason"):
        return e["reason"]
    for r in e.get("rc", []):
        if r.get("kind") == "Panic":
            return r.get("reason")
    return None


def class_of(dom, e):
    """stable violation class of a rejected event"""
    if _is_mine(e):
        name = NAMES[_op(e)]
        reason = _reason(e)
        if name == "BHSH" and reason == "InvalidBlockHeight":
            # the only way BHSH reports this reason: a height operand that is not a 32-bit number (docs/NOTES_vmcrypto.md, Findings)
            return "vmcrypto/BHSH/height>=2^32/InvalidBlockHeight"
        parts = ["vmcrypto", name, str(e.get("out") or ("terminal" if "fin" in e else "cont"))]
        if reason:
            parts.append(reason)
        if "exp" in e:
            parts.append("exp=" + str(e["exp"].get("k")))
        return "/".join(parts)
    if e.get("ev") == "HostPanic":
        w = e.get("word") or "--"
        return "vmcrypto/HostPanic/" + NAMES.get(int(w[:2], 16) if w != "--" else -1, w[:2])
    return tc.event_class(dom, e)


def _stats(events):
    keys = set()
    per = collections.Counter()
    exps = collections.Counter()
    in_call = False
    for e in events:
        if e.get("ev") == "Init":
            in_call = "contracts" in e
        if not _is_mine(e):
            continue
        op = _op(e)
        regs = e.get("regs", {})
        gas = e.get("poke", {}).get("10")
        gclass = "ample" if gas and int(gas) >= 1000000 else "tight"
        ek = e.get("exp", {}).get("k")
        keys.add((op, e.get("out"), e.get("reason"), regs.get("8"), bool(e.get("mem")), gclass, ek, in_call))
        per[(NAMES[op], e.get("out") if e.get("out") != "panic" else e.get("reason"))] += 1
        if ek:
            exps[(NAMES[op], ek)] += 1
    return keys, per, exps


def _flip_digit(h, rng):
    k = rng.randrange(len(h))
    return h[:k] + "0123456789abcdef"[(int(h[k], 16) + 1 + rng.randrange(15)) % 16] + h[k + 1:]


def _mut(events, rng):
    """binding self-test: corrupt one logged observation of one of the eleven instructions (a digest byte, a recovered-key byte,
    $err, a curve point byte, the block height / a block hash byte / the coinbase, the charge)"""
    init = next((e for e in events if e.get("ev") == "Init"), {})
    known = set((init.get("chain") or {}).get("blocks", {}).keys())
    ok = [i for i, e in enumerate(events) if _is_mine(e) and e.get("out") == "proceed" and i < 400]
    kinds = ["digest", "key", "err", "point", "height", "hash", "coinbase", "gas", "verdict", "time"]
    rng.shuffle(kinds)
    for kind in kinds:
        def has(i, names, need_mem=False):
            e = events[i]
            return NAMES[_op(e)] in names and (not need_mem or (e.get("mem") and len(e["mem"][0][1]) >= 2))
        if kind == "digest":
            c = [i for i in ok if has(i, ("S256", "K256"), True)]
        elif kind == "key":
            c = [i for i in ok if has(i, ("ECK1", "ECR1"), True) and events[i].get("regs", {}).get("8", events[i].get("poke", {}).get("8")) == "0"]
        elif kind == "err":
            c = [i for i in ok if has(i, ("ECK1", "ECR1")) and "8" in events[i].get("poke", {})]
        elif kind == "verdict":
            c = [i for i in ok if has(i, ("ED19",)) and "exp" in events[i] and "8" in events[i].get("poke", {})]
        elif kind == "point":
            c = [i for i in ok if has(i, ("ECOP",), True)]
        elif kind == "height":
            c = [i for i in ok if has(i, ("BHEI",)) and str(_fields(events[i])[1]) in events[i].get("regs", {})]
        elif kind == "time":
            c = [i for i in ok if has(i, ("TIME",)) and str(_fields(events[i])[1]) in events[i].get("regs", {})
                 and _fields(events[i])[2] == 0x11 and events[i].get("poke", {}).get("17") in known]
        elif kind == "hash":
            c = [i for i in ok if has(i, ("BHSH",), True) and _fields(events[i])[2] == 0x11 and events[i].get("poke", {}).get("17") in known]
        elif kind == "coinbase":
            c = [i for i in ok if has(i, ("CB",), True)]
        else:
            c = [i for i in ok if "9" in events[i].get("regs", {}) and "10" in events[i].get("regs", {})]
        if not c:
            continue
        i = rng.choice(c)
        e = events[i]
        if kind in ("digest", "key", "point", "hash", "coinbase"):
            a, h = e["mem"][0]
            e["mem"][0] = [a, _flip_digit(h, rng)]
        elif kind in ("err", "verdict"):
            post = e["regs"].get("8", e["poke"]["8"])
            e["regs"]["8"] = "1" if post == "0" else "0"
        elif kind in ("height", "time"):
            r = str(_fields(e)[1])
            e["regs"][r] = str(int(e["regs"][r]) + 1)
        else:
            for r in ("9", "10"):
                e["regs"][r] = str(int(e["regs"][r]) + 1)
        del events[i + 3:]
        _mut.last = dict(kind=kind, word=e["word"], instruction=NAMES[_op(e)])
        return i
    return None


def selftest_primitives(chk):
    """the Java overrides (Keccak, ModPow, ModInv, curve scalar multiplication, G2 subgroup test) against published vectors and
    against their TLA+ definitions; group orders; ECDSA recovery vectors"""
    res = vlib.tlc(SPEC_TEST, workers=1, timeout=1200, tag="vmcrypto_prim_%d" % os.getpid())
    if not res.ok:
        raise ToolError("primitive self-test %s failed:\n%s" % (SPEC_TEST, vlib.tlc_fail_text(res)))
    chk.set("primitive_selftest", dict(spec=os.path.basename(SPEC_TEST), passed=True, wall_s=round(res.wall, 1)))


def leg(chk, tier, parts=None, tag="vmcrypto", selftest=True):
    """record, validate, binding self-test.  Returns (events, steps of the eleven instructions)."""
    parts = parts or PARTS
    thorough = tier == "thorough"
    vlib.harness_build(BIN)
    tr = os.path.join(vlib.WORK, "%s_trace.ndjson" % tag)
    vlib.vh(["record", "vmcrypto", "--tier", tier, "--part", parts, "-o", tr], bin=BIN, timeout=3000)
    events = vlib.read_ndjson(tr)
    bad = [e for e in events if e.get("ev") in ("HostPanic", "Runaway")]
    nev, nseg, st = tc.validate(chk, "vmcrypto", SPEC_TR, tr, tag=tag, timeout=3000, parallel=4, class_fn=class_of)
    chk.add("states", st)
    chk.add("transitions", st)
    keys, per, exps = _stats(events)
    steps = [e for e in events if _is_mine(e)]
    chk.set("vmcrypto_steps", len(steps))
    chk.set("vmcrypto_mem_pokes", len([e for e in events if e.get("ev") == "MemPoke"]))
    chk.set("vmcrypto_sessions", len([e for e in events if e.get("ev") == "Init"]))
    chk.set("vmcrypto_outcomes", {"%s/%s" % k: v for k, v in sorted(per.items())})
    chk.set("vmcrypto_expectations", {"%s/%s" % k: v for k, v in sorted(exps.items())})
    chk.set("vmcrypto_host_panics_recorded", len(bad))
    chk.set("vmcrypto_distinct", len(keys))
    want = set(NAMES.values()) if "frame" in parts.split(",") else None
    if want is not None:
        done = {k[0] for k, v in per.items() if k[1] == "proceed"}
        panicked = {k[0] for k, v in per.items() if k[1] != "proceed"}
        if done != want or panicked != want:
            raise ToolError("vacuous run: instructions without a completed / a panicking execution: %s / %s" % (sorted(want - done), sorted(want - panicked)))
    for e in steps[7:10]:
        chk.sample(tc._short(e, 700))
    if selftest:
        tc.selftest_corrupt(chk, "vmcrypto", SPEC_TR, tr, _mut, max_events=700, timeout=1200)
        chk.cov["binding_selftest"].update(getattr(_mut, "last", {}))
        if thorough:
            selftest_primitives(chk)
    return events, steps


def run(pid, tier):
    """stand-alone driver of the leg (evidence goes to the file of `pid`)"""
    def body(chk):
        events, steps = leg(chk, tier)
        chk.set("evaluations", len(steps))
        chk.set("distinct_nontrivial", chk.cov.get("vmcrypto_distinct", 0))
        chk.set("rule", RULE)
        chk.set("exhaustive", False)
        chk.assumptions.extend([
            "exact BigNat arithmetic, SHA-256, Keccak-256, modular exponentiation / inverse and (for speed) curve scalar multiplication are "
            "evaluated by Java overrides inside TLC; VmCryptoTest.tla compares them with published vectors and the TLA+ definitions",
            "the verdict of ED19 and the result bit of an EPAR whose non-trivial pairs do not share one G2 point are environment functions "
            "read off the observation (ED19 additionally bound by the driver's own signatures)",
            "the chain oracle (height, coinbase, block hashes, timestamps) is read from the storage backend into the Init event",
        ])
    return vlib.run_check(body, pid, "model_checking", tier)


def main():
    import argparse
    ap = argparse.ArgumentParser()
    ap.add_argument("--tier", default=None)
    ap.add_argument("--parts", default=None, help="recorder parts (default: all but blockbig)")
    a = ap.parse_args()
    if not os.environ.get("VERIF_EVID"):
        vlib.EVID = os.path.join(_PRIV, "evidence")          # not a registered property: keep /verif/evidence clean
    if not os.environ.get("VERIF_REPLAYS"):
        vlib.REPLAYS = os.path.join(_PRIV, "replays")
    global PARTS
    if a.parts:
        PARTS = a.parts
    sys.exit(run("VMCRYPTO", vlib.tier(a.tier)))


if __name__ == "__main__":
    main()
