"""C23 — VM memory behaves like a zero-initialised array with two regions
(spec/vm/Memory*.tla, harness vh_memory)."""
import json
import os

import tracecheck as tc
import vlib
from vlib import ToolError, log

SPEC_MC = "vm/Memory_MC.tla"
SPEC_TR = "vm/Memory_Trace.tla"
MEM = 64 * 1024 * 1024  # the size the PROPERTY states; the code's MEM_SIZE is reported in every Seg event

RULE = ("model (Leg M) = ALL histories <= MaxLen over grow-stack / grow-heap / boundary writes / copies / reset / snapshot / "
        "rollback on MemSize 1024 with sizes {0,1,8,255,256,257,...}; replay (Leg R) = EVERY transition of the reachable graph "
        "of the same model at MemSize 64 MiB (depth <= MaxLen), each replayed into a real MemoryInstance (reused after reset() "
        "or fresh) with granted/refused, stack extent, hp, ~30 accessibility probes around every boundary and the complete "
        "non-zero content compared; traces (Leg T) = seeded boundary-biased histories of many transactions per instance with "
        "resets that leave dirty heaps, every call logged with its result and validated by TLC. "
        "distinct = distinct replayed transitions + distinct trace-event classes (event kind, outcome, position of the range "
        "relative to stack extent / hp / 64 MiB, length class, overlap relation, reuse state)")

PROPERTIES = ['C23']
MANIFEST = {
    'C23': dict(category='model_checking',
                technique='TLA+ spec Memory (flat zero-initialised array + stack extent + heap pointer, written from the property '
                          'text) model-checked by TLC; every transition of the 64 MiB model replayed into the real MemoryInstance; '
                          'long seeded histories of the real MemoryInstance (public API + MCP for copies) validated by TLC '
                          'against the spec',
                text='TLC checks TypeOK/ZeroInit/AccessibleIffTwoRegions/GrowthReadsZero/RollbackRestores on all histories <= MaxLen '
                     '(MemSize 1024). The same model at MemSize 64 MiB emits every transition with the predicted outcome, region '
                     'bounds, accessibility verdicts for a probe set around each boundary and the full sparse content; the harness '
                     'performs it on a real (fresh or reset-and-reused) instance and compares all of it. Seeded histories '
                     '(grow_stack, grow_heap_by, verify, read, read_bytes, write_noownerchecks, write_bytes_noownerchecks, MCP '
                     'copies, reset, clone/collect_rollback_data/rollback, ==) with sizes near 0, 8, 256, 2^k and 64 MiB, '
                     'dirtying writes before every reset and sparse dumps of everything newly accessible are accepted or '
                     'rejected event by event by Memory_Trace.',
                note='Copies are driven through the MCP instruction (memcopy needs crate-private OwnershipRegisters) with registers '
                     'that make every accessible non-empty range owned; empty copies may be refused for ownership (C24 territory). '
                     'Write sizes <= 4 KiB, successful copies <= 64 KiB; rollback only to snapshots of the current transaction. '
                     'Bounded: histories <= 3-5 exhaustively, traces of 10^4-10^5 events.',
                design_ref='4/C23'),
}



def _cmp(a, b):
    return (a > b) - (a < b)


def _ncls(n):
    for lim in (0, 1, 8, 64, 256, 4096, 1 << 16, 1 << 20, MEM):
        if n <= lim:
            return lim
    return -1


def _distinct(events):
    """distinct non-trivial trace-event classes (see RULE)"""
    keys = set()
    st, hp, resets = 0, MEM, 0
    for e in events:
        ev = e.get("ev")
        if ev == "Seg":
            st, hp, resets = 0, MEM, 0
            continue
        if ev in ("Verify", "Read", "Dump", "Write"):
            a = int(e["a"])
            n = len(e["data"]) // 2 if ev == "Write" else int(e["n"])
            keys.add((ev, e.get("ok"), _cmp(a + n, st), _cmp(a, hp), _cmp(a + n, MEM), _ncls(n), st == hp, resets > 0))
        elif ev == "Copy":
            d, s, n = int(e["d"]), int(e["s"]), int(e["n"])
            reg = lambda x: 0 if x + n <= st else (1 if x >= hp and x + n <= MEM else 2)
            keys.add((ev, e.get("ok"), e.get("err"), _cmp(d, s), _cmp(abs(d - s), n), _ncls(n), reg(d), reg(s)))
        elif ev == "GrowStack":
            s = int(e["s"])
            keys.add((ev, e["ok"], _cmp(s, st), _cmp(s, hp), _ncls(s), resets > 0))
        elif ev == "GrowHeap":
            n = int(e["n"])
            keys.add((ev, e["ok"], _cmp(hp - n, e["sp"]), _cmp(hp - n, st), _cmp(n, hp), _ncls(n), resets > 0))
        elif ev == "Rollback":
            keys.add((ev, _cmp(e["st"], st), _cmp(e["hp"], hp), e.get("none")))
        elif ev == "Eq":
            keys.add((ev, e["eq"]))
        elif ev == "Reset":
            resets += 1
            keys.add((ev, _ncls(st), _ncls(MEM - hp)))
        if "st" in e and "hp" in e:
            st, hp = e["st"], e["hp"]
    return len(keys)


def _corrupt_pages(events, rng):
    """binding self-test mutator: change one byte of one logged sparse page, or invent a page"""
    cands = [i for i, e in enumerate(events) if e.get("ev") == "Dump" and e.get("ok")]
    if not cands:
        return None
    i = rng.choice(cands)
    e = events[i]
    if e["pages"]:
        pg = rng.choice(e["pages"])
        k = rng.randrange(len(pg[1]))
        c = pg[1][k]
        pg[1] = pg[1][:k] + ("1" if c != "1" else "2") + pg[1][k + 1:]
    else:
        a, n = int(e["a"]), int(e["n"])
        if n == 0:
            return None
        p = a // 64
        off = a - p * 64
        e["pages"].append([p, "00" * off + "01" + "00" * (63 - off)])
    return i


def _corrupt_read(events, rng):
    """change one hex digit of the bytes a successful Read returned (an observation, unlike Write.data)"""
    cands = [i for i, e in enumerate(events) if e.get("ev") == "Read" and e.get("ok") and e.get("data")]
    if not cands:
        return None
    i = rng.choice(cands)
    d = events[i]["data"]
    k = rng.randrange(len(d))
    events[i]["data"] = d[:k] + ("1" if d[k] != "1" else "2") + d[k + 1:]
    return i


def _corrupt_bound(events, rng):
    cands = [i for i, e in enumerate(events) if e.get("ev") in ("GrowStack", "GrowHeap", "Rollback") and "st" in e]
    if not cands:
        return None
    i = rng.choice(cands)
    f = rng.choice(["st", "hp"])
    events[i][f] = events[i][f] + 1
    return i


def _sizes(vals):
    return "{" + ", ".join(str(v) for v in sorted(set(vals))) + "}"


def run(pid, tier):
    def body(chk):
        thorough = tier == "thorough"
        vlib.harness_build("vh_memory")
        invs = ["TypeOK", "ZeroInit", "AccessibleIffTwoRegions", "SpBelowStack", "GrowthReadsZero", "RollbackRestores"]
        acts = ["AGrowStack", "AGrowHeap", "AWrite", "ACopy", "AReset", "ASnapshot", "ARollback"]
        # ---- Leg M: small MemSize, every history <= MaxLen ----
        maxlen = 5 if thorough else 3
        res = tc.model_check(chk, SPEC_MC, constants={"MaxLen": maxlen}, workers=4, need_actions=acts, tag=pid + "_mc",
                             timeout=2400)
        chk.set("model", dict(spec=SPEC_MC, MemSize=1024, MaxLen=maxlen, distinct_states=res.distinct,
                              transitions=res.generated, invariants=invs))
        # ---- Leg R: the same model at 64 MiB, one line per transition ----
        if thorough:
            gens = [("wide", 3, [0, 1, 8, 255, 256, 257, 4096, MEM - 4096, MEM - 257, MEM - 256, MEM - 8, MEM - 1, MEM, MEM + 1],
                     "{1, 8}", "{1, 8}", 2),
                    ("deep", 4, [0, 8, 256, MEM - 8], "{8}", "{8}", 1)]
        else:
            gens = [("quick", 3, [0, 1, 8, 256, MEM - 256, MEM - 8, MEM + 1], "{8}", "{8}", 2)]
        nbeh_total = 0
        seen = set()
        rmodels = []
        for gname, rlen, sizes, wl, cl, msnaps in gens:
            dump = os.path.join(vlib.WORK, "%s_gen.out" % pid)
            res2 = tc.model_check(chk, SPEC_MC, workers=1, need_actions=acts, dump_out=dump, tag=pid + "_gen", timeout=2400,
                                  constants={"MemSize": MEM, "MaxLen": rlen, "Sizes": _sizes(sizes), "WLens": wl, "CLens": cl,
                                             "MaxSnaps": msnaps, "EmitReplay": "TRUE", "DepthInView": "FALSE"})
            beh = os.path.join(vlib.WORK, "%s_beh.ndjson" % pid)
            nbeh = tc.extract_replay(dump, beh)
            os.remove(dump)
            if nbeh == 0 or nbeh != res2.generated - 1:
                raise ToolError("generator printed %d transitions, TLC generated %d states" % (nbeh, res2.generated))
            outp = os.path.join(vlib.WORK, "%s_replay.ndjson" % pid)
            vlib.vh(["replay", "mem", beh, "-o", outp], bin="vh_memory", timeout=2400)
            rs = vlib.read_ndjson(outp)
            summ = [r for r in rs if "summary" in r]
            if not summ or summ[0]["summary"]["behaviours"] != nbeh:
                raise ToolError("replay did not process all behaviours")
            for r in rs:
                if "mismatch" in r:
                    cls = "mem/replay/" + r["mismatch"]
                    if cls in seen:
                        continue
                    seen.add(cls)
                    rp = os.path.join(vlib.WORK, "%s_mismatch.json" % pid)
                    with open(rp, "w") as f:
                        json.dump(r, f)
                    chk.violation(cls, rp, dict(leg="R", last=tc._short(r["behaviour"]["last"], 600), pre=r["behaviour"]["pre"],
                                                expected=tc._short(r["expected"], 600), observed=tc._short(r["observed"], 600)))
            chk.add("behaviours_replayed", nbeh)
            chk.add("replay_steps", summ[0]["summary"]["steps"])
            nbeh_total += nbeh
            rmodels.append(dict(name=gname, MemSize=MEM, MaxLen=rlen, Sizes=sorted(set(sizes)), WLens=wl, CLens=cl,
                                distinct_states=res2.distinct, transitions=nbeh))
            with open(beh) as f:
                for _ in range(40):
                    ln = f.readline()
                if ln:
                    b = json.loads(ln)
                    chk.sample({"replayed_transition": {"pre": b["pre"], "last": {k: v for k, v in b["last"].items() if k != "probes"},
                                                        "probes": b["last"]["probes"][:6]}})
            os.remove(beh)
        chk.set("replay_models", rmodels)
        nbeh = nbeh_total
        # ---- Leg T ----
        tr = os.path.join(vlib.WORK, "%s_trace.ndjson" % pid)
        for k in range(0, 12):  # leftovers of an earlier run must not be mistaken for this run's accepted remainder
            for f in (tr + ".rest%d" % k, tr + ".g0.rest%d" % k, tr + ".g0"):
                if os.path.exists(f):
                    os.remove(f)
        vlib.vh(["record", "mem", "--tier", tier, "--part", "hist,rbtrunc", "-o", tr], bin="vh_memory", timeout=2400)
        events = vlib.read_ndjson(tr)
        sizes_seen = [e.get("mem_size") for e in events if e.get("ev") == "Seg"]
        nev, nseg, st = tc.validate(chk, "mem", SPEC_TR, tr, tag=pid, timeout=2400)
        chk.add("states", st)
        chk.add("transitions", st)
        for e in [x for x in events if x.get("ev") in ("GrowHeap", "Copy", "Rollback", "Dump")][10:14]:
            chk.sample(tc._short(e, 400))
        # ---- binding self-tests (on segments TLC accepted; pointless once a violation is on record) ----
        st_res = {}
        if chk.violations:
            chk.set("binding_selftests", "skipped: the run already reports violations")
        else:
            good = tr
            k = 1
            # validate() leaves the trace minus rejected (known-finding) segments in <trace>.g0.rest<k>
            while os.path.exists(tr + ".g0.rest%d" % k) or os.path.exists(tr + ".rest%d" % k):
                good = tr + (".g0.rest%d" if os.path.exists(tr + ".g0.rest%d" % k) else ".rest%d") % k
                k += 1
            tests = [("Verify.ok", tc.flip_bool_field("Verify", "ok")), ("Dump.pages", _corrupt_pages)]
            if thorough:
                tests += [("Read.data", _corrupt_read), ("bounds", _corrupt_bound),
                          ("Eq.eq", tc.flip_bool_field("Eq", "eq")), ("Copy.ok", tc.flip_bool_field("Copy", "ok"))]
            for name, mut in tests:
                tc.selftest_corrupt(chk, "mem", SPEC_TR, good, mut)
                st_res[name] = chk.cov.get("binding_selftest")
            chk.set("binding_selftests", st_res)
        chk.set("evaluations", nev + chk.cov.get("replay_steps", 0))
        chk.set("distinct_nontrivial", _distinct(events) + nbeh)
        chk.set("trace_event_classes", _distinct(events))
        chk.set("rule", RULE)
        chk.set("exhaustive", False)
        chk.set("mem_size_reported_by_code", sorted(set(sizes_seen)))
        chk.assumptions.extend([
            "the harness builds inputs and records results only; all expected values come from TLC (Memory.tla)",
            "hp is observed as the $hp register written by grow_heap_by (and saved/restored with snapshots), the stack extent as "
            "stack_raw().len(); both are additionally pinned by accessibility probes on either side of each boundary",
            "copies: MCP with $ssp=0, $sp=stack extent, $hp=hp, no frame, 2^62 gas, so ownership and gas never decide a non-empty copy",
            "malloc is configured (MALLOC_MMAP_MAX_=0, no trim) so that 64 MiB blocks are recycled inside the process",
        ])
    return vlib.run_check(body, pid, "model_checking", tier)
