"""C06 C07 — serde formats and DA compression (spec/tx/Serde*.tla, spec/tx/Compression*.tla, harness vh_serde)."""
import json
import os

import tracecheck as tc
import vlib
from vlib import ToolError, log

BIN = "vh_serde"

RULES = {
    "C06": "model = every Policies value over 64 masks x value vectors from PolicyValues with its JSON / postcard / bincode encoding "
           "predicted by the spec, and every case of the variant/version space (6 tx kinds, 13 receipt kinds, 28 consensus-parameter "
           "version combinations, 7 gas-cost versions, 2 policy layouts); replay = real encoders compared byte-for-byte with the "
           "predictions and real decoders (visit_map and visit_seq) fed the PREDICTED encodings; trace = seeded boundary-biased values "
           "of every case through JSON/postcard/bincode, Bytes in three formats, upgrade checksum with SHA-256 recomputed by TLC; "
           "distinct = distinct (event kind, case, format, value digest) keys + distinct Policies values replayed",
    "C07": "model = ALL histories of <= MaxLen transactions from an 8-transaction alphabet (all 6 kinds, all 7 input and 5 output "
           "variants) sharing one registry, next key started at {0, 2^24-3}, with/without older entries on the keys written next; "
           "every history replayed through the real derive(Compress/Decompress) with registry calls, keys and registry projection "
           "compared after every transaction; traces = seeded generated sequences (pools force reuse, wrap-around, eviction) and the "
           "repo's factory transactions validated by Compression_Trace (field table, ids, registry); distinct = distinct histories + "
           "distinct (kind, input variants, output variants, registry-call key pattern) of traced transactions",
}

PROPERTIES = ['C06', 'C07']
MANIFEST = {
    'C06': dict(category='exploration',
                technique='TLA+ spec Serde: exact model of the hand-written Policies serde (legacy 4-tuple vs compact sequence chosen by the '
                          'bit pattern) with JSON/postcard/bincode encodings derived from the format definitions, exact model of Bytes, and '
                          'the round-trip / reproducibility / checksum laws over a TLC-enumerated variant and version space; TLC-predicted '
                          'encodings replayed against the real serde in both directions; recorded round trips validated by TLC',
                text='TLC enumerates all 64 policy masks x value vectors ({0,1,max}; thorough adds varint/width boundaries), checks '
                     'De(Ser(p)) = p and the layout facts on the design, and prints the expected serde_json value, postcard bytes and bincode '
                     'bytes of each; the harness compares serde_json::to_value / postcard / bincode of the real Policies with them and feeds '
                     'the predicted encodings to the real deserializers (JSON object -> visit_map, JSON array / postcard / bincode -> '
                     'visit_seq). Transactions of all 6 kinds (TransactionFactory, every policy mask), all 13 receipt variants, '
                     'ConsensusParameters V1/V2 x ScriptParameters V1/V2 x GasCosts V1..V7 with boundary-biased numeric fields and GasCosts '
                     'V1..V7 are round-tripped through JSON, postcard and bincode; Serde_Trace requires value equality (projection and ==), '
                     'byte-identical re-encoding, the constructor checksum = SHA256(postcard bytes) (hash recomputed inside TLC) and '
                     'UpgradeMetadata::compute accepting exactly the witnesses that hash to the committed checksum.',
                note='Outside Policies and Bytes the spec contributes the enumeration of the finite variant/version space and the laws, not '
                     'an independent wire format of JSON/postcard/bincode; values inside a variant are sampled (seeded, boundary-biased). '
                     'Trusts java MessageDigest SHA-256 inside TLC.',
                design_ref='4/C06'),
    'C07': dict(category='model_checking',
                technique='TLA+ spec Compression: temporal registry state machine per keyspace (24-bit keys, reserved default key, wrap-around, '
                          'eviction, no reuse of a key the same transaction touches), per-type keep/substitute/skip field table, properties '
                          'IdPreserved / NonSkippedEqual / SkippedRestoredOrDefault; model-checked by TLC; all small histories replayed '
                          'through the real derive(Compress/Decompress) + RegistryKey; recorded sequences validated by TLC',
                text='TLC explores every history of <= 3 (thorough 4) transactions over an alphabet covering all kinds and variants with the '
                     'registries started at 0 and at 2^24-3 and checks registry well-formedness, resolvability of every key handed out and '
                     'that every defaulted field lies outside the id preimage; each history is executed on the real code with a harness '
                     'context built on RegistryKey::next/as_u32/try_from/DEFAULT_VALUE and the registry calls (keyspace, value, key, in '
                     'order), next keys and table contents are compared with the prediction after every transaction. Seeded sequences of '
                     'generated and factory transactions sharing a context are validated by Compression_Trace: calls = the registry '
                     'references of the original transaction, keys as the model hands them out, every kept/substituted/restored field '
                     'equal, every skipped field default, id(decompressed) = id(original), compressed form survives postcard.',
                note='The registry (key -> value table, eviction policy) is the harness context, as in the repo\'s own test; the repo code bound '
                     'is RegistryKey, the derive macros, the compress(skip) annotations, the identity/collection impls and the id computation. '
                     'Ids are compared, not recomputed by TLC (law-level for IdPreserved). Field values inside a variant are sampled.',
                design_ref='4/C07'),
}

LEVEL = {"C06": "exploration", "C07": "model_checking"}


def _report_replay(chk, dom, pid, outp, nbeh):
    rs = vlib.read_ndjson(outp)
    summ = [r for r in rs if "summary" in r]
    if not summ or summ[0]["summary"]["behaviours"] != nbeh:
        raise ToolError("replay did not process all behaviours (%s of %s)" % (summ[0]["summary"]["behaviours"] if summ else None, nbeh))
    seen = set()
    for r in rs:
        if "mismatch" not in r:
            continue
        cls = "%s/replay/%s" % (dom, r["mismatch"])
        if cls in seen:
            continue
        seen.add(cls)
        rp = os.path.join(vlib.WORK, "%s_mismatch_%d.json" % (pid, len(seen)))
        with open(rp, "w") as f:
            json.dump(r, f)
        chk.violation(cls, rp, dict(leg="R", beh=r.get("beh"), step=r.get("step"), expected=tc._short(r["expected"], 600),
                                    observed=tc._short(r["observed"], 600)))
    return summ[0]["summary"]


def _serde_class(dom, e):
    parts = [dom, str(e.get("ev"))]
    for k in ("where", "type", "kind", "fmt"):
        if isinstance(e.get(k), str):
            parts.append(e[k])
    if e.get("ev") == "Upgrade" and isinstance(e.get("tag"), str):
        parts.append(e["tag"])
    return "/".join(parts)


def _compress_class(dom, e):
    parts = [dom, str(e.get("ev"))]
    for k in ("where", "kind"):
        if isinstance(e.get(k), str):
            parts.append(e[k])
    return "/".join(parts)


def _selftest(chk, dom, spec, trace, mutate):
    """Binding self-test. When the run already found violations the corrupted segment may be one of the rejected ones, so a
    failed self-test must not turn the verdict into a tool error (exit 1 has priority); it is recorded instead."""
    try:
        tc.selftest_corrupt(chk, dom, spec, trace, mutate)
    except ToolError as e:
        if not chk.violations:
            raise
        chk.set("binding_selftest", dict(passed=False, skipped="trace already rejected by violations", detail=str(e)[:300]))


def _c06(chk, tier):
    thorough = tier == "thorough"
    vlib.harness_build(BIN)
    # ---- Leg M + generator ----
    values = '{"0", "1", "128", "4294967296", "18446744073709551615"}' if thorough else '{"0", "1", "18446744073709551615"}'
    dump = os.path.join(vlib.WORK, "C06_mc.out")
    res = tc.model_check(chk, "tx/Serde_MC.tla", constants={"PolicyValues": values, "EmitReplay": "TRUE"},
                         need_actions=["APolicy", "ACase"], dump_out=dump, tag="C06_mc", workers=4)
    beh = os.path.join(vlib.WORK, "C06_beh.ndjson")
    nlines = tc.extract_replay(dump, beh)
    os.remove(dump)
    items = vlib.read_ndjson(beh)
    npol = sum(1 for b in items if b.get("t") == "Policies")
    cases = [(b["type"], b["kind"]) for b in items if b.get("t") == "Case"]
    if npol == 0 or not cases or nlines != npol + len(cases):
        raise ToolError("model emitted %d policies / %d cases" % (npol, len(cases)))
    chk.set("model", dict(spec="tx/Serde_MC.tla", policy_values=values, policies=npol, cases=len(cases), distinct_states=res.distinct,
                          invariants=["PoliciesRoundTrip", "LayoutLength", "NewerEntriesCompact", "WrongCountRejected", "BincodeSize",
                                      "PostcardBounds", "CaseInSpace"]))
    # ---- Leg R: predicted encodings vs the real serde, both directions ----
    outp = os.path.join(vlib.WORK, "C06_replay.ndjson")
    vlib.vh(["replay", "serde", beh, "-o", outp], bin=BIN)
    summ = _report_replay(chk, "serde", "C06", outp, npol)
    chk.add("behaviours_replayed", npol)
    chk.add("replay_steps", summ["steps"])
    chk.sample({"predicted": next(b for b in items if b.get("t") == "Policies" and b["bits"] == 37)})
    # ---- Leg T ----
    tr = os.path.join(vlib.WORK, "C06_trace.ndjson")
    vlib.vh(["record", "serde", "--tier", tier, "--cases", beh, "-o", tr], bin=BIN)
    events = vlib.read_ndjson(tr)
    # vacuity: every case of the spec's space was instantiated in every format, every mask was serialized
    seen = {(e["type"], e["kind"], e["fmt"]) for e in events if e.get("ev") == "RT"}
    missing = [(t, k, f) for (t, k) in cases for f in ("json", "postcard", "bincode") if (t, k, f) not in seen]
    if missing:
        raise ToolError("cases of the spec's variant space not exercised: %s" % missing[:5])
    masks = {e["bits"] for e in events if e.get("ev") == "PolSer"}
    txmasks = {e["tag"]["mask"] for e in events if e.get("ev") == "RT" and e.get("type") == "Transaction" and isinstance(e.get("tag"), dict)}
    if len(masks) != 64:
        raise ToolError("only %d policy masks recorded" % len(masks))
    if not any(e.get("ev") == "Upgrade" and e.get("outcome") == "ok" for e in events):
        raise ToolError("no accepted upgrade payload recorded")
    nev, nseg, st = tc.validate(chk, "serde", "tx/Serde_Trace.tla", tr, tag="C06", class_fn=_serde_class)
    chk.add("trace_states_total", st)
    for e in [x for x in events if x.get("ev") == "RT"][:1] + [x for x in events if x.get("ev") == "PolDe"][5:6] + \
            [x for x in events if x.get("ev") == "Upgrade"][:1]:
        chk.sample(tc._short(e, 500))
    # ---- binding self-test ----
    _selftest(chk, "serde", "tx/Serde_Trace.tla", tr, tc.corrupt_hex_field(["postcard", "calc", "built"]))
    keys = set()
    for e in events:
        ev = e.get("ev")
        if ev in ("PolSer", "PolDe"):
            keys.add((ev, e.get("fmt"), e["bits"], tuple(e["vals"])))
        elif ev in ("BytesSer", "BytesDe"):
            keys.add((ev, e.get("fmt"), e["data"]))
        elif ev == "RT":
            keys.add((ev, e["type"], e["kind"], e["fmt"], e.get("orig")))
        elif ev == "Upgrade":
            keys.add((ev, e.get("tag"), e["built"]))
    chk.set("evaluations", nev + summ["steps"])
    chk.set("distinct_nontrivial", len(keys) + npol)
    chk.set("policy_masks_in_transactions", len(txmasks - {64}))
    chk.set("cases_covered", len(cases))
    chk.set("rule", RULES["C06"])
    chk.set("exhaustive", False)
    os.remove(beh)
    chk.assumptions.extend([
        "SHA-256 is evaluated by java.security.MessageDigest inside TLC (override of VerifHash!SHA256)",
        "outside Policies and Bytes the oracle is the round-trip / reproducibility law evaluated by TLC on projections logged from the "
        "implementation (canonical bytes of transactions and receipts, Debug text of consensus parameters), not an independent wire format",
        "unset policy slots hold 0 (the public API cannot construct anything else)",
        "long projections are compared through a SHA-256 digest computed by the harness (plumbing)",
    ])


def _c07(chk, tier):
    thorough = tier == "thorough"
    vlib.harness_build(BIN)
    maxlen = 4 if thorough else 3
    dump = os.path.join(vlib.WORK, "C07_mc.out")
    res = tc.model_check(chk, "tx/Compression_MC.tla", constants={"MaxLen": maxlen, "EmitReplay": "TRUE"},
                         need_actions=["ATxWrap", "ATxEvict", "ATxSkip", "ATxReuse", "ATxOther"], dump_out=dump, tag="C07_mc",
                         workers=4, timeout=2400)
    beh = os.path.join(vlib.WORK, "C07_beh.ndjson")
    nbeh = tc.extract_replay(dump, beh)
    os.remove(dump)
    if nbeh == 0:
        raise ToolError("no histories emitted by the model")
    chk.set("model", dict(spec="tx/Compression_MC.tla", MaxLen=maxlen, starts=[0, 16777213], alphabet=8, distinct_states=res.distinct,
                          invariants=["RegOk", "LastResolves", "SameValueSameKey", "DistinctValuesDistinctKeys", "TableFacts"]))
    # ---- Leg R: every history on the real code; a sample of them also becomes a trace ----
    outp = os.path.join(vlib.WORK, "C07_replay.ndjson")
    rtr = os.path.join(vlib.WORK, "C07_rtrace.ndjson")
    every = max(1, nbeh // (700 if thorough else 220))
    vlib.vh(["replay", "compress", beh, "-o", outp, "--trace", rtr, "--trace-every", every], bin=BIN, timeout=2400)
    summ = _report_replay(chk, "compress", "C07", outp, nbeh)
    chk.add("behaviours_replayed", nbeh)
    chk.add("replay_steps", summ["steps"])
    with open(beh) as f:
        first = json.loads(f.readline())
    chk.sample({"history": dict(cfg=first["cfg"], steps=[dict(tx=s["tx"], calls=s["calls"]) for s in first["steps"][:2]])})
    os.remove(beh)
    # ---- Leg T ----
    tr = os.path.join(vlib.WORK, "C07_trace.ndjson")
    vlib.vh(["record", "compress", "--tier", tier, "-o", tr], bin=BIN)
    events = vlib.read_ndjson(tr)
    revents = vlib.read_ndjson(rtr)
    kinds = {e.get("kind") for e in events if e.get("ev") == "Tx"}
    if kinds != {"Script", "Create", "Mint", "Upgrade", "Upload", "Blob"}:
        raise ToolError("recorded kinds: %s" % sorted(kinds))
    ivars = {i["v"] for e in events if e.get("ev") == "Tx" for i in e["orig"]["inputs"]}
    ovars = {i["v"] for e in events if e.get("ev") == "Tx" for i in e["orig"]["outputs"]}
    if len(ivars) != 7 or len(ovars) != 5:
        raise ToolError("variants recorded: inputs %s outputs %s" % (sorted(ivars), sorted(ovars)))
    nev1, nseg1, st1 = tc.validate(chk, "compress", "tx/Compression_Trace.tla", rtr, tag="C07r", class_fn=_compress_class)
    nev2, nseg2, st2 = tc.validate(chk, "compress", "tx/Compression_Trace.tla", tr, tag="C07t", class_fn=_compress_class)
    chk.add("states", st1 + st2)
    chk.add("transitions", st1 + st2)
    for e in [x for x in events if x.get("ev") == "Tx"][3:4]:
        chk.sample(dict(kind=e["kind"], calls=e["calls"], reg=e["reg"], id_orig=e["id_orig"], id_dec=e["id_dec"],
                        outputs_orig=e["orig"]["outputs"][:2], outputs_dec=e["dec"]["outputs"][:2]))
    _selftest(chk, "compress", "tx/Compression_Trace.tla", tr, tc.corrupt_hex_field(["id_dec"]))
    keys = set()
    wrapped = evicted = 0
    for e in events + revents:
        if e.get("ev") != "Tx":
            continue
        keys.add((e["kind"], tuple(i["v"] for i in e["orig"]["inputs"]), tuple(i["v"] for i in e["orig"]["outputs"]),
                  tuple((c["ks"], c["k"]) for c in e["calls"])))
        if any(c["k"] == 16777214 for c in e["calls"]):
            wrapped += 1
    chk.set("evaluations", nev1 + nev2 + summ["steps"])
    chk.set("distinct_nontrivial", len(keys) + nbeh)
    chk.set("transactions_using_last_writable_key", wrapped)
    chk.set("rule", RULES["C07"])
    chk.set("exhaustive", False)
    chk.assumptions.extend([
        "the registry table and its eviction policy are the harness context's (the repo ships only RegistryKey, the traits and the derive "
        "macros); its key arithmetic is RegistryKey::next / as_u32 / try_from / DEFAULT_VALUE of the repo",
        "the context holds the same referenced data at decompression time (coin and message info stored per transaction, as the repo's test does)",
        "IdPreserved is checked by comparing the two ids computed by the implementation, not by recomputing the id in TLC",
        "long byte strings are compared through a SHA-256 digest computed by the harness (plumbing)",
    ])


def run(pid, tier):
    body = _c06 if pid == "C06" else _c07
    return vlib.run_check(lambda chk: body(chk, tier), pid, LEVEL[pid], tier)
