"""C18 — fee and refund arithmetic (spec/tx/Fee*.tla, harness vh_fee)."""
import json
import os
import re

import tracecheck as tc
import vlib
from vlib import ToolError, log

SPEC_MC = "tx/Fee_MC.tla"
SPEC_TR = "tx/Fee_Trace.tla"
BIN = "vh_fee"

G = ["0", "1", "2", "4294967296", "9223372036854775808", "18446744073709551614", "18446744073709551615"]


def _set(xs):
    return "{" + ", ".join('"%s"' % x for x in xs) + "}"


MC_CONSTANTS = {
    "quick": {
        "Grid": _set(G),
        "FeeGridKinds": _set(["Script"]),
        "FeeGridSgl": _set(["9223372036854775808"]),
        "GasScheds": _set(["default", "mixed", "huge"]),
        "GasGpb": _set(["63", "18446744073709551615"]),
        "GasVals": _set(["0", "1000", "18446744073709551615"]),
        "GasSgl": _set(["0", "1000000"]),
        "WlModes": _set(["zero", "below", "at", "above", "max"]),
        "EmitReplay": "TRUE",
    },
    "thorough": {
        "Grid": _set(G),
        "FeeGridKinds": _set(["Script", "Create", "Upgrade", "Upload", "Blob"]),
        "FeeGridSgl": _set(["0", "1", "9223372036854775808"]),
        "GasScheds": _set(["default", "unit", "mixed", "mixed_v1", "huge"]),
        "GasGpb": _set(["0", "1", "63", "4294967296", "18446744073709551615"]),
        "GasVals": _set(["0", "1", "1000", "18446744073709551615"]),
        "GasSgl": _set(["0", "1000000"]),
        "WlModes": _set(["zero", "below", "at", "above", "far", "max"]),
        "EmitReplay": "TRUE",
    },
}

RULE = ("model: TLC evaluates the Fee specification (exact BigNat arithmetic) on (a) the full boundary grid "
        "{0,1,2,2^32,2^63,2^64-2,2^64-1}^5 over (min gas, price, factor>=1, tip, fee limit) with all 7 grid values as used gas, "
        "realised by one-predicate transactions under the free schedule, and (b) every structural shape (5 kinds x signed inputs "
        "sharing witnesses / predicates / payload witness in and out of range / absent policies) x named schedules x "
        "gas_per_byte x witness limit below/at/above the witness size x declared gas, checking MinGas<=MaxGas, MinFee<=MaxFee, "
        "refund<=limit and antitone at every point; every point is replayed into the real code comparing min_gas, max_gas, "
        "min_fee, max_fee, 7 refunds, TransactionFee::checked_from_tx and Checked::into_ready accept/reject. "
        "traces: seeded random transactions of all kinds x 3 parameter situations (default/unit/free/randomised schedules of "
        "all 7 enum versions), every result validated by TLC. distinct = distinct replay points with a non-zero max fee + "
        "distinct (kind, schedule, min_gas, max_gas, min_fee, max_fee) tuples with non-zero max fee in the traces")

PROPERTIES = ["C18"]
MANIFEST = {
    "C18": dict(category="model_checking",
                technique="TLA+ specification of the fee formulas with exact integers (BigNat) model-checked by TLC on a boundary "
                          "grid; TLC-predicted values for grid points x real transaction shapes replayed into fuel-tx/fuel-vm; "
                          "recorded results of seeded random transactions/parameters/schedules validated by TLC",
                text="spec/tx/Fee.tla defines Resolve, MinGas/MaxGas for the five chargeable kinds, GasToFee = ceil(gas*price/"
                     "factor), MinFee/MaxFee (+tip), Refund and the acceptance conditions of checked_from_tx / into_ready from "
                     "the FuelVM specification and the doc comments, in exact arithmetic. Fee_MC checks the order, bound and "
                     "antitonicity theorems on the boundary grid and emits every point with predicted observations; vh_fee "
                     "builds the real transactions, measures the abstract quantities, calls Chargeable::{min_gas,max_gas,"
                     "min_fee,max_fee,refund_fee}, TransactionFee::checked_from_tx and Checked::into_ready under catch_unwind "
                     "and compares. Fee_Trace validates every logged result of random runs; a host panic matches no action.",
                note="u64 gas results are the exact sum clamped to 2^64-1 (documented saturation); refund equality is claimed "
                     "only where min_gas + used stays within u64 (elsewhere: no panic, <= limit, non-increasing). Transaction "
                     "size is measured from the real serialisation, not re-derived (C01 covers the wire format). "
                     "units_per_gas = 0 schedules are outside the quantifier.",
                design_ref="4/C18"),
}


def _coverage_from_dump(dump):
    cov = {}
    rx = re.compile(r"^<(\w+) line \d+, col \d+ to line \d+, col \d+ of module (\w+)>: (\d+):(\d+)")
    with open(dump, errors="replace") as f:
        for ln in f:
            if ln.startswith("<"):
                m = rx.match(ln)
                if m:
                    cov[m.group(1)] = (int(m.group(3)), int(m.group(4)))
    return cov


def _bump_decimal(evkinds):
    """binding self-test mutator: add 1 to a logged decimal result of one of the given event kinds"""
    def m(events, rng):
        cands = [i for i, e in enumerate(events) if e.get("ev") in evkinds and isinstance(e.get("v"), str) and e["v"].isdigit()]
        if not cands:
            return None
        i = rng.choice(cands)
        events[i]["v"] = str(int(events[i]["v"]) + 1)
        return i
    return m


def _trace_distinct(events):
    keys = set()
    cur = None
    vals = {}
    for e in events:
        ev = e.get("ev")
        if ev == "Tx":
            cur = (e.get("kind"), e.get("sched"))
            vals = {}
        elif ev in ("MinGas", "MaxGas", "MinFee", "MaxFee"):
            vals[ev] = e.get("v")
            if ev == "MaxFee" and cur and vals.get("MaxFee") not in (None, "0"):
                keys.add(cur + (vals.get("MinGas"), vals.get("MaxGas"), vals.get("MinFee"), vals.get("MaxFee")))
    return keys


def run(pid, tier):
    def body(chk):
        thorough = tier == "thorough"
        vlib.harness_build(BIN)
        # ---- the structural family: real transactions, measured ----
        shapes = os.path.join(vlib.WORK, "%s_shapes.ndjson" % pid)
        vlib.vh(["shapes", "fee", "--tier", tier, "-o", shapes], bin=BIN)
        nshapes = len(vlib.read_ndjson(shapes)) - 1
        # ---- Leg M (+ generator for Leg R) ----
        dump = os.path.join(vlib.WORK, "%s_mc.out" % pid)
        os.environ["SHAPES"] = shapes
        try:
            res = tc.model_check(chk, SPEC_MC, constants=MC_CONSTANTS[tier], workers=4, dump_out=dump, tag=pid + "_mc",
                                 timeout=1500, xmx="6g")
        finally:
            os.environ.pop("SHAPES", None)
        cov = _coverage_from_dump(dump)
        for a in ("AShape", "APoint"):
            if cov.get(a, (0, 0))[1] == 0:
                raise ToolError("vacuous model run: action %s never taken" % a)
        chk.set("model", dict(spec=SPEC_MC, shapes=nshapes, distinct_states=res.distinct, constants=MC_CONSTANTS[tier],
                              invariants=["ArithThms", "PointThms"]))
        # ---- Leg R ----
        beh = os.path.join(vlib.WORK, "%s_beh.ndjson" % pid)
        nbeh = tc.extract_replay(dump, beh)
        os.remove(dump)
        if nbeh == 0:
            raise ToolError("no points emitted by the model")
        outp = os.path.join(vlib.WORK, "%s_replay.ndjson" % pid)
        vlib.vh(["replay", "fee", beh, "--shapes", shapes, "-o", outp], bin=BIN)
        rs = vlib.read_ndjson(outp)
        summ = [r for r in rs if "summary" in r]
        if not summ or summ[0]["summary"]["behaviours"] != nbeh:
            raise ToolError("replay did not process all points")
        seen = set()
        for r in rs:
            if "mismatch" in r:
                if r["mismatch"] in ("abstract-transaction", "schedule"):
                    raise ToolError("replay binding broken (%s): %s" % (r["mismatch"], json.dumps(r)[:1500]))
                cls = "fee/replay/%s/%s" % (r["mismatch"], r.get("kind"))
                if cls in seen:
                    continue
                seen.add(cls)
                rp = os.path.join(vlib.WORK, "%s_mismatch_%d.json" % (pid, len(seen)))
                with open(rp, "w") as f:
                    json.dump(r, f)
                chk.violation(cls, rp, dict(leg="R", expected=r["expected"], observed=r["observed"],
                                            point={k: r["point"][k] for k in ("sid", "sched", "sub", "gpb", "factor", "price")}))
        chk.add("behaviours_replayed", nbeh)
        chk.add("replay_steps", summ[0]["summary"]["steps"])
        pts = set()
        nz = 0
        with open(beh) as f:
            for i, ln in enumerate(f):
                b = json.loads(ln)
                if i in (0, nbeh // 2, nbeh - 1):
                    chk.sample({"replay_point": {k: b[k] for k in ("sid", "sched", "sub", "gpb", "factor", "price", "exp")}})
                if b["exp"]["max_fee"] != "0":
                    pts.add(json.dumps([b[k] for k in ("sid", "sched", "sub", "gpb", "factor", "price")], sort_keys=True))
        os.remove(beh)
        # ---- Leg T ----
        tr = os.path.join(vlib.WORK, "%s_trace.ndjson" % pid)
        vlib.vh(["record", "fee", "--tier", tier, "-o", tr], bin=BIN)
        events = vlib.read_ndjson(tr)
        nev, nseg, st = tc.validate(chk, "fee", SPEC_TR, tr, tag=pid, timeout=2400, xmx="8g")
        chk.add("states", st)
        chk.add("transitions", st)
        for e in events[1:4]:
            chk.sample(tc._short(e, 700))
        # ---- binding self-test ----
        tc.selftest_corrupt(chk, "fee", SPEC_TR, tr, _bump_decimal(("MinGas", "MaxGas", "MinFee", "MaxFee")))
        chk.set("evaluations", nev + chk.cov.get("replay_steps", 0))
        chk.set("distinct_nontrivial", len(pts) + len(_trace_distinct(events)))
        chk.set("rule", RULE)
        chk.set("exhaustive", False)
        chk.assumptions.extend([
            "BigNat operators are evaluated by java.math.BigInteger inside TLC (override of spec/lib/BigNat.tla)",
            "the metered size of a transaction is measured as the length of its real canonical serialisation (wire format is C01's subject)",
            "Checked<Tx> for arbitrary fee situations is obtained from a valid carrier transaction of the same kind whose inner "
            "transaction is replaced through the test-helpers AsMut (into_ready reads only the transaction)",
            "gas results that exceed u64 are expected clamped to 2^64-1 (saturation documented in fee.rs); refund equality only where "
            "min_gas + used_gas < 2^64",
        ])
    return vlib.run_check(body, pid, "model_checking", tier)
