"""C16 C17 — signatures (spec/crypto/K1Backends*.tla, SigScheme*.tla; harness vh_crypto).

Level: exploration.  TLC decides nothing about curve arithmetic.  What the TLA+ side contributes:
  C16  the class lattice of 64-byte signatures (defined on the raw bytes), a model of each backend's
       acceptance pipeline, Agree evaluated by TLC on every (class, operation) pair (Leg M), the class
       table the harness must realise on BOTH real backends (Leg R), and the trace specification that
       re-derives every class label from the bytes with exact BigNat arithmetic and demands
       real-vs-real agreement event by event (Leg T).
  C17  the ideal signature functionality over histories (Sign / Recover / Verify, normalisation,
       Ed25519 = reference verdict under strict verification plus the TLC-checkable parts of strict
       verification, instruction effects of ECK1 / ECR1 / ED19), model-checked against an abstract
       honest scheme (Leg M) and used to validate recorded histories of the real library and VM (Leg T).
"""
import json
import os
import re

import tracecheck as tc
import vlib
from vlib import ToolError, log

K1_MC = "crypto/K1Backends_MC.tla"
K1_TR = "crypto/K1Backends_Trace.tla"
SIG_MC = "crypto/SigScheme_MC.tla"
SIG_TR = "crypto/SigScheme_Trace.tla"
BIN = "vh_crypto"

RULES = {
    "C16": "TLC enumerates every well-formed (signature class, operation) pair of the K1Backends model "
           "(r in {0, x-coordinate, non-x, >= n} x s in {0, low, high} x recovery bit x {valid for signer with right/wrong bit, "
           "unrelated} x {signed, other message}; operations recover, verify with pk in {signer, other, off-curve, zero, recovered}, "
           "sign with message < n / >= n, public_key); for each pair the harness builds W seeded witnesses (library-signed, "
           "crafted with chosen s via z = s*k - r*d, spliced boundary constants 0, 1, n-1, n, n+1, p-1, p, p+1, 2^255, 2^256-1, "
           "(n-1)/2, (n-1)/2+1, 2^255-1, raw n/p/2^256-1 in the s field) and calls BOTH real backends; evaluations = events "
           "(one input, two backend calls each); distinct = distinct (operation, pk class, TLC-verified signature class, "
           "construction tag) keys; an event is accepted by TLC iff the class derived from the bytes equals the label and both "
           "backends returned the same result",
    "C17": "seeded histories over 10-20 keys and 10-20 messages for secp256k1 (Signature/SecretKey/PublicKey) and secp256r1 "
           "(sign_prehashed/recover): sign, then recover/verify with valid, recovery-bit-flipped, bit-flipped, re-encoded (hex, "
           "bincode, postcard, json, byte conversions, strip-and-restore bit), r=0, swapped, s+1, spliced signatures x same / "
           "pool / bit-flipped message x signer / other honest / bit-flipped / random / recovered public key; Ed25519 cases "
           "(valid, flipped bits in sig/pk/msg, truncated msg, s+L, s constants, small-order A and/or R incl. non-canonical "
           "encodings, spliced R/s) with the dalek verify_strict verdict as oracle; ECK1/ECR1/ED19 run in the VM on the same "
           "inputs with $err preset to 0 or 1 and the destination pre-filled; evaluations = events validated by TLC; distinct = "
           "distinct (event kind, algorithm, input derivation, outcome) keys",
}

PROPERTIES = ["C16", "C17"]
MANIFEST = {
    "C16": dict(category="exploration",
                technique="TLA+ model K1Backends (signature class lattice + each backend's acceptance pipeline) checked by TLC over all "
                          "classes; the TLC-generated class table is realised with concrete witnesses on BOTH real secp256k1 backends "
                          "(hook verif_k1); the recorded results are validated by TLC against K1Backends_Trace (class re-derived from "
                          "the bytes with BigNat arithmetic, real-vs-real agreement required)",
                text="Exploration, honestly: TLC decides nothing about curve arithmetic. TLC enumerates the 223 (class, operation) pairs, "
                     "evaluates Agree on the model (design-level counterexamples: recover with high s, sign with message >= n) and emits "
                     "the class table; vh_crypto builds seeded witnesses for every pair (library-signed, crafted valid signatures with a "
                     "chosen low/high s, spliced r/s boundary constants, both recovery bits, signed/other message) and calls recover, "
                     "verify, sign, public_key of the libsecp256k1 and the k256 backend; TLC accepts an event only if both returned the "
                     "same result (same key / both fail / same bytes). Disagreement of a backend with its model is reported as "
                     "model-drift, never as a violation.",
                note="Known findings on the unchanged tree: crypto/k1/recover/high-s and crypto/k1/sign/msg-ge-n (admitted only in exactly "
                     "that shape by a second TLC pass). Failure kinds are not compared. Witness construction uses 256-bit modular "
                     "arithmetic in the harness; TLC re-checks every label and the ECDSA equation of crafted witnesses.",
                design_ref="4/C16"),
    "C17": dict(category="exploration",
                technique="TLA+ ideal signature functionality SigScheme over histories, model-checked by TLC against an abstract honest "
                          "scheme (admits it, refuses five broken ones); seeded histories recorded from fuel-crypto (k1, r1, ed25519) and "
                          "from ECK1/ECR1/ED19 scripts run in the VM are validated event by event by TLC (SigScheme_Trace)",
                text="Exploration (laws over histories; no curve arithmetic in TLC). Sign must return a normalised signature (1<=r<n, "
                     "1<=s<=(n-1)/2, checked by TLC with BigNat), Recover must return the signer's key for a signed triple and may "
                     "return an honest key only for a signed triple (other message, flipped or tampered signature), Verify for an honest "
                     "key accepts exactly the signed triples modulo the recovery bit, re-encoded signatures are judged as the original, "
                     "the library is a function of its arguments; Ed25519: library verdict = dalek verify_strict verdict (environment "
                     "oracle) and TLC itself enforces s < L, small-order A/R rejected, reference-signed accepted, honest key accepts only "
                     "signed; ECK1/ECR1 must write the library's key or 64 zero bytes and $err 0/1, ED19 $err, with len=0 meaning 32 bytes.",
                note="Messages are 32-byte strings compared literally; the ECDSA-inherent case of two messages congruent mod n is isolated in "
                     "its own segments (classes crypto/sig/{k1,r1}/Recover/msg-congruent-mod-n). The degenerate digest 0 with a key and its "
                     "negative both honest is avoided (forgeable by the scheme itself).",
                design_ref="4/C17"),
}


def _selftest(chk, dom, spec, path, mutate):
    """Binding self-test on a trace that was accepted.  When this run already found violations the trace contains
    rejected segments, a corrupted copy could be rejected at the genuine violation first, and the check fails
    with exit 1 anyway: the self-test is then skipped and recorded as such."""
    if chk.violations:
        chk.set("binding_selftest", dict(skipped="violations present in this run"))
        return
    tc.selftest_corrupt(chk, dom, spec, path, mutate)


# ------------------------------------------------------------------------------------------
# C16
# ------------------------------------------------------------------------------------------
def _k1_verdict(e, res):
    if not res.get("ok"):
        return "fail"
    if e["op"] == "recover":
        return "signer" if res.get("pk") == e["signer"] else "otherkey"
    return "ok"


def k1_class(dom, e):
    """Stable violation class of a rejected C16 event.  The two known findings are named only for
    exactly their shape; anything else in the same region gets a different class."""
    ev = e.get("ev")
    if ev == "K1":
        c = e.get("cls", {})
        s_, p_ = e.get("std", {}), e.get("port", {})
        if e["op"] == "recover" and c.get("rc") == "x" and c.get("sc") == "high" and s_.get("ok") and not p_.get("ok"):
            return "crypto/k1/recover/high-s"
        where = e["op"] if e["op"] == "recover" else "verify-%s" % e.get("pkc")
        return "crypto/k1/%s/r-%s/s-%s/bit-%s" % (where, c.get("rc"), c.get("sc"), c.get("bit"))
    if ev == "K1Sign":
        s_, p_ = e.get("std", {}), e.get("port", {})
        if e.get("mc") == "ge_n" and s_.get("ok") and p_.get("ok") and s_.get("sig") != p_.get("sig"):
            return "crypto/k1/sign/msg-ge-n"
        return "crypto/k1/sign/%s" % e.get("mc")
    if ev == "K1Pub":
        return "crypto/k1/public_key"
    if ev == "HostPanic":
        return "crypto/k1/host-panic/%s" % e.get("where")
    return "crypto/k1/%s" % ev


K1_KNOWN_TAGS = {"crypto/k1/recover/high-s": ("high-s", "recover/none/x/high"),
                 "crypto/k1/sign/msg-ge-n": ("sign-ge-n", "sign/ge_n")}


def _k1_selftest_mutation(events, rng):
    """corrupt one observation of one backend: a recovered key, or a verify verdict"""
    cands = [i for i, e in enumerate(events) if e.get("ev") == "K1" and e["std"].get("ok") and e["port"].get("ok")]
    if not cands:
        cands = [i for i, e in enumerate(events) if e.get("ev") == "K1" and not e["std"].get("ok") and not e["port"].get("ok")]
        if not cands:
            return None
        i = rng.choice(cands)
        events[i]["port"]["ok"] = True
        events[i]["port"]["pk"] = "11" * 64
        return i
    i = rng.choice(cands)
    e = events[i]
    if e["op"] == "recover":
        pk = e["port"]["pk"]
        k = rng.randrange(len(pk))
        e["port"]["pk"] = pk[:k] + ("0" if pk[k] != "0" else "1") + pk[k + 1:]
    else:
        e["port"]["ok"] = False
    return i


def run_c16(chk, tier):
    thorough = tier == "thorough"
    vlib.harness_build(BIN)
    # ---- Leg M: all (class, operation) pairs; emits the class table ----
    dump = os.path.join(vlib.WORK, "C16_mc.out")
    res = tc.model_check(chk, K1_MC, constants={"EmitReplay": "TRUE"}, workers=2,
                         need_actions=["Decode", "KeyOp", "StdParse", "StdPk", "StdMath", "PortPk", "PortParse", "PortMath", "PortReverify"],
                         dump_out=dump, tag="C16_mc")
    table_path = os.path.join(vlib.WORK, "C16_classes.ndjson")
    ncls = tc.extract_replay(dump, table_path)
    os.remove(dump)
    if ncls == 0:
        raise ToolError("K1Backends_MC emitted no class table")
    table = vlib.read_ndjson(table_path)
    design_dis = sorted({"%s/%s r=%s s=%s" % (t["op"], t["mc"] if t["op"] == "sign" else t["pkc"], t["cls"]["rc"], t["cls"]["sc"])
                         for t in table if not t["agree"]})
    # TLC on THE property: is Agree an invariant of the design?  (a design-level failure is not a code violation by itself)
    ra = vlib.tlc(K1_MC, cfg="K1Backends_MC_Agree.cfg", workers=1, tag="C16_agree")
    if not ra.ok and ra.invariant_violated != "Agree":
        raise ToolError("TLC failed on the Agree run:\n" + vlib.tlc_fail_text(ra))
    chk.set("model", dict(spec=K1_MC, class_op_pairs=ncls, distinct_states=res.distinct,
                          invariants=["KBTypeOK", "VerdictShape", "AgreeVerify", "AgreePub", "NoForgery", "Complete", "Terminates"],
                          agree_is_invariant_of_design=bool(ra.ok), design_level_disagreements=design_dis))
    log("[C16] model: %d (class, op) pairs; Agree on the design: %s; design-level disagreements: %s" % (
        ncls, "holds" if ra.ok else "VIOLATED", design_dis))
    # ---- Leg R: realise the table on both real backends ----
    evp = os.path.join(vlib.WORK, "C16_events.ndjson")
    vlib.vh(["replay", "k1", table_path, "--tier", tier, "-o", evp], bin=BIN)
    events = vlib.read_ndjson(evp)
    summ = [e for e in events if e.get("ev") == "Summary"]
    if not summ or summ[0]["table_lines"] != ncls:
        raise ToolError("harness did not process the whole class table")
    # every pair of the table must have been realised (vacuity)
    have = set()
    for e in events:
        if e.get("ev") == "K1":
            have.add((json.dumps(e["cls"], sort_keys=True), e["op"], e["pkc"], "na"))
        elif e.get("ev") == "K1Sign":
            have.add((None, "sign", "none", e["mc"]))
        elif e.get("ev") == "K1Pub":
            have.add((None, "public_key", "none", "na"))
    missing = []
    for t in table:
        key = (None if t["op"] in ("sign", "public_key") else json.dumps(t["cls"], sort_keys=True), t["op"], t["pkc"], t["mc"])
        if key not in have:
            missing.append(key)
    if missing:
        raise ToolError("no witness for %d (class, op) pairs, e.g. %s" % (len(missing), missing[:3]))
    # model drift: a real backend disagreeing with ITS model (never a violation; reported)
    drift = {}
    for e in events:
        if e.get("ev") != "K1":
            continue
        for b, f in (("std", "std"), ("portable", "port")):
            real = _k1_verdict(e, e[f])
            if real != e["pred"][b]:
                k = "%s %s/%s r=%s s=%s rel=%s: model %s, real %s" % (b, e["op"], e["pkc"], e["cls"]["rc"], e["cls"]["sc"], e["cls"]["rel"],
                                                                     e["pred"][b], real)
                drift[k] = drift.get(k, 0) + 1
    chk.set("model_drift", drift)
    if drift:
        log("[C16] NOTE model-drift (a real backend differs from its pipeline model; fix the spec): %s" % json.dumps(drift)[:1500])
    # ---- Leg T: TLC decides agreement on the recorded results ----
    # The segments of the classes for which the DESIGN already disagrees (Leg M's counterexamples name them) are
    # validated on their own, equally strictly: a rejection there does not force re-reading the large remainder.
    suspect_parts = set()
    for t in table:
        if not t["agree"]:
            suspect_parts.add("sign/%s" % t["mc"] if t["op"] == "sign" else "%s/%s/%s/%s" % (t["op"], t["pkc"], t["cls"]["rc"], t["cls"]["sc"]))
    segs_all = tc.split_segments(events)
    p_sus = os.path.join(vlib.WORK, "C16_events_suspect.ndjson")
    p_main = os.path.join(vlib.WORK, "C16_events_main.ndjson")
    vlib.write_ndjson(p_sus, [x for s in segs_all if s[0].get("part") in suspect_parts for x in s])
    vlib.write_ndjson(p_main, [x for s in segs_all if s[0].get("part") not in suspect_parts for x in s])
    nev, nseg, st = tc.validate(chk, "k1", K1_TR, p_main, tag="C16", class_fn=k1_class, max_rejections=16)
    if suspect_parts:
        nev1, nseg1, st1 = tc.validate(chk, "k1", K1_TR, p_sus, tag="C16s", class_fn=k1_class, max_rejections=8)
        nev += nev1
        st += st1
    # second pass: segments that ended in a KNOWN class are re-validated with exactly that shape admitted
    redo_tags, redo_parts = [], []
    for cls, (tag, part) in K1_KNOWN_TAGS.items():
        if cls in chk.known_hits:
            redo_tags.append(tag)
            redo_parts.append(part)
    if redo_parts:
        segs = [s for s in tc.split_segments(events) if s[0].get("part") in redo_parts]
        p2 = os.path.join(vlib.WORK, "C16_events_known.ndjson")
        vlib.write_ndjson(p2, [x for s in segs for x in s])
        before = len(chk.violations)
        nev2, nseg2, st2 = tc.validate(chk, "k1", K1_TR, p2, tag="C16k", class_fn=lambda d, e: k1_class(d, e) + "/beyond-known-shape",
                                       env={"K1_KNOWN": ",".join(redo_tags)}, max_rejections=4)
        chk.set("known_shape_pass", dict(classes=redo_tags, events=nev2, new_violations=len(chk.violations) - before))
        nev += nev2
        st += st2
    _selftest(chk, "k1", K1_TR, p_main, _k1_selftest_mutation)
    keys = set()
    ncalls = 0
    for e in events:
        if e.get("ev") == "K1":
            c = e["cls"]
            keys.add((e["op"], e["pkc"], c["rc"], c["sc"], c["bit"], c["rel"], c["bitok"], c["msg"], e.get("tag")))
            ncalls += 1
        elif e.get("ev") in ("K1Sign", "K1Pub"):
            keys.add((e["ev"], e.get("mc"), e["sk"][:2] + e["sk"][-2:]))
            ncalls += 1
    chk.set("evaluations", ncalls)
    chk.set("backend_calls", 2 * ncalls)
    chk.set("distinct_nontrivial", len(keys))
    chk.set("witnesses", summ[0]["witnesses"])
    chk.set("rule", RULES["C16"])
    chk.set("exhaustive", False)
    chk.add("states", st)
    for e in events:
        if e.get("ev") == "K1" and e.get("tag", "").startswith("crafted") and e["cls"]["sc"] == "high" and e["op"] == "recover":
            chk.sample(tc._short({k: e[k] for k in ("op", "cls", "tag", "sig", "m", "std", "port")}, 900))
            break
    for e in events[1:4]:
        chk.sample(tc._short(e, 700))
    chk.assumptions.extend([
        "TLC decides nothing about curve arithmetic: the verdict rests on real-vs-real agreement of the two backends on the recorded inputs",
        "class labels: r/s/bit classes are re-derived by TLC from the bytes (square-root certificates checked mod p; Euler's criterion as fallback); "
        "'valid for the signer' is by construction (library-signed, or crafted and the ECDSA equation re-checked by TLC)",
        "failure kinds (InvalidSignature vs InvalidPublicKey) are not compared: the property says 'same key, or failure'",
        "the hook fuel_crypto::verif_k1 exposes the same two modules the feature flags select",
    ])


# ------------------------------------------------------------------------------------------
# C17
# ------------------------------------------------------------------------------------------
def _how_norm(h):
    return re.sub(r"-\d+", "", h or "")


def sig_class(dom, e):
    ev = e.get("ev")
    if ev == "HostPanic":
        return "crypto/sig/host-panic/%s" % e.get("where")
    alg = e.get("alg") or ("ed" if ev in ("EdVerify", "VmEd") else "?")
    return "crypto/sig/%s/%s/%s" % (alg, ev, _how_norm(e.get("how")) or "-")


def _sig_selftest_mutation(events, rng):
    kinds = []
    rec = [i for i, e in enumerate(events) if e.get("ev") == "Recover" and e.get("ok") and e.get("how") == "valid"]
    vm = [i for i, e in enumerate(events) if e.get("ev") == "VmRecover"]
    ed = [i for i, e in enumerate(events) if e.get("ev") == "EdVerify"]
    vmed = [i for i, e in enumerate(events) if e.get("ev") == "VmEd"]
    ver = [i for i, e in enumerate(events) if e.get("ev") == "Verify" and e.get("how") == "valid" and e.get("ok")]
    for name, c in (("rec", rec), ("vm", vm), ("ed", ed), ("vmed", vmed), ("ver", ver)):
        if c:
            kinds.append((name, c))
    if not kinds:
        return None
    name, c = rng.choice(kinds)
    i = rng.choice(c)
    e = events[i]
    if name == "rec":
        pk = e["pk"]
        k = rng.randrange(len(pk))
        e["pk"] = pk[:k] + ("0" if pk[k] != "0" else "1") + pk[k + 1:]
    elif name in ("vm", "vmed"):
        e["err"] = 1 - e["err"] if e["err"] in (0, 1) else 0
    elif name == "ed":
        e["ok"] = not e["ok"]
    else:
        e["ok"] = False
    return i


def run_c17(chk, tier):
    thorough = tier == "thorough"
    vlib.harness_build(BIN)
    # ---- Leg M ----
    maxlen = 4 if thorough else 3
    res = tc.model_check(chk, SIG_MC, constants={"MaxLen": maxlen}, workers=4,
                         need_actions=["ASign", "ARecover", "AVerify", "AVm"], tag="C17_mc")
    chk.set("model", dict(spec=SIG_MC, MaxLen=maxlen, keys=2, messages=2, distinct_states=res.distinct,
                          invariants=["KeysFunctional", "SignedByHonest", "SignedNormalized", "LibConsistent", "Admits", "Discriminates"]))
    # ---- Leg T ----
    tr = os.path.join(vlib.WORK, "C17_trace.ndjson")
    vlib.vh(["record", "sig", "--tier", tier, "-o", tr], bin=BIN)
    events = vlib.read_ndjson(tr)
    # the dedicated congruent-message segments (see MANIFEST note) are validated on their own, equally strictly,
    # so that a rejection there does not force re-reading the histories
    segs_all = tc.split_segments(events)
    p_main = os.path.join(vlib.WORK, "C17_trace_main.ndjson")
    p_cong = os.path.join(vlib.WORK, "C17_trace_congruent.ndjson")
    vlib.write_ndjson(p_main, [x for s in segs_all if "congruent" not in str(s[0].get("part")) for x in s])
    cong = [x for s in segs_all if "congruent" in str(s[0].get("part")) for x in s]
    nev, nseg, st = tc.validate(chk, "sig", SIG_TR, p_main, tag="C17", class_fn=sig_class, max_rejections=12)
    if cong:
        vlib.write_ndjson(p_cong, cong)
        nev1, nseg1, st1 = tc.validate(chk, "sig", SIG_TR, p_cong, tag="C17c", class_fn=sig_class, max_rejections=6)
        nev += nev1
        st += st1
    _selftest(chk, "sig", SIG_TR, p_main, _sig_selftest_mutation)
    keys = set()
    kinds = {}
    lax_vs_strict = 0
    for e in events:
        ev = e.get("ev")
        if ev in ("Seg", "Key"):
            continue
        kinds[ev] = kinds.get(ev, 0) + 1
        keys.add((ev, e.get("alg"), _how_norm(e.get("how")), e.get("ok"), e.get("err") if ev.startswith("Vm") else None,
                  e.get("len") == 0 if ev == "VmEd" else None))
        if ev == "EdVerify" and e.get("lax") != e.get("strict"):
            lax_vs_strict += 1
    chk.set("evaluations", nev)
    chk.set("distinct_nontrivial", len(keys))
    chk.set("events_by_kind", kinds)
    chk.set("ed25519_cases_where_lax_and_strict_differ", lax_vs_strict)
    chk.set("rule", RULES["C17"])
    chk.set("exhaustive", False)
    chk.add("states", st)
    shown = set()
    for e in events:
        if e.get("ev") in ("Sign", "Recover", "Verify", "EdVerify", "VmRecover", "VmEd") and e["ev"] not in shown:
            shown.add(e["ev"])
            chk.sample(tc._short(e, 700))
    chk.assumptions.extend([
        "TLC decides nothing about curve arithmetic: Recover/Verify are judged against the history of Sign events (ideal functionality)",
        "unforgeability-type rules hold up to negligible probability for the inputs driven (bit flips, splices, re-encodings); no crafted "
        "malleation (r, n-s) is used here (that is C16's high-s class)",
        "Ed25519 oracle = ed25519-dalek verify_strict called by the harness (the property names it); TLC independently enforces s < L, "
        "small-order A/R rejection, acceptance of reference-signed triples, honest keys accept only signed triples",
        "VM effects are observed through receipts (LOG of $err before/after, LOGD of the 64 destination bytes)",
    ])


def run(pid, tier):
    body = {"C16": run_c16, "C17": run_c17}[pid]
    return vlib.run_check(lambda chk: body(chk, tier), pid, "exploration", tier)
