"""C12 C13 C14 — sparse Merkle trees (spec/merkle/SparseMerkle*.tla, harness smt)."""
import json
import os

import tracecheck as tc
import vlib
from vlib import ToolError

SPEC_MC = "merkle/SparseMerkle_MC.tla"
SPEC_TR = "merkle/SparseMerkle_Trace.tla"
EMB = ["high", "low", "spread", "ones"]
PARTS = {"C12": "ops,set", "C13": "ops,load,set,proof", "C14": "ops,proof,verify"}
RULES = {
    "C12": "model-generated: ALL histories of insert/overwrite/delete up to MaxLen over 4 clustered model keys x 4 embeddings into "
           "256-bit keys, replayed into storage-backed and in-memory trees + from_set/root_from_set/nodes_from_set; traces: seeded "
           "histories over a 20-key adversarial pool; distinct = distinct histories (model) + distinct (op, map size) pairs (traces)",
    "C13": "traces: after EVERY operation the storage delta is applied to the spec's store and TLC checks Closed(store, root) and "
           "Leaves(store, root) = Entries(map); reload events (fork of the store: intact / root removed / deeper node removed / empty "
           "root) at random points with the remaining history continued on original and reloaded trees; distinct = distinct (event "
           "kind, outcome, map size) triples",
    "C14": "model: proof scheme soundness/completeness on every map over the model keys (TLC, real SHA-256); replay: oracle proofs "
           "for every model key of every history; traces: verifier verdicts on generated proofs and ~20 structured mutations each; "
           "distinct = distinct (verify kind, mutation tag, verdict, proof length) tuples + model histories",
}


PROPERTIES = ['C12', 'C13', 'C14']
MANIFEST = {
    'C12': dict(category='model_checking',
              technique='TLA+ compact-sparse-Merkle oracle (SparseMerkleRef!RefRoot); TLC enumerates ALL insert/overwrite/delete histories over clustered model keys x 4 embeddings into 256-bit keys, replayed into the real trees; seeded long traces validated by TLC',
              text='Every history up to MaxLen 3/4 over 4 model keys under 4 embeddings (first-bits / 253-bit shared prefix / bits 0,128,255 / all-zero,all-one,last-bit neighbours) is replayed into storage-backed and in-memory trees and the final root compared with RefRoot of the final map, also for from_set / root_from_set / nodes_from_set; traces over a 20-key adversarial pool are validated event by event (root = RefRoot(map) after every op).',
              note='Trusts SHA-256 in TLC and the harness plumbing. Histories bounded (MaxLen), trace keys from a seeded adversarial pool.',
              design_ref='4/C12'),
    'C13': dict(category='model_checking',
              technique="TLC trace validation with the spec's node store: storage deltas of every operation applied to the model store; invariants Closed(store, root) and Leaves(store, root) = Entries(map) evaluated after every event; reloads (intact / root removed / deeper node removed / empty root) at random points of the history",
              text="The harness's observable store logs every node written/removed; SparseMerkle_Trace rebuilds the store and checks after EVERY operation that everything reachable from the root is persisted, hashes to its key and denotes exactly the map; reloaded trees continue the remaining history next to the original and must give oracle roots and proofs; a load with the root node missing must fail; with a deeper node missing every later operation must fail or agree with the oracle.",
              note="Reload points are sampled (seeded), not exhaustive; the in-memory wrapper's store is not observable (root-only checks there).",
              design_ref='4/C13'),
    'C14': dict(category='model_checking',
              technique='TLC model-checks soundness/completeness of the compact-SMT proof scheme (ProofScheme) on every map over clustered model keys with real SHA-256; oracle proofs for every key of every history replayed against generate_proof; real verifier verdicts on ~20 structured mutations per proof validated against the reference verifier in TLC',
              text="Proof kind = inclusion iff present, proof bytes equal the oracle's unique proof, inclusion verifies only with the stored value, exclusion only for absent keys, leaf-claims-key / placeholder<->leaf / other key / altered, reordered, truncated, padded-to-257 proof sets get exactly the reference verdict.",
              note='Mutations are a fixed structured family plus seeded bit flips.',
              design_ref='4/C14'),
}


def _distinct(pid, events):
    keys = set()
    size = {}
    for e in events:
        ev = e.get("ev")
        t = e.get("t")
        if ev in ("Insert", "Delete"):
            size[t] = size.get(t, 0) + (1 if ev == "Insert" else 0)
            keys.add((ev, e.get("ok"), len(e.get("adds", [])), len(e.get("dels", []))))
        elif ev in ("Load", "FromSet", "RootFromSet"):
            keys.add((ev, e.get("ok"), len(e.get("removed", [])), len(e.get("kv", [])), e.get("via")))
        elif ev == "GenProof":
            keys.add((ev, e.get("kind"), e.get("leaf"), len(e.get("proof", []))))
        elif ev in ("VerifyIncl", "VerifyExcl") and pid == "C14":
            keys.add((ev, e.get("tag"), e.get("verdict"), len(e.get("proof", []))))
    return len(keys)


def run(pid, tier):
    def body(chk):
        thorough = tier == "thorough"
        vlib.harness_build("vh_merkle")
        maxlen = 4 if thorough else 3
        nbeh = 0
        # ---- Leg M: proof scheme on all maps (C14; cheap, run for all three as the shared design check) ----
        for emb in EMB:
            res = tc.model_check(chk, SPEC_MC, cfg="SparseMerkle_MC.cfg",
                                 constants={"Embedding": '"%s"' % emb, "NKeys": 4},
                                 need_actions=["AInsert", "ADelete"], tag="%s_mc_%s" % (pid, emb))
        chk.set("model", dict(spec=SPEC_MC, embeddings=EMB, invariant="ProofScheme", keys=4, values=["", "01"]))
        # ---- Leg R: all histories -> real trees ----
        if pid in ("C12", "C14"):
            seen = set()
            for emb in EMB:
                dump = os.path.join(vlib.WORK, "%s_gen_%s.out" % (pid, emb))
                tc.model_check(chk, SPEC_MC, cfg="SparseMerkle_Gen.cfg",
                               constants={"Embedding": '"%s"' % emb, "MaxLen": maxlen, "NKeys": 4},
                               need_actions=["AInsert", "ADelete"], dump_out=dump, tag="%s_gen_%s" % (pid, emb), timeout=3000)
                beh = os.path.join(vlib.WORK, "%s_beh_%s.ndjson" % (pid, emb))
                n = tc.extract_replay(dump, beh)
                os.remove(dump)
                if n == 0:
                    raise ToolError("no behaviours emitted")
                outp = os.path.join(vlib.WORK, "%s_replay_%s.ndjson" % (pid, emb))
                vlib.vh(["replay", "smt", beh, "-o", outp])
                rs = vlib.read_ndjson(outp)
                summ = [r for r in rs if "summary" in r]
                if not summ or summ[0]["summary"]["behaviours"] != n:
                    raise ToolError("replay did not process all behaviours")
                for r in rs:
                    if "mismatch" not in r:
                        continue
                    what = r["mismatch"]
                    is_proof = "proof" in what
                    if (pid == "C12" and is_proof) or (pid == "C14" and not is_proof):
                        continue  # the sibling check owns it
                    cls = "smt/replay/" + what
                    if cls in seen:
                        continue
                    seen.add(cls)
                    rp = os.path.join(vlib.WORK, "%s_mismatch.json" % pid)
                    with open(rp, "w") as f:
                        json.dump(r, f)
                    chk.violation(cls, rp, dict(leg="R", embedding=emb, expected=r["expected"], observed=r["observed"],
                                                behaviour=r["behaviour"]))
                nbeh += n
                chk.add("behaviours_replayed", n)
                chk.add("replay_steps", summ[0]["summary"]["steps"])
                chk.add("replay_queries", summ[0]["summary"]["queries"])
                if emb == "low":
                    with open(beh) as f:
                        for _ in range(30):
                            ln = f.readline()
                        if ln:
                            b = json.loads(ln)
                            chk.sample({"embedding": emb, "steps": b["steps"], "root": b["root"]})
                os.remove(beh)
        # ---- Leg T ----
        tr = os.path.join(vlib.WORK, "%s_trace.ndjson" % pid)
        vlib.vh(["record", "smt", "--tier", tier, "--part", PARTS[pid], "-o", tr])
        events = vlib.read_ndjson(tr)
        nev, nseg, st = tc.validate(chk, "smt", SPEC_TR, tr, tag=pid, timeout=3000)
        chk.add("states", st)
        chk.add("transitions", st)
        for e in events:
            if e.get("ev") in ("Insert", "Load", "VerifyExcl") and len(json.dumps(e)) < 900:
                chk.sample(e, cap=5)
        if pid == "C14":
            mut = tc.flip_bool_field("VerifyExcl", "verdict")
        elif pid == "C13":
            mut = _drop_add
        else:
            mut = tc.corrupt_hex_field(["root"])
        tc.selftest_corrupt(chk, "smt", SPEC_TR, tr, mut, max_events=600)
        chk.set("evaluations", nev + chk.cov.get("replay_steps", 0) + chk.cov.get("replay_queries", 0))
        chk.set("distinct_nontrivial", _distinct(pid, events) + nbeh)
        chk.set("rule", RULES[pid])
        chk.set("exhaustive", False)
        chk.assumptions.extend([
            "SHA-256 evaluated by java MessageDigest inside TLC",
            "collision resistance: the proof for a key is unique, so proofs are compared byte-for-byte with the oracle's",
            "sets passed to from_set/root_from_set/nodes_from_set contain no duplicate keys",
        ])
    return vlib.run_check(body, pid, "model_checking", tier)


def _drop_add(events, rng):
    """C13 self-test: one persisted node of a successful Insert on the never-damaged first tree is stored with a
    wrong child pointer (as if the code had persisted something else than the tree the root denotes)."""
    cands = [i for i, e in enumerate(events) if e.get("ev") == "Insert" and e.get("ok") and not e.get("opaque")
             and e.get("t") == 1 and any(a["hash"] == e["root"] for a in e.get("adds", []))]
    if not cands:
        return None
    i = rng.choice(cands)
    e = events[i]
    for a in e["adds"]:
        if a["hash"] == e["root"]:
            a["hi"] = "00" * 31 + "07"
    return i
