"""C20 — only authorised inputs survive signature and predicate checks
(spec/vm/Predicates*.tla, harness/src/bin/vh_pred.rs)."""
import json
import os

import tracecheck as tc
import vlib
from vlib import ToolError, log

SPEC_MC = "vm/Predicates_MC.tla"
SPEC_TR = "vm/Predicates_Trace.tla"
BIN = "vh_pred"
INVARIANTS = ["CacheSound", "AcceptedImpliesAuthorised", "AuthorisedImpliesAccepted", "SigPhaseSound", "VerdictOrderIndependent",
              "SequentialEqualsParallel", "EstimateThenVerifyOk", "EstimateOrderIndependent", "TamperRejected"]
# glibc: keep the heap top instead of trimming it after every VM memory is dropped (pure speed)
MALLOC = {"MALLOC_TOP_PAD_": 268435456, "MALLOC_TRIM_THRESHOLD_": 1073741824}

RULE = ("model: Predicates_MC enumerates every transaction of 1..MaxIn predicate inputs over 10 outcome variants (authorised; declared gas "
        "one short / one too much; wrong owner; returns zero; returns two; panics; never terminates; second program; need above the "
        "estimation cap) x EVERY completion order of the tasks, in verification and in estimation mode, plus signed/predicate mixes "
        "over 7 witness vectors; one REPLAY line per final state (with 4 inputs: those over the 7 core variants; all 10 variants are "
        "model-checked), each replayed into the real code (check_signatures, "
        "check_predicates, check_predicates_async with the dictated completion order, into_checked, estimate_predicates(_async) "
        "then verification) with the input kinds (coin / message-coin / message-data), memory mode and executor rotated per behaviour. traces: seeded random transactions (5 transaction kinds, 6 input kinds, shared witnesses, garbage "
        "witnesses, signatures over other ids, descriptor and opaque programs, 4 gas schedules, 3 memory modes, lazy and threaded "
        "executors) plus every single-field mutation of accepted transactions. distinct_nontrivial = distinct (abstract "
        "transaction, mode, completion order) behaviours replayed + distinct (event kind, verdict, sub-case) tuples of the traces, "
        "where the sub-case is (mode, memory, executor, number of predicates) for checks and (part, kind, field) for mutations")

PROPERTIES = ["C20"]
MANIFEST = {
    "C20": dict(category="model_checking",
                technique="TLA+ specification Predicates (ideal signatures over the transaction id, abstract predicate outcomes "
                          "<<kind, gas needed>> defined from the instruction set for a program family, CheckSig / SpawnTask / "
                          "CompleteTask in ANY order / Finalize / Estimate) model-checked by TLC for all completion orders of <= 4 "
                          "predicate tasks x all outcome combinations; every TLC behaviour replayed into the real signature and "
                          "predicate checking code with a ParallelExecutor that completes tasks in the dictated order; recorded "
                          "traces of real transactions validated by TLC against the same specification",
                text="Leg M: TLC checks AcceptedImpliesAuthorised, AuthorisedImpliesAccepted, VerdictOrderIndependent, "
                     "SequentialEqualsParallel (verdict and total gas), EstimateThenVerifyOk, TamperRejected and the soundness of the "
                     "recovery cache on every interleaving. Leg R: each final state (abstract transaction, completion order, predicted "
                     "signature verdict / predicate verdict / total gas / per-input estimated gas) is built as a real "
                     "transaction of a rotating kind (Script, Create, Blob, Upload, Upgrade; secp256k1 keys, shared or foreign witnesses, predicate byte code assembled from the descriptor, "
                     "owner = predicate root or a one-bit neighbour, gas schedule configured as the model's) and run through "
                     "FormatValidityChecks::check_signatures, Checked::check_signatures, predicates::check_predicates, "
                     "check_predicates_async (typed and through the Checked<Transaction> wrapper), into_checked(_reusable_memory), "
                     "estimate_predicates(_async) followed by verification; "
                     "verdicts and gas are compared with TLC's, and three signed-content mutations of every accepted transaction "
                     "must fail signature checking. Leg T: seeded random transactions over all six spendable input kinds plus contract "
                     "inputs; the trace specification recomputes key addresses (SHA-256 of the public key), predicate addresses "
                     "(SHA-256 of seed and code root), the byte code of descriptor programs and their gas need from the schedule read "
                     "from the implementation, and requires every logged verdict / gas total / estimated gas to be the specified "
                     "one; every single-field mutation (all fields of the body, policies, inputs, outputs, witnesses, chain id, shape) "
                     "of accepted transactions must change the id and fail signature checking exactly when the field is not in "
                     "TxId.tla's malleable tables.",
                note="Trusted base: SHA-256 / BigNat Java overrides in TLC; harness plumbing (no expected values). Witnesses are ideal "
                     "signatures (a signature recovers to its signer over the signed id and to nobody otherwise; C16/C17 cover the "
                     "primitive). Predicate programs: a descriptor family (NOOP prefix, counted loop, six endings) whose outcome the "
                     "specification defines, and random straight-line programs whose outcome is measured once and must then be "
                     "consistent across transactions, modes, orders, memories and declared gas +-1. Message-data and contract inputs occur in "
                     "Script transactions only (the other kinds forbid them). The "
                     "global (per-transaction) estimation budget and max_gas_per_tx rejection are outside the property and kept "
                     "ample. Which error variant is returned is diagnostic only. Read literally, EstimateThenVerifyOk is "
                     "contradicted by design of the code (estimation never judges the predicate result or the owner): reported "
                     "as classes pred/replay/est_then_verify/*.",
                design_ref="4/C20"),
}


def _cls(r):
    """stable class string of a replay mismatch"""
    k = r["mismatch"]
    d = r.get("detail") if isinstance(r.get("detail"), dict) else {}
    if k == "est_then_verify":
        return "pred/replay/est_then_verify/" + str(d.get("why"))
    if k in ("seq_ok", "par_ok", "full", "est_ok"):
        return "pred/replay/%s/expected=%s" % (k, str(r.get("expected")).lower())
    if k in ("sig", "tamper"):
        return "pred/replay/%s/expected=%s" % (k, r.get("expected"))
    return "pred/replay/" + k


def _replay(chk, pid, profile, maxin, reps, keys):
    dump = os.path.join(vlib.WORK, "%s_mc_%s.out" % (pid, profile))
    res = tc.model_check(chk, SPEC_MC, constants={"MaxIn": maxin, "Profile": '"%s"' % profile, "EmitReplay": "TRUE"},
                         need_actions=["ACheckSig", "ASpawnTask", "ACompleteTask", "Finalize"] + (["Estimate"] if profile == "preds" else []),
                         dump_out=dump, workers=4, tag="%s_mc_%s" % (pid, profile), timeout=2400)
    beh = os.path.join(vlib.WORK, "%s_beh_%s.ndjson" % (pid, profile))
    nbeh = tc.extract_replay(dump, beh)
    os.remove(dump)
    if nbeh == 0:
        raise ToolError("no behaviours emitted by the model (%s)" % profile)
    outp = os.path.join(vlib.WORK, "%s_replay_%s.ndjson" % (pid, profile))
    vlib.vh(["replay", "pred", beh, "-o", outp, "--reps", reps], bin=BIN, timeout=2400, env=MALLOC)
    rs = vlib.read_ndjson(outp)
    summ = [r for r in rs if "summary" in r]
    if not summ or summ[0]["summary"]["behaviours"] != nbeh:
        raise ToolError("replay did not process all behaviours")
    s = summ[0]["summary"]
    seen = set()
    for r in rs:
        if "mismatch" not in r:
            continue
        cls = _cls(r)
        if cls in seen:
            continue
        seen.add(cls)
        rp = os.path.join(vlib.WORK, "%s_mismatch_%s_%d.json" % (pid, profile, len(seen)))
        with open(rp, "w") as f:
            json.dump(r, f)
        chk.violation(cls, rp, dict(leg="R", profile=profile, mismatch=r["mismatch"], expected=r["expected"], observed=r["observed"],
                                    detail=r.get("detail"), ctx=r.get("ctx"), occurrences=s.get("mismatch_counts")))
    chk.add("behaviours_replayed", nbeh)
    chk.add("replay_steps", s["steps"])
    chk.add("replay_accepted_transactions", s["accepted"])
    chk.add("replay_estimates_ok", s["estimates_ok"])
    first = None
    with open(beh) as f:
        for ln in f:
            b = json.loads(ln)
            if first is None and b["order"] and len(b["order"]) > 1:
                first = b
            keys.add(ln.strip())
    if first is not None:
        chk.sample({"behaviour": {"mode": first["mode"], "order": first["order"], "exp": first["exp"],
                                  "inputs": [dict(k=x["k"], **({"prog": x["prog"], "gas": x["gas"], "owner": x["owner"]} if x["k"] == "pred" else {"w": x["w"], "owner": x["owner"]}))
                                             for x in first["tx"]["inputs"]]}})
    os.remove(beh)
    return res


def _trace_keys(events):
    keys = set()
    part, npred = None, 0
    for e in events:
        ev = e.get("ev")
        if ev == "Seg":
            part = e.get("part")
        elif ev == "Tx":
            npred = len([x for x in e["inputs"] if x["k"] == "pred"])
            keys.add(("Tx", e.get("kind"), tuple(sorted((x["k"], x.get("c")) for x in e["inputs"])), len(e["wits"])))
        elif ev == "Mutate":
            keys.add((ev, e.get("sig_ok"), e.get("at"), e.get("kind"), e.get("field")))
        elif ev in ("CheckPred", "CheckPredV", "Estimate", "IntoChecked", "CheckSig"):
            keys.add((ev, e.get("ok"), e.get("mode"), e.get("mem"), e.get("exec"), e.get("via"), e.get("after"), npred, part))
    return keys


def _mut_selftest(events, rng):
    """corrupt one observation: flip a verdict, or move a gas total by one"""
    cands = [i for i, e in enumerate(events) if e.get("ev") in ("CheckPred", "CheckSig", "IntoChecked", "Mutate", "Estimate")]
    if not cands:
        return None
    i = rng.choice(cands)
    e = events[i]
    if e["ev"] == "Mutate":
        e["sig_ok"] = not e["sig_ok"]
    elif e["ev"] == "CheckPred" and e.get("ok") and rng.random() < 0.5:
        e["gas"] = str(int(e["gas"]) + 1)
    elif e["ev"] == "Estimate" and e.get("ok") and any(e["gases"]):
        k = rng.choice([j for j, g in enumerate(e["gases"]) if g])
        e["gases"][k] = str(int(e["gases"][k]) + 1)
    else:
        if e["ev"] == "CheckSig":
            # where the specification leaves the verdict open (wrong predicate owner only) a flip is not a corruption
            prev = [x for x in events[:i] if x.get("ev") == "Tx"]
            if prev and not prev[-1].get("good"):
                return _mut_selftest_fallback(events, rng)
        e["ok"] = not e["ok"]
    return i


def _mut_selftest_fallback(events, rng):
    cands = [i for i, e in enumerate(events) if e.get("ev") in ("CheckPred", "IntoChecked")]
    if not cands:
        return None
    i = rng.choice(cands)
    events[i]["ok"] = not events[i]["ok"]
    return i


def run(pid, tier):
    def body(chk):
        thorough = tier == "thorough"
        vlib.harness_build(BIN)
        keys = set()
        # ---------------- Leg M + Leg R: all completion orders x all outcome combinations ----------------
        import time
        t0 = time.time()
        r1 = _replay(chk, pid, "preds", 4 if thorough else 3, 3 if thorough else 2, keys)
        log("[C20] model + replay 'preds' %.1fs" % (time.time() - t0))
        r2 = _replay(chk, pid, "mixed", 3 if thorough else 2, 3, keys)
        log("[C20] model + replay 'mixed' %.1fs" % (time.time() - t0))
        chk.set("model", dict(spec=SPEC_MC, profiles={"preds": dict(MaxIn=4 if thorough else 3, distinct_states=r1.distinct),
                                                      "mixed": dict(MaxIn=3 if thorough else 2, distinct_states=r2.distinct)},
                              invariants=INVARIANTS))
        # ---------------- Leg T ----------------
        tr = os.path.join(vlib.WORK, "%s_trace.ndjson" % pid)
        vlib.vh(["record", "pred", "--tier", tier, "-o", tr], bin=BIN, timeout=2400, env=MALLOC)
        events = vlib.read_ndjson(tr)
        log("[C20] trace recorded (%d events) %.1fs" % (len(events), time.time() - t0))
        nev, nseg, st = tc.validate(chk, "pred", SPEC_TR, tr, tag=pid, timeout=2400, parallel=4 if thorough else 2)
        log("[C20] trace validated %.1fs" % (time.time() - t0))
        chk.add("states", st)
        chk.add("transitions", st)
        chk.set("host_panics_recorded", len([e for e in events if e.get("ev") == "HostPanic"]))
        chk.set("mutations_checked", len([e for e in events if e.get("ev") == "Mutate"]))
        for want in ("CheckPred", "Mutate", "Estimate"):
            for e in events:
                if e.get("ev") == want and (want != "CheckPred" or (e.get("mode") == "par" and len(e.get("order", [])) > 1)):
                    chk.sample(tc._short(e, 400))
                    break
        # ---------------- binding self-test ----------------
        tc.selftest_corrupt(chk, "pred", SPEC_TR, tr, _mut_selftest, max_events=120)
        chk.set("evaluations", nev + chk.cov.get("replay_steps", 0))
        chk.set("distinct_nontrivial", len(keys) + len(_trace_keys(events)))
        chk.set("rule", RULE)
        chk.set("exhaustive", False)
        chk.assumptions.extend([
            "SHA-256 and exact natural-number arithmetic are evaluated by Java overrides inside TLC",
            "a witness is an ideal signature: it recovers to its signer over the id it was made for and to nobody over any other id",
            "the gas schedule entries (noop, movi, subi, jnzi, ret) are read from the implementation in traces and dictated by the model in replay",
            "the outcome of an opaque (random straight-line) program is measured once, alone, and used as an environment fact",
        ])
    return vlib.run_check(body, pid, "model_checking", tier)
