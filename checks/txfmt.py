"""C01 C02 C03 C04 — the canonical wire format (spec/tx/Canonical.tla, TxFormat.tla, TxId.tla, TxFormat_MC.tla,
TxFormat_Trace.tla; harness/src/bin/vh_txfmt.rs + harness/src/txfmt/)."""
import json
import os
import re

import tracecheck as tc
import vlib
from vlib import ToolError, log

BIN = "vh_txfmt"
SPEC_MC = "tx/TxFormat_MC.tla"
SPEC_TR = "tx/TxFormat_Trace.tla"

INVARIANTS = ["WordAligned", "SizeIsLength", "InDomain", "OffsetsLocate", "ChainsSeparate", "IdCommitsExactly"]

RULES = {
    "C01": "Leg M/R: TLC enumerates the shape space of TxFormat_MC (families: small types; every input variant x every length class "
           "{0,1,7,8,9,16} of every byte vector; outputs and 13 receipt kinds x scalar profiles {0,1,max,distinct bytes}; 5 chargeable "
           "kinds x all 64 policy masks x value profiles; kinds x all ordered pairs (thorough: triples) of the 7 input variants x length "
           "rotations; output pairs; witness counts x lengths; script/script-data length grid; kind-specific bodies; mint; thorough adds "
           "predicate-length grids after every variant, masks x variants, input pairs x output pairs, 3-witness length cube, the full "
           "message-data-predicate length cube) and prints "
           "Enc / Size / SizeS / Strip for each; the harness builds the real value and compares to_bytes, size, size_static, size_dynamic, "
           "decode (consumed, value minus the skip fields), and the encoding with cached metadata. Leg T: seeded factory and generated "
           "values of all 10 types, Encoded events re-derived by TLC. distinct = distinct shape keys (type, kind, policy mask, "
           "variant sequence, every byte-vector length mod 8, scalar profile) over replay lines and trace events",
    "C04": "Leg M/R: for every transaction shape TLC prints the offset of every addressable field (Layout) and checks on the design that "
           "the bytes at each offset are that field's own encoding (OffsetsLocate); the harness queries every offset method of the library "
           "(48 API methods incl. InputRepr/OutputRepr tables, predicate offset + padded length) without metadata and again after "
           "precompute and compares with TLC's values. Leg T: Offsets events of seeded transactions (uncached + cached) re-derived by "
           "OffsetOf. distinct = distinct (api method, transaction kind, path shape, cached) tuples observed + distinct shape keys",
    "C03": "Leg M/R: for a stride of the transaction shapes TLC prints the id under 3 chain ids and, for EVERY content-bearing field "
           "(Layout entry: scalar, array, vector data, vector length, element count, policy mask/value), the mutated transaction, its id "
           "and whether the table calls the field malleable; TLC checks id' = id <=> malleable (IdCommitsExactly) and that chain ids "
           "separate; the harness compares id(), cached_id() after precompute and id() after precompute with TLC's 32 bytes. Leg T: Id "
           "events of seeded transactions and seeded single-leaf mutations under 4 chain ids. distinct = distinct (kind, mutated path "
           "shape, role, malleable) + distinct shape keys of base transactions",
    "C02": "TLC generates, from the Layout of valid encodings (transactions, inputs, outputs, receipts, small types), every truncation at "
           "each field boundary +-1, every length/count word set to {0, n-1, n+1, 2^32, 100MiB, 100MiB+1, 2^63, 2^64-1}, every "
           "discriminant to 12 values, policy masks incl. undefined and high bits, oversized policy values, dirty padding, growth with "
           "trailing bytes; the harness adds seeded byte flips / word overwrites / cuts / word shifts of factory encodings and random "
           "strings. Every string is decoded under catch_unwind; TxFormat_Trace accepts an event iff it is not a panic and, when a value "
           "was returned, size = consumed, re-encoding = Enc(value) computed by TLC, and decoding the re-encoding returns the same value "
           "with the same length. distinct = distinct (type, mutation tag class, outcome, error kind) + distinct accepted value shapes",
}

PROPERTIES = ['C01', 'C02', 'C03', 'C04']
MANIFEST = {
    'C01': dict(category='model_checking',
                technique='TLA+ encoding algebra over schemas-as-values (Canonical.tla) + the Fuel formats as data (TxFormat.tla); TLC enumerates '
                          'the finite shape space and prints the expected bytes/sizes, which are compared with the real encoder/decoder '
                          '(spec->impl); recorded encodings of seeded values are re-derived by TLC (impl->spec)',
                text='Every enumerated shape (all variants x 64 policy masks x byte-vector lengths mod 8 x scalar boundary profiles) is built '
                     'through the public constructors; to_bytes / size / size_static / size_dynamic / decode(consumed, value) and the encoding '
                     'with cached metadata are compared with Enc / Size / SizeS / Strip evaluated by TLC; TLC checks alignment and size = length '
                     'on the design. Seeded TransactionFactory and generator values of all 10 types are validated by TxFormat_Trace.',
                note='Observation: this tree has 5 output kinds and 13 receipt kinds (the property text says 6 / 12); all existing ones are '
                     'enumerated. Policy values: maturity / expiration / owner range over u32 (protocol domain). Known findings: predicate '
                     'variants with an empty predicate and message-data variants with empty data are indistinguishable on the wire (6 classes '
                     'txfmt/roundtrip/Input::<Variant>/<empty vectors>; also: such an input inside a transaction makes the transaction undecodable).',
                design_ref='4/C01'),
    'C02': dict(category='exploration',
                technique='TLA+ Layout of valid encodings generates the adversarial mutation family (spec-generated inputs); the decoding law of '
                          'the property is evaluated by TLC on every recorded decode (impl->spec), with the re-encoding recomputed by the TLA+ Enc',
                text='Mutants at every field boundary (lengths, counts, discriminants, policy bits, padding, truncation +-1, huge counts) plus '
                     'seeded byte-level mutations and random strings are decoded as Transaction / Input / Output / Receipt / small types under '
                     'catch_unwind; TxFormat_Trace rejects a panic, a value whose size differs from the bytes consumed, and a value that is not a '
                     'fixed point of encode/decode.',
                note='The oracle is the stated law (plus Enc recomputed by TLC for accepted values); which strings are accepted is not judged. '
                     'An allocation failure that aborts the process would surface as a tool error, not as a violation.',
                design_ref='4/C02'),
    'C03': dict(category='model_checking',
                technique='TLA+ TxId.tla (malleable-field table, PrepareSign, IdPreimage, SHA-256) computes the actual 32-byte id of every '
                          'enumerated transaction and of every single-field mutation; compared with id()/cached_id() of the real values '
                          '(spec->impl); recorded ids re-derived by TLC (impl->spec)',
                text='For each base shape and each content-bearing field TLC prints the mutated transaction and its id and checks '
                     'id unchanged <=> field malleable; the harness checks id(chain), cached_id() after precompute(chain) and id() after '
                     'precompute against those bytes for 3 chain ids. Seeded transactions and single-leaf mutations are validated as Id events.',
                note='SHA-256 is java MessageDigest inside TLC. id() of a precomputed value asked for another chain id, or after mutation '
                     'through *_mut without re-precompute, is outside the property as read (cache is only claimed right after precompute).',
                design_ref='4/C03'),
    'C04': dict(category='model_checking',
                technique='TLA+ OffsetOf/Layout over the schema gives the position of every field; TLC checks on the design that the bytes at '
                          'each offset are the field encoding, prints all offsets per enumerated shape; compared with every offset method of '
                          'the library with and without cached metadata (spec->impl); recorded offsets re-derived by TLC (impl->spec)',
                text='48 offset methods (field::* traits, InputRepr/OutputRepr tables, Input::predicate_offset/predicate_data_offset, '
                     'inputs_predicate_offset_at) are queried on every enumerated transaction before and after precompute and compared '
                     'with TLC; the real encoding is compared with Enc so an offset equal to TLC\'s points at the field\'s bytes.',
                note='Offsets of fields a variant does not have (e.g. data of a message-coin input) and out-of-range indexes are not compared. '
                     'Upgrade/ConsensusParameters and Create with an invalid witness index cannot be precomputed in Leg R (covered cached in Leg T).',
                design_ref='4/C04'),
}
LEVEL = {"C01": "model_checking", "C02": "exploration", "C03": "model_checking", "C04": "model_checking"}


# ----------------------------------------------------------------------------------------
# Leg M (+ generator): TxFormat_MC without -coverage (coverage bookkeeping over the recursive
# operators exhausts the heap); vacuity is measured on the emitted lines instead.
# ----------------------------------------------------------------------------------------
def _model(chk, pid, thorough, dump):
    base = os.path.join(vlib.SPEC, "tx", "TxFormat_MC.cfg")
    txt = open(base).read()
    for k, v in (("Mode", '"%s"' % pid), ("Thorough", "TRUE" if thorough else "FALSE")):
        txt, n = re.subn(r"(?m)^(\s*%s\s*=\s*).*$" % k, lambda m: m.group(1) + v, txt)
        if n != 1:
            raise ToolError("constant %s not in %s" % (k, base))
    cfg = "TxFormat_MC_%s_%d.gen.cfg" % (pid, os.getpid())
    with open(os.path.join(vlib.SPEC, "tx", cfg), "w") as f:
        f.write(txt)
    try:
        res = vlib.tlc(SPEC_MC, cfg=cfg, workers=4, timeout=1500, xmx="8g", dump_out=dump, tag=pid + "_mc")
    finally:
        os.remove(os.path.join(vlib.SPEC, "tx", cfg))
    if res.invariant_violated:
        raise ToolError("model %s violates %s at design level:\n%s" % (SPEC_MC, res.invariant_violated, vlib.tlc_fail_text(res, 80)))
    if not res.ok:
        raise ToolError("TLC failed on %s:\n%s" % (SPEC_MC, vlib.tlc_fail_text(res)))
    chk.add("states", res.distinct)
    chk.add("transitions", res.generated)
    chk.add("model_states", res.distinct)
    return res


def _vacuity(pid, thorough, lines):
    fams = {}
    muts = 0
    for ln in lines:
        fams[ln["f"]] = fams.get(ln["f"], 0) + 1
        if "m" in ln:
            muts += 1
    need = set(range(1, 19)) - (set() if thorough else {11, 12, 16, 17, 18})
    if pid in ("C04", "C03"):
        need -= {1, 2, 3, 4}
    missing = sorted(need - set(fams))
    if missing:
        raise ToolError("vacuous model run: families %s produced no line (mode %s)" % (missing, pid))
    if pid in ("C03", "C02") and muts == 0:
        raise ToolError("vacuous model run: no mutation lines in mode %s" % pid)
    return fams, muts


# ----------------------------------------------------------------------------------------
# shape keys (measured distinct_nontrivial)
# ----------------------------------------------------------------------------------------
def _scalar_class(s):
    if s == "0":
        return "0"
    if s == "1":
        return "1"
    if s in ("255", "65535", "4294967295", "18446744073709551615"):
        return "M"
    return "x"


def _shape(ty, v):
    """Shape of an abstract value: kinds, policy mask, byte-vector lengths mod 8 (0 kept apart), scalar classes."""
    if isinstance(v, str):
        if v == "none":
            return "none"
        if re.fullmatch(r"[0-9]+", v) and len(v) <= 20 and not (len(v) % 2 == 0 and len(v) >= 40):
            return "n" + _scalar_class(v)
        n = len(v) // 2
        return "b%s" % ("0" if n == 0 else str(n % 8) + ("+" if n >= 8 else ""))
    if isinstance(v, list):
        return "[" + ",".join(_shape(ty, x) for x in v) + "]"
    if isinstance(v, dict):
        if "mask" in v and "vals" in v:
            return "P%d" % v["mask"]
        parts = [v.get("kind", "")]
        for k in sorted(v):
            if k in ("kind",):
                continue
            x = v[k]
            if isinstance(x, str) and len(x) == 64 and not k.endswith("data") and k not in ("predicate", "script"):
                continue  # fixed 32-byte arrays carry no shape
            parts.append(k[:3] + "=" + _shape(ty, x))
        return "{" + " ".join(parts) + "}"
    return str(v)


def _degenerate(inp):
    """Which byte vectors of an input value make its variant undecidable on the wire."""
    k = inp.get("kind")
    emp = []
    if k in ("MessageDataSigned", "MessageDataPredicate") and inp.get("data") == "":
        emp.append("data_len=0")
    if k in ("CoinPredicate", "MessageCoinPredicate", "MessageDataPredicate") and inp.get("predicate") == "":
        emp.append("predicate_len=0")
    return "+".join(emp)


def _degenerate_inputs(ty, v):
    ins = [v] if ty == "Input" else (v.get("inputs", []) if ty == "Transaction" and isinstance(v, dict) else [])
    return [(i, x["kind"], _degenerate(x)) for i, x in enumerate(ins) if _degenerate(x)]


def _replay_class(r):
    """Stable class string of a replay mismatch."""
    kind = r["mismatch"]
    ty = r.get("ty")
    degs = _degenerate_inputs(ty, r.get("v") or {})
    if degs and kind in ("roundtrip", "consumed", "decode-error"):
        if kind == "roundtrip":
            m = re.fullmatch(r"(?:\.inputs\.(\d+))?\.kind", r.get("path", ""))
            if m:
                idx = int(m.group(1)) if m.group(1) is not None else 0
                hit = [d for d in degs if d[0] == idx]
                if hit:
                    return "txfmt/roundtrip/Input::%s/%s" % (hit[0][1], hit[0][2])
        else:
            # the undecidable variant decodes as one without variable part: its bytes are left unconsumed (standalone input)
            # and every later element of an enclosing transaction is misaligned
            return "txfmt/roundtrip/Input::%s/%s" % (degs[0][1], degs[0][2])
    if kind == "roundtrip":
        return "txfmt/replay/roundtrip/%s%s" % (ty, re.sub(r"\d+", "N", r.get("path", "")))
    return "txfmt/replay/" + kind


def _replay(chk, pid, beh, nlines):
    outp = os.path.join(vlib.WORK, "%s_replay.ndjson" % pid)
    vlib.vh(["replay", "txfmt", beh, "-o", outp], bin=BIN)
    rs = vlib.read_ndjson(outp)
    summ = [r for r in rs if "summary" in r]
    if not summ or summ[0]["summary"]["lines"] != nlines:
        raise ToolError("replay did not process all lines")
    s = summ[0]["summary"]
    seen = set()
    for r in rs:
        if "mismatch" not in r:
            continue
        if r["mismatch"].startswith("toolerror"):
            raise ToolError("harness/spec plumbing error: %s" % json.dumps(r)[:1500])
        cls = _replay_class(r)
        if cls in seen:
            continue
        seen.add(cls)
        rp = os.path.join(vlib.WORK, "%s_mismatch_%d.json" % (pid, len(seen)))
        with open(rp, "w") as f:
            json.dump(r, f)
        chk.violation(cls, rp, dict(leg="R", mismatch=r["mismatch"], path=r.get("path"), expected=tc._short(r.get("expected"), 600),
                                    observed=tc._short(r.get("observed"), 600), family=r.get("f"), item=r.get("j"),
                                    value=tc._short(r.get("v"), 900)))
    chk.add("behaviours_replayed", nlines)
    chk.add("replay_comparisons", sum(s["checks"].values()))
    chk.set("replay_checks", s["checks"])
    chk.set("replay_mismatch_counts", s["mismatches"])
    if s.get("apis"):
        chk.set("offset_api_methods_exercised", len(s["apis"]))
        chk.set("offset_api_calls", sum(s["apis"].values()))
    chk.set("precompute_refused", s.get("precompute_refused", 0))
    return s


def _trace_class(dom, e):
    parts = ["txfmt", "trace", str(e.get("ev"))]
    if e.get("ev") == "Decoded":
        parts += [str(e.get("type")), str(e.get("out")), str(e.get("tag", "")).split("/")[0]]
    elif e.get("ev") in ("HostPanic", "HostAbort"):
        parts += [str(e.get("where")), str(e.get("type"))]
    else:
        parts += [str(e.get("type", "Transaction"))]
        if e.get("ev") == "Offsets":
            parts.append("cached" if e.get("cached") else "uncached")
    return "/".join(parts)


def _corrupt_offset(events, rng):
    c = [i for i, e in enumerate(events) if e.get("ev") == "Offsets" and e.get("obs")]
    if not c:
        return None
    i = rng.choice(c)
    ob = rng.choice(events[i]["obs"])
    ob["off"] += 8
    return i


def _corrupt_decoded(events, rng):
    c = [i for i, e in enumerate(events) if e.get("ev") == "Decoded" and e.get("out") == "ok"]
    if not c:
        return None
    i = rng.choice(c)
    events[i]["size"] += 8
    return i


def run(pid, tier):
    def body(chk):
        thorough = tier == "thorough"
        vlib.harness_build(BIN)
        W = vlib.WORK
        # ---- Leg M + generator ----
        import time as _t
        t0 = _t.time()
        dump = os.path.join(W, "%s_mc.out" % pid)
        res = _model(chk, pid, thorough, dump)
        log("[%s] model %.1fs" % (pid, _t.time() - t0))
        beh = os.path.join(W, "%s_beh.ndjson" % pid)
        nlines = tc.extract_replay(dump, beh)
        os.remove(dump)
        if nlines == 0:
            raise ToolError("no lines emitted by the model")
        lines = vlib.read_ndjson(beh)
        fams, nmut = _vacuity(pid, thorough, lines)
        chk.set("model", dict(spec=SPEC_MC, mode=pid, thorough=thorough, distinct_states=res.distinct, lines=nlines,
                              lines_per_family=fams, mutation_lines=nmut, invariants=INVARIANTS))
        keys = set()
        part = {"C01": "enc", "C04": "off", "C03": "id", "C02": "dec"}[pid]
        tr = os.path.join(W, "%s_trace.ndjson" % pid)
        # ---- Leg R ----
        if pid in ("C01", "C04", "C03"):
            s = _replay(chk, pid, beh, nlines)
            for ln in lines:
                if pid == "C03" and "path" in ln:
                    keys.add(("mut", ln["v"].get("kind"), re.sub(r"\d+", "N", json.dumps(ln["path"])), ln["role"], ln["malleable"]))
                else:
                    keys.add((ln["ty"], _shape(ln["ty"], ln["v"])))
            chk.sample({"line": tc._short(lines[len(lines) // 2], 700)})
            vlib.vh(["record", "txfmt", "--tier", tier, "--part", part, "-o", tr], bin=BIN)
        else:
            chk.set("spec_generated_mutants", nmut)
            vlib.vh(["record", "txfmt", "--tier", tier, "--part", part, "--mutants", beh, "-o", tr], bin=BIN)
        os.remove(beh)
        log("[%s] replay/record done at %.1fs" % (pid, _t.time() - t0))
        # ---- Leg T ----
        events = vlib.read_ndjson(tr)
        nev, nseg, st = tc.validate(chk, "txfmt", SPEC_TR, tr, tag=pid, class_fn=_trace_class, timeout=2400, xmx="8g")
        chk.add("states", st)
        chk.add("transitions", st)
        log("[%s] trace validated at %.1fs" % (pid, _t.time() - t0))
        for e in events:
            ev = e.get("ev")
            if ev == "Encoded":
                keys.add((e["type"], _shape(e["type"], e["v"])))
            elif ev == "Offsets":
                kind = e["v"].get("kind")
                for ob in e["obs"]:
                    keys.add(("off", ob["api"], kind, re.sub(r"\d+", "N", json.dumps(ob["p"])), e["cached"]))
            elif ev == "Id":
                keys.add(("id", e["v"].get("kind"), e["chain"], re.sub(r"\d+", "N", e.get("mutated", ""))))
            elif ev == "Decoded":
                if e["out"] == "ok":
                    keys.add(("dec", e["type"], _shape(e["type"], e["v"])))
                else:
                    keys.add(("dec", e["type"], re.sub(r"[0-9]+", "N", e.get("tag", "")), e["out"], e.get("err")))
            elif ev == "Stats":
                chk.set("decode_outcomes", {k: e.get(k, 0) for k in ("ok", "err", "panic", "abort")})
        shown = 0
        for e in events:
            if e.get("ev") not in ("Seg", "Stats") and shown < 3:
                chk.sample(tc._short(e, 500))
                shown += 1
        # ---- binding self-test ----
        mut = {"C01": tc.corrupt_hex_field(["bytes"]), "C04": _corrupt_offset, "C03": tc.corrupt_hex_field(["id"]),
               "C02": _corrupt_decoded}[pid]
        if chk.violations:
            # a trace with rejected segments cannot host the self-test (the corrupted segment may already be a rejected one);
            # the run fails with the violations found, which is itself the evidence that the legs bind
            chk.set("binding_selftest", dict(skipped="violations found in this run", passed=None))
        else:
            tc.selftest_corrupt(chk, "txfmt", SPEC_TR, tr, mut, max_events=450)
        chk.set("evaluations", nev + chk.cov.get("replay_comparisons", 0))
        chk.set("distinct_nontrivial", len(keys))
        chk.set("rule", RULES[pid])
        chk.set("exhaustive", False)
        chk.assumptions.extend([
            "SHA-256 is evaluated by java.security.MessageDigest inside TLC (override of VerifHash!SHA256)",
            "policy values range over their protocol domain (maturity, expiration, owner: u32); unset policy slots are zero",
            "the projection real value -> abstract JSON in the harness is field-complete (public accessors only)",
        ])
    return vlib.run_check(body, pid, LEVEL[pid], tier)
