"""C15 — contract and predicate identifiers (spec/tx/Contract*.tla, harness vh_contract)."""
import json
import os

import tracecheck as tc
import vlib
from vlib import ToolError, log

SPEC_MC = "tx/Contract_MC.tla"
SPEC_TR = "tx/Contract_Trace.tla"
BIN = "vh_contract"
LEAF = 16 * 1024

RULE = ("model: one TLC behaviour per (code length x fill pattern x (salt, slot set)) case of Contract_MC, every one "
        "replayed into fuel-tx/fuel-vm with the spec's identifiers written into the transactions; traces: one segment "
        "per code length of the grid with seeded random contents/salts/slots. distinct_nontrivial = number of distinct "
        "(event or step kind, code length, sub-case tag) triples whose observation was compared with a value computed by "
        "the TLA+ specification (code length 0 and empty slot sets are counted, they are boundary cases of the property)")

PROPERTIES = ['C15']
MANIFEST = {
    'C15': dict(category='model_checking',
                technique='TLA+ spec Contract (code root = RFC 6962 root over 16 KiB leaves with 8-byte zero padding of the last leaf, '
                          'state root = compact sparse Merkle root over SHA-256(key), contract id / predicate owner / blob id hashes, '
                          'contract table with Deploy and CROO) model-checked by TLC; every TLC case replayed into fuel-tx and the VM '
                          'with the spec-computed identifiers; recorded traces of the real functions, Create validity, VM deployment, '
                          'CROO and predicate verification validated by TLC against the spec',
                text='Leg M: TLC enumerates code lengths around 0/8/16 KiB boundaries x 3 fill patterns x salts x slot sets (all '
                     'key->value functions over 3 keys for small codes) and checks leaf shape, an unrolled Merkle formulation, known '
                     'answers and that the contract table is keyed by the id. Leg R: for every case the harness compares '
                     'Contract::root_from_code/root/initial_state_root/id, Input::predicate_owner/is_predicate_owner_valid, '
                     'CreateMetadata, BlobId::compute with the TLC values, requires a Create naming exactly the spec id/state root to be '
                     'accepted and 10 near-miss outputs to be refused, deploys it through Transactor::deploy / Interpreter::transact and '
                     'checks the contract and its slots are stored under the spec id, runs CROO in a script and compares the 32 bytes, '
                     'and requires fuel-tx validity and the VM predicate verification (3 input kinds) to accept the spec owner and '
                     'refuse 7 near-miss owners. Leg T: the same observations on seeded random codes for every length of the grid '
                     '(thorough: 0..200 and +-16 around every multiple of 16 KiB up to 64 KiB, plus 80 KiB..100 KiB points) are '
                     'validated event by event by Contract_Trace.',
                note='Trusts java MessageDigest SHA-256 inside TLC and the harness plumbing (no expected values in the harness). '
                     'Code lengths up to contract_max_size of the standard parameters (100 KiB, 7 leaves); slot sets up to 16 slots; '
                     'the VM predicate check is reached by replacing the owner inside a Checked transaction (test-helpers AsMut), '
                     'only the synchronous check_predicates path; estimation (which by design ignores the owner) is not judged.',
                design_ref='4/C15'),
}


def _lens(thorough):
    base = [0, 1, 7, 8, 9, 15, 16, 16383, 16384, 16385, 16392, 32767, 32768, 32769, 49153]
    if not thorough:
        return base
    s = set(base)
    s.update(range(0, 41))
    s.update([63, 64, 65, 127, 128, 129, 200])
    for k in range(1, 5):
        s.update(range(k * LEAF - 9, k * LEAF + 10))
    s.update([5 * LEAF - 1, 5 * LEAF, 5 * LEAF + 1, 5 * LEAF + 8, 6 * LEAF + 4, 100 * 1024 - 7, 100 * 1024])
    return sorted(s)


def _tla_set(xs):
    return "{" + ", ".join(str(x) for x in xs) + "}"


def _trace_keys(events):
    keys = set()
    ln = None
    for e in events:
        ev = e.get("ev")
        if ev == "Seg":
            ln = e.get("len")
            continue
        if ev == "HostPanic":
            continue
        keys.add((ev, ln, e.get("tag") or e.get("via") or "", e.get("kind") or "", len(e.get("slots") or [])))
    return keys


def run(pid, tier):
    def body(chk):
        thorough = tier == "thorough"
        vlib.harness_build(BIN)
        # ---------------- Leg M (+ generator for Leg R) ----------------
        lens = _lens(thorough)
        consts = {"Lens": _tla_set(lens), "EmitReplay": "TRUE",
                  "SmallLens": _tla_set([0, 9, 16385] if thorough else [0, 9])}
        dump = os.path.join(vlib.WORK, "%s_mc.out" % pid)
        res = tc.model_check(chk, SPEC_MC, constants=consts, need_actions=["ACode", "ADeploy", "ACroo"], dump_out=dump,
                             workers=4, tag=pid + "_mc", timeout=2400)
        chk.set("model", dict(spec=SPEC_MC, code_lengths=len(lens), fills=["zero", "ff", "inc"], distinct_states=res.distinct,
                              invariants=["LeavesOk", "UnrolledOk", "PadInsensitive", "KnownAnswers", "DeployedOk", "Separated",
                                          "ChainKeyedMC"]))
        # ---------------- Leg R ----------------
        beh = os.path.join(vlib.WORK, "%s_beh.ndjson" % pid)
        nbeh = tc.extract_replay(dump, beh)
        os.remove(dump)
        if nbeh == 0:
            raise ToolError("no behaviours emitted by the model")
        outp = os.path.join(vlib.WORK, "%s_replay.ndjson" % pid)
        vlib.vh(["replay", "contract", beh, "-o", outp], bin=BIN, timeout=2400)
        rs = vlib.read_ndjson(outp)
        summ = [r for r in rs if "summary" in r]
        if not summ or summ[0]["summary"]["behaviours"] != nbeh:
            raise ToolError("replay did not process all behaviours")
        seen = set()
        for r in rs:
            if "mismatch" in r:
                cls = "contract/replay/" + r["mismatch"]
                if cls in seen:
                    continue
                seen.add(cls)
                rp = os.path.join(vlib.WORK, "%s_mismatch.json" % pid)
                with open(rp, "w") as f:
                    json.dump(r, f)
                chk.violation(cls, rp, dict(leg="R", step=r["step"], case=r.get("case"), expected=r["expected"],
                                            observed=r["observed"]))
        chk.add("behaviours_replayed", nbeh)
        chk.add("replay_steps", summ[0]["summary"]["steps"])
        chk.add("replay_comparisons", summ[0]["summary"]["compared"])
        rkeys = set()
        with open(beh) as f:
            for i, ln in enumerate(f):
                b = json.loads(ln)
                if i == 0:
                    chk.sample({"behaviour": [{k: v for k, v in st.items() if k not in ("bad_outputs", "bad_owners")} for st in b]})
                rkeys.add(("R", b[0]["len"], b[0]["fill"], b[1]["salt"][:2], len(b[1]["slots"]),
                           tuple(sorted((x[0][:2] + x[0][-2:], x[1][:2]) for x in b[1]["slots"]))))
        os.remove(beh)
        # ---------------- Leg T ----------------
        tr = os.path.join(vlib.WORK, "%s_trace.ndjson" % pid)
        vlib.vh(["record", "contract", "--tier", tier, "-o", tr], bin=BIN, timeout=2400)
        events = vlib.read_ndjson(tr)
        nev, nseg, st = tc.validate(chk, "contract", SPEC_TR, tr, tag=pid, timeout=2400)
        chk.add("states", st)
        chk.add("transitions", st)
        for e in events:
            if e.get("ev") in ("Pred", "Croo", "CreateOut", "Id") and len(chk.samples) < 5:
                if not any(isinstance(s, dict) and s.get("ev") == e["ev"] for s in chk.samples):
                    chk.sample(tc._short(e, 500))
        # ---------------- binding self-test ----------------
        # (only meaningful on a trace the specification accepts: a segment that is already rejected at an
        #  earlier event cannot show that the corrupted observation is the one that gets noticed)
        if not chk.violations and not chk.known_hits:
            tc.selftest_corrupt(chk, "contract", SPEC_TR, tr,
                                tc.corrupt_hex_field(["root", "root_obj", "root_perm", "blob", "id", "data", "meta_id"]),
                                max_events=120)
        chk.set("evaluations", nev + summ[0]["summary"]["compared"])
        chk.set("distinct_nontrivial", len(_trace_keys(events)) + len(rkeys))
        chk.set("code_lengths_traced", len({e.get("len") for e in events if e.get("ev") == "Seg"}))
        chk.set("rule", RULE)
        chk.set("exhaustive", False)
        chk.assumptions.extend([
            "SHA-256 is evaluated by java.security.MessageDigest inside TLC (override of VerifHash!SHA256)",
            "the seed 0x4655454C, the 16 KiB leaf size and the 8-byte padding are taken from the FuelVM specification text "
            "(identifiers/contract-id.md, predicate-id.md), not from the code",
            "storage-slot lists have pairwise distinct keys (the property speaks of slot sets; Create requires strictly ascending keys)",
            "ConsensusParameters::standard(), gas price 0",
        ])
    return vlib.run_check(body, pid, "model_checking", tier)
