//! Leg R (spec -> impl): every line printed by TxFormat_MC carries an abstract value and what the
//! specification predicts for it; build the real value and compare every prediction present in `exp`.
use crate::util::*;
use crate::vals::*;
use fuel_tx::Transaction;
use serde_json::{json, Map, Value};
use std::collections::{BTreeMap, HashMap};

/// first difference between an expected JSON value and an observed one; objects are compared on the
/// keys of `exp` only (the specification omits what the format leaves out), arrays element-wise.
fn subset(exp: &Value, obs: &Value, path: &str) -> Option<(String, Value, Value)> {
    match (exp, obs) {
        (Value::Object(e), Value::Object(o)) => {
            // `kind` first: a different variant is the most informative difference
            if let Some(k) = e.get("kind") {
                if o.get("kind") != Some(k) { return Some((format!("{path}.kind"), k.clone(), o.get("kind").cloned().unwrap_or(Value::Null))); }
            }
            for (k, ev) in e {
                match o.get(k) {
                    Some(ov) => if let Some(d) = subset(ev, ov, &format!("{path}.{k}")) { return Some(d); },
                    None => return Some((format!("{path}.{k}"), ev.clone(), Value::Null)),
                }
            }
            None
        }
        (Value::Array(e), Value::Array(o)) => {
            if e.len() != o.len() { return Some((format!("{path}.len"), json!(e.len()), json!(o.len()))); }
            for (i, (ev, ov)) in e.iter().zip(o.iter()).enumerate() {
                if let Some(d) = subset(ev, ov, &format!("{path}.{i}")) { return Some(d); }
            }
            None
        }
        _ => if exp == obs { None } else { Some((path.to_string(), exp.clone(), obs.clone())) },
    }
}

struct Rep {
    out: Out,
    per_kind: HashMap<String, u64>,
    per_key: HashMap<String, u64>,
    checks: BTreeMap<String, u64>,
    apis: BTreeMap<String, u64>,
}
impl Rep {
    fn ck(&mut self, what: &str) { *self.checks.entry(what.to_string()).or_insert(0) += 1; }
    fn mism(&mut self, line: usize, ln: &Value, what: &str, path: &str, exp: Value, obs: Value) {
        *self.per_kind.entry(what.to_string()).or_insert(0) += 1;
        // cap the records written per (kind, path shape, expected variant) so a frequent class cannot hide a rare one
        let shape: String = path.chars().filter(|c| !c.is_ascii_digit()).collect();
        let tagk = format!("{what}|{shape}|{}", if path.ends_with("kind") { exp.to_string() } else { String::new() });
        let c = self.per_key.entry(tagk).or_insert(0);
        *c += 1;
        if *c > 25 { return; }
        self.out.ev(json!({"mismatch": what, "line": line, "ty": ln["ty"], "path": path, "expected": exp, "observed": obs,
                           "v": ln["v"], "f": ln["f"], "j": ln["j"], "m": ln["m"]}));
    }
}

fn key(p: &Value, cls: &str) -> String { format!("{}|{}", p, cls) }

fn check_offsets(rep: &mut Rep, li: usize, ln: &Value, tx: &Transaction, expmap: &HashMap<String, u64>, exppred: &HashMap<u64, (u64, u64)>, cached: bool) {
    let tag = if cached { "offset-cached" } else { "offset" };
    match offsets(tx) {
        Err(msg) => rep.mism(li, ln, &format!("{tag}/host-panic"), "", json!("no panic"), json!(msg)),
        Ok((obs, preds)) => {
            for ob in obs {
                *rep.apis.entry(ob.api.to_string()).or_insert(0) += 1;
                rep.ck(tag);
                match expmap.get(&key(&ob.p, ob.cls)) {
                    None => rep.mism(li, ln, "toolerror/path-not-in-spec", &ob.p.to_string(), Value::Null, json!(ob.off)),
                    Some(e) => if ob.off.map(|x| x as u64) != Some(*e) {
                        rep.mism(li, ln, &format!("{tag}/{}", ob.api), &ob.p.to_string(), json!(e), json!(ob.off));
                    }
                }
            }
            for p in preds {
                rep.ck(tag);
                *rep.apis.entry("inputs_predicate_offset_at".to_string()).or_insert(0) += 1;
                match exppred.get(&(p.i as u64)) {
                    None => rep.mism(li, ln, "toolerror/predicate-not-in-spec", &p.i.to_string(), Value::Null, json!(p.obs)),
                    Some((eo, el)) => if p.obs.map(|(a, b)| (a as u64, b as u64)) != Some((*eo, *el)) {
                        rep.mism(li, ln, &format!("{tag}/inputs_predicate_offset_at"), &format!("inputs.{}.predicate", p.i), json!([eo, el]), json!(p.obs));
                    }
                }
            }
        }
    }
}

pub fn replay(o: &Opts) -> Res<()> {
    let lines = read_lines(o.input.as_ref().expect("input"))?;
    let mut rep = Rep { out: Out::open(&o.out)?, per_kind: HashMap::new(), per_key: HashMap::new(), checks: BTreeMap::new(), apis: BTreeMap::new() };
    let mut refused = 0u64;
    let mut by_ty: BTreeMap<String, u64> = BTreeMap::new();
    for (li, ln) in lines.iter().enumerate() {
        let ty = jstr(ln, "ty");
        *by_ty.entry(ty.clone()).or_insert(0) += 1;
        let exp = &ln["exp"];
        let val = match catch(std::panic::AssertUnwindSafe(|| Val::build(&ty, &ln["v"]))) {
            Ok(v) => v,
            Err(msg) => { rep.mism(li, ln, "toolerror/build", "", Value::Null, json!(msg)); continue; }
        };
        let ob = match val.obs() {
            Ok(ob) => ob,
            Err(msg) => { rep.mism(li, ln, "encode/host-panic", "", json!("no panic"), json!(msg)); continue; }
        };
        // ---- C01: bytes, sizes ----
        if let Some(eb) = exp["bytes"].as_str() {
            rep.ck("bytes");
            if hx(&ob.bytes) != eb { rep.mism(li, ln, "bytes", "", json!(eb), json!(hx(&ob.bytes))); }
        }
        if exp.get("size").is_some() {
            let es = ju64(exp, "size");
            let est = ju64(exp, "size_static");
            rep.ck("size");
            if ob.size as u64 != es { rep.mism(li, ln, "size", "", json!(es), json!(ob.size)); }
            if ob.size_static as u64 != est { rep.mism(li, ln, "size_static", "", json!(est), json!(ob.size_static)); }
            if ob.size_dynamic as u64 != es - est { rep.mism(li, ln, "size_dynamic", "", json!(es - est), json!(ob.size_dynamic)); }
        }
        // ---- C01: decode consumes exactly the encoding and returns the value (minus what the format leaves out) ----
        if exp.get("dec").is_some() {
            rep.ck("roundtrip");
            match Val::decode(&ty, &ob.bytes) {
                Err(msg) => rep.mism(li, ln, "decode/host-panic", "", json!("no panic"), json!(msg)),
                Ok(Err(e)) => rep.mism(li, ln, "decode-error", "", json!("ok"), json!(e)),
                Ok(Ok((dv, consumed))) => {
                    if consumed as u64 != ju64(exp, "size") { rep.mism(li, ln, "consumed", "", exp["size"].clone(), json!(consumed)); }
                    if let Some((p, e, g)) = subset(&exp["dec"], &dv.proj(), "") { rep.mism(li, ln, "roundtrip", &p, e, g); }
                }
            }
            // cached metadata is not part of the encoding
            if let Val::Transaction(tx) = &val {
                let mut t2 = tx.clone();
                match precompute(&mut t2, &chain("0")) {
                    Err(msg) => rep.mism(li, ln, "precompute/host-panic", "", json!("no panic"), json!(msg)),
                    Ok(false) => refused += 1,
                    Ok(true) => {
                        rep.ck("bytes-with-metadata");
                        match Val::Transaction(t2).obs() {
                            Err(msg) => rep.mism(li, ln, "encode/host-panic", "", json!("no panic"), json!(msg)),
                            Ok(o2) => {
                                if hx(&o2.bytes) != jstr(exp, "bytes") { rep.mism(li, ln, "bytes-with-metadata", "", exp["bytes"].clone(), json!(hx(&o2.bytes))); }
                                if o2.size as u64 != ju64(exp, "size") { rep.mism(li, ln, "size-with-metadata", "", exp["size"].clone(), json!(o2.size)); }
                            }
                        }
                    }
                }
            }
        }
        // ---- C04: offsets, without and with metadata ----
        if let (Some(offs), Val::Transaction(tx)) = (exp["offsets"].as_array(), &val) {
            let mut expmap = HashMap::new();
            for e in offs { expmap.insert(key(&e["p"], e["cls"].as_str().unwrap()), ju64(e, "off")); }
            let mut exppred = HashMap::new();
            for e in exp["predicates"].as_array().map(|a| a.as_slice()).unwrap_or(&[]) { exppred.insert(ju64(e, "i"), (ju64(e, "off"), ju64(e, "len"))); }
            check_offsets(&mut rep, li, ln, tx, &expmap, &exppred, false);
            let mut t2 = tx.clone();
            match precompute(&mut t2, &chain("0")) {
                Err(msg) => rep.mism(li, ln, "precompute/host-panic", "", json!("no panic"), json!(msg)),
                Ok(false) => refused += 1,
                Ok(true) => check_offsets(&mut rep, li, ln, &t2, &expmap, &exppred, true),
            }
        }
        // ---- C03: ids ----
        if let (Some(ids), Val::Transaction(tx)) = (exp["ids"].as_array(), &val) {
            let chains = ln["chains"].as_array().expect("chains");
            // one object carried through all chain ids (metadata of the previous chain id is present at each precompute)
            let mut carried = tx.clone();
            for (c, eid) in chains.iter().zip(ids.iter()) {
                if let Ok(true) = precompute(&mut carried, &chain(c.as_str().unwrap())) {
                    rep.ck("cached-id-carried");
                    let eid = eid.as_str().unwrap();
                    if cached_id_of(&carried).as_deref() != Some(eid) { rep.mism(li, ln, "cached-id-carried", &ln["path"].to_string(), json!(eid), json!(cached_id_of(&carried))); }
                }
            }
            for (c, eid) in chains.iter().zip(ids.iter()) {
                let ch = chain(c.as_str().unwrap());
                let eid = eid.as_str().unwrap();
                rep.ck("id");
                match id_of(tx, &ch) {
                    Err(msg) => rep.mism(li, ln, "id/host-panic", "", json!("no panic"), json!(msg)),
                    Ok(got) => if got != eid { rep.mism(li, ln, "id", &ln["path"].to_string(), json!(eid), json!(got)); }
                }
                let mut t2 = tx.clone();
                match precompute(&mut t2, &ch) {
                    Err(msg) => rep.mism(li, ln, "precompute/host-panic", "", json!("no panic"), json!(msg)),
                    Ok(false) => refused += 1,
                    Ok(true) => {
                        rep.ck("cached-id");
                        if cached_id_of(&t2).as_deref() != Some(eid) { rep.mism(li, ln, "cached-id", &ln["path"].to_string(), json!(eid), json!(cached_id_of(&t2))); }
                        match id_of(&t2, &ch) {
                            Err(msg) => rep.mism(li, ln, "id/host-panic", "", json!("no panic"), json!(msg)),
                            Ok(got) => if got != eid { rep.mism(li, ln, "id-after-precompute", &ln["path"].to_string(), json!(eid), json!(got)); }
                        }
                    }
                }
            }
        }
    }
    let mut mk: Map<String, Value> = Map::new();
    for (k, v) in &rep.per_kind { mk.insert(k.clone(), json!(v)); }
    rep.out.ev(json!({"summary": {"lines": lines.len(), "by_type": by_ty, "checks": rep.checks, "apis": rep.apis, "precompute_refused": refused,
                                  "mismatches": mk}}));
    rep.out.finish();
    Ok(())
}
