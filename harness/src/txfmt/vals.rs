//! Typed dispatch over the protocol types + collection of every offset the library reports.
use crate::build;
use crate::proj;
use crate::util::*;
use fuel_tx::{
    field::*, input::InputRepr, policies::Policies as PoliciesV, Cacheable, Input, Output, Receipt, StorageSlot, Transaction, TxPointer,
    UniqueIdentifier, UpgradePurpose, UtxoId, Witness,
};
use fuel_types::canonical::{Deserialize, Serialize};
use fuel_types::ChainId;
use serde_json::{json, Value};

pub const TYPES: [&str; 10] = ["Transaction", "Input", "Output", "Witness", "Policies", "StorageSlot", "UtxoId", "TxPointer", "Receipt", "UpgradePurpose"];

#[derive(Clone)]
pub enum Val {
    Transaction(Transaction),
    Input(Input),
    Output(Output),
    Witness(Witness),
    Policies(PoliciesV),
    StorageSlot(StorageSlot),
    UtxoId(UtxoId),
    TxPointer(TxPointer),
    Receipt(Receipt),
    UpgradePurpose(UpgradePurpose),
}

macro_rules! each {
    ($s:expr, $x:ident => $e:expr) => {
        match $s {
            Val::Transaction($x) => $e,
            Val::Input($x) => $e,
            Val::Output($x) => $e,
            Val::Witness($x) => $e,
            Val::Policies($x) => $e,
            Val::StorageSlot($x) => $e,
            Val::UtxoId($x) => $e,
            Val::TxPointer($x) => $e,
            Val::Receipt($x) => $e,
            Val::UpgradePurpose($x) => $e,
        }
    };
}

pub struct Obs {
    pub bytes: Vec<u8>,
    pub size: usize,
    pub size_static: usize,
    pub size_dynamic: usize,
}

fn dec<T: Deserialize>(b: &[u8]) -> Result<(T, usize), String> {
    let mut buf = b;
    let t = T::decode(&mut buf).map_err(|e| format!("{e:?}"))?;
    Ok((t, b.len() - buf.len()))
}

impl Val {
    pub fn build(ty: &str, v: &Value) -> Val {
        match ty {
            "Transaction" => Val::Transaction(build::transaction(v)),
            "Input" => Val::Input(build::input(v)),
            "Output" => Val::Output(build::output(v)),
            "Witness" => Val::Witness(build::witness(v)),
            "Policies" => Val::Policies(build::policies(v)),
            "StorageSlot" => Val::StorageSlot(build::storage_slot(v)),
            "UtxoId" => Val::UtxoId(build::utxo_id(v)),
            "TxPointer" => Val::TxPointer(build::tx_pointer(v)),
            "Receipt" => Val::Receipt(build::receipt(v)),
            "UpgradePurpose" => Val::UpgradePurpose(build::upgrade_purpose(v)),
            t => panic!("unknown type {t}"),
        }
    }
    pub fn ty(&self) -> &'static str {
        match self {
            Val::Transaction(_) => "Transaction", Val::Input(_) => "Input", Val::Output(_) => "Output", Val::Witness(_) => "Witness",
            Val::Policies(_) => "Policies", Val::StorageSlot(_) => "StorageSlot", Val::UtxoId(_) => "UtxoId", Val::TxPointer(_) => "TxPointer",
            Val::Receipt(_) => "Receipt", Val::UpgradePurpose(_) => "UpgradePurpose",
        }
    }
    pub fn proj(&self) -> Value {
        match self {
            Val::Transaction(x) => proj::transaction(x),
            Val::Input(x) => proj::input(x),
            Val::Output(x) => proj::output(x),
            Val::Witness(x) => proj::witness(x),
            Val::Policies(x) => proj::policies(x),
            Val::StorageSlot(x) => proj::storage_slot(x),
            Val::UtxoId(x) => proj::utxo_id(x),
            Val::TxPointer(x) => proj::tx_pointer(x),
            Val::Receipt(x) => proj::receipt(x),
            Val::UpgradePurpose(x) => proj::upgrade_purpose(x),
        }
    }
    /// encode and ask the value for its sizes (each call under catch: a panic is data)
    pub fn obs(&self) -> Result<Obs, String> {
        catch(std::panic::AssertUnwindSafe(|| {
            each!(self, x => Obs { bytes: x.to_bytes(), size: x.size(), size_static: x.size_static(), size_dynamic: x.size_dynamic() })
        }))
    }
    /// Err(panic message) | Ok(Err(decode error)) | Ok(Ok((value, consumed)))
    pub fn decode(ty: &str, b: &[u8]) -> Result<Result<(Val, usize), String>, String> {
        catch(std::panic::AssertUnwindSafe(|| match ty {
            "Transaction" => dec::<Transaction>(b).map(|(v, n)| (Val::Transaction(v), n)),
            "Input" => dec::<Input>(b).map(|(v, n)| (Val::Input(v), n)),
            "Output" => dec::<Output>(b).map(|(v, n)| (Val::Output(v), n)),
            "Witness" => dec::<Witness>(b).map(|(v, n)| (Val::Witness(v), n)),
            "Policies" => dec::<PoliciesV>(b).map(|(v, n)| (Val::Policies(v), n)),
            "StorageSlot" => dec::<StorageSlot>(b).map(|(v, n)| (Val::StorageSlot(v), n)),
            "UtxoId" => dec::<UtxoId>(b).map(|(v, n)| (Val::UtxoId(v), n)),
            "TxPointer" => dec::<TxPointer>(b).map(|(v, n)| (Val::TxPointer(v), n)),
            "Receipt" => dec::<Receipt>(b).map(|(v, n)| (Val::Receipt(v), n)),
            "UpgradePurpose" => dec::<UpgradePurpose>(b).map(|(v, n)| (Val::UpgradePurpose(v), n)),
            t => panic!("unknown type {t}"),
        }))
    }
}

// ------------------------------------------------------------------------------------------------
// offsets
// ------------------------------------------------------------------------------------------------
pub struct OffObs {
    pub api: &'static str,
    pub p: Value,          // path: JSON array of field names / 0-based indexes
    pub cls: &'static str, // at | data | elems | elem | vals
    pub off: Option<usize>,
}
pub struct PredObs {
    pub i: usize,
    pub obs: Option<(usize, usize)>,
}

fn o(out: &mut Vec<OffObs>, api: &'static str, p: Value, cls: &'static str, off: Option<usize>) {
    out.push(OffObs { api, p, cls, off });
}

fn input_fields(out: &mut Vec<OffObs>, idx: usize, base: Option<usize>, i: &Input) {
    let r: InputRepr = i.repr();
    let ab = |rel: Option<usize>| -> Option<usize> { match (base, rel) { (Some(b), Some(r)) => Some(b + r), _ => None } };
    let is_msg = i.is_message();
    let is_coin = i.is_coin();
    if i.utxo_id().is_some() { o(out, "input.utxo_id_offset", json!(["inputs", idx, "utxo_id"]), "at", ab(r.utxo_id_offset())); }
    if i.input_owner().is_some() {
        o(out, "input.owner_offset", json!(["inputs", idx, if is_msg { "recipient" } else { "owner" }]), "at", ab(r.owner_offset()));
    }
    if is_coin { o(out, "input.asset_id_offset", json!(["inputs", idx, "asset_id"]), "at", ab(r.asset_id_offset())); }
    if i.tx_pointer().is_some() { o(out, "input.tx_pointer_offset", json!(["inputs", idx, "tx_pointer"]), "at", ab(r.tx_pointer_offset())); }
    if i.is_contract() {
        o(out, "input.contract_balance_root_offset", json!(["inputs", idx, "balance_root"]), "at", ab(r.contract_balance_root_offset()));
        o(out, "input.contract_state_root_offset", json!(["inputs", idx, "state_root"]), "at", ab(r.contract_state_root_offset()));
        o(out, "input.contract_id_offset", json!(["inputs", idx, "contract_id"]), "at", ab(r.contract_id_offset()));
    }
    if is_msg {
        o(out, "input.message_sender_offset", json!(["inputs", idx, "sender"]), "at", ab(r.message_sender_offset()));
        o(out, "input.message_recipient_offset", json!(["inputs", idx, "recipient"]), "at", ab(r.message_recipient_offset()));
        o(out, "input.message_nonce_offset", json!(["inputs", idx, "nonce"]), "at", ab(r.message_nonce_offset()));
    }
    if i.input_data().is_some() { o(out, "input.data_offset", json!(["inputs", idx, "data"]), "data", ab(r.data_offset())); }
    if i.input_predicate().is_some() {
        o(out, "input.predicate_offset", json!(["inputs", idx, "predicate"]), "data", ab(i.predicate_offset()));
        o(out, "input.predicate_data_offset", json!(["inputs", idx, "predicate_data"]), "data", ab(i.predicate_data_offset()));
    }
}

fn output_fields(out: &mut Vec<OffObs>, idx: usize, base: Option<usize>, x: &Output) {
    let r = x.repr();
    let ab = |rel: Option<usize>| -> Option<usize> { match (base, rel) { (Some(b), Some(r)) => Some(b + r), _ => None } };
    if x.to().is_some() {
        o(out, "output.to_offset", json!(["outputs", idx, "to"]), "at", ab(r.to_offset()));
        o(out, "output.asset_id_offset", json!(["outputs", idx, "asset_id"]), "at", ab(r.asset_id_offset()));
    }
    if x.is_contract() {
        o(out, "output.contract_balance_root_offset", json!(["outputs", idx, "balance_root"]), "at", ab(r.contract_balance_root_offset()));
        o(out, "output.contract_state_root_offset", json!(["outputs", idx, "state_root"]), "at", ab(r.contract_state_root_offset()));
    }
    if x.is_contract_created() {
        o(out, "output.contract_id_offset", json!(["outputs", idx, "contract_id"]), "at", ab(r.contract_id_offset()));
        o(out, "output.contract_created_state_root_offset", json!(["outputs", idx, "state_root"]), "at", ab(r.contract_created_state_root_offset()));
    }
}

fn chargeable<T: Inputs + Outputs + Witnesses + fuel_tx::field::Policies>(tx: &T, out: &mut Vec<OffObs>, preds: &mut Vec<PredObs>) {
    o(out, "policies_offset", json!(["policies"]), "vals", Some(tx.policies_offset()));
    o(out, "inputs_offset", json!(["inputs"]), "elems", Some(tx.inputs_offset()));
    o(out, "outputs_offset", json!(["outputs"]), "elems", Some(tx.outputs_offset()));
    o(out, "witnesses_offset", json!(["witnesses"]), "elems", Some(tx.witnesses_offset()));
    for (idx, i) in tx.inputs().iter().enumerate() {
        let base = tx.inputs_offset_at(idx);
        o(out, "inputs_offset_at", json!(["inputs", idx]), "elem", base);
        input_fields(out, idx, base, i);
        if i.input_predicate().is_some() { preds.push(PredObs { i: idx, obs: tx.inputs_predicate_offset_at(idx) }); }
    }
    for (idx, x) in tx.outputs().iter().enumerate() {
        let base = tx.outputs_offset_at(idx);
        o(out, "outputs_offset_at", json!(["outputs", idx]), "elem", base);
        output_fields(out, idx, base, x);
    }
    for idx in 0..tx.witnesses().len() {
        o(out, "witnesses_offset_at", json!(["witnesses", idx]), "elem", tx.witnesses_offset_at(idx));
    }
}

/// every offset the library reports for this transaction (using cached metadata iff the value carries it)
pub fn offsets(t: &Transaction) -> Result<(Vec<OffObs>, Vec<PredObs>), String> {
    catch(std::panic::AssertUnwindSafe(|| {
        let mut out = vec![];
        let mut preds = vec![];
        match t {
            Transaction::Script(tx) => {
                o(&mut out, "script_gas_limit_offset", json!(["script_gas_limit"]), "at", Some(tx.script_gas_limit_offset()));
                o(&mut out, "receipts_root_offset", json!(["receipts_root"]), "at", Some(tx.receipts_root_offset()));
                o(&mut out, "script_offset", json!(["script"]), "data", Some(tx.script_offset()));
                o(&mut out, "script_data_offset", json!(["script_data"]), "data", Some(tx.script_data_offset()));
                chargeable(tx, &mut out, &mut preds);
            }
            Transaction::Create(tx) => {
                o(&mut out, "bytecode_witness_index_offset", json!(["bytecode_witness_index"]), "at", Some(tx.bytecode_witness_index_offset()));
                o(&mut out, "salt_offset", json!(["salt"]), "at", Some(tx.salt_offset()));
                o(&mut out, "storage_slots_offset_static", json!(["storage_slots"]), "elems", Some(fuel_tx::Create::storage_slots_offset_static()));
                for idx in 0..tx.storage_slots().len() {
                    o(&mut out, "storage_slots_offset_at", json!(["storage_slots", idx]), "elem", tx.storage_slots_offset_at(idx));
                }
                chargeable(tx, &mut out, &mut preds);
            }
            Transaction::Upgrade(tx) => {
                o(&mut out, "upgrade_purpose_offset", json!(["purpose"]), "at", Some(fuel_tx::field::UpgradePurpose::upgrade_purpose_offset(tx)));
                chargeable(tx, &mut out, &mut preds);
            }
            Transaction::Upload(tx) => {
                o(&mut out, "bytecode_root_offset", json!(["root"]), "at", Some(tx.bytecode_root_offset()));
                o(&mut out, "bytecode_witness_index_offset", json!(["witness_index"]), "at", Some(tx.bytecode_witness_index_offset()));
                o(&mut out, "subsection_index_offset", json!(["subsection_index"]), "at", Some(tx.subsection_index_offset()));
                o(&mut out, "subsections_number_offset", json!(["subsections_number"]), "at", Some(tx.subsections_number_offset()));
                o(&mut out, "proof_set_offset", json!(["proof_set"]), "elems", Some(tx.proof_set_offset()));
                for idx in 0..tx.proof_set().len() {
                    o(&mut out, "proof_set_offset_at", json!(["proof_set", idx]), "elem", tx.proof_set_offset_at(idx));
                }
                chargeable(tx, &mut out, &mut preds);
            }
            Transaction::Blob(tx) => {
                o(&mut out, "blob_id_offset", json!(["id"]), "at", Some(tx.blob_id_offset()));
                o(&mut out, "bytecode_witness_index_offset", json!(["witness_index"]), "at", Some(tx.bytecode_witness_index_offset()));
                chargeable(tx, &mut out, &mut preds);
            }
            Transaction::Mint(tx) => {
                o(&mut out, "tx_pointer_offset", json!(["tx_pointer"]), "at", Some(fuel_tx::field::TxPointer::tx_pointer_offset(tx)));
                o(&mut out, "input_contract_offset", json!(["input_contract"]), "at", Some(tx.input_contract_offset()));
                o(&mut out, "output_contract_offset", json!(["output_contract"]), "at", Some(tx.output_contract_offset()));
                o(&mut out, "mint_amount_offset", json!(["mint_amount"]), "at", Some(tx.mint_amount_offset()));
                o(&mut out, "mint_asset_id_offset", json!(["mint_asset_id"]), "at", Some(tx.mint_asset_id_offset()));
                o(&mut out, "gas_price_offset", json!(["gas_price"]), "at", Some(tx.gas_price_offset()));
            }
        }
        (out, preds)
    }))
}

pub fn chain(s: &str) -> ChainId { ChainId::new(s.parse::<u64>().expect("chain id")) }

/// precompute under catch: Ok(true) computed, Ok(false) the library refused (validity error), Err panic
pub fn precompute(t: &mut Transaction, c: &ChainId) -> Result<bool, String> {
    catch(std::panic::AssertUnwindSafe(|| t.precompute(c).is_ok()))
}
pub fn id_of(t: &Transaction, c: &ChainId) -> Result<String, String> { catch(std::panic::AssertUnwindSafe(|| hx(t.id(c)))) }
pub fn cached_id_of(t: &Transaction) -> Option<String> { t.cached_id().map(hx) }
