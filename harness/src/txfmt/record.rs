//! Leg T (impl -> spec): drive the real code with seeded values and log what it returns; TLC
//! (TxFormat_Trace) recomputes encodings / offsets / ids from the logged abstract values and
//! evaluates the decoding law.  Parts: enc (C01), off (C04), id (C03), dec (C02).
use crate::build;
use crate::proj;
use crate::util::*;
use crate::vals::*;
use fuel_tx::{
    field::*, policies::Policies as PoliciesV, test_helper::TransactionFactory, Blob, ConsensusParameters, Create, Input, Mint, Output,
    Receipt, Script, ScriptExecutionResult, Transaction, UpgradePurpose, Upgrade, Upload, UtxoId, TxPointer, Witness,
};
use fuel_types::canonical::Serialize;
use rand::{rngs::StdRng, Rng};
use serde_json::{json, Value};

// ------------------------------------------------------------------------------------------------
// seeded generators
// ------------------------------------------------------------------------------------------------
/// byte vector with a boundary-biased length (every class mod 8 around multiples of 8)
fn bvec(rng: &mut StdRng, nonempty: bool) -> Vec<u8> {
    let base = [0usize, 8, 16, 24, 64][rng.gen_range(0..5)];
    let delta = rng.gen_range(0..9) as isize - 1; // -1 ..= 7
    let mut len = (base as isize + delta).max(0) as usize;
    if nonempty && len == 0 { len = rng.gen_range(1..10); }
    (0..len).map(|_| rng.gen::<u8>()).collect()
}
fn word(rng: &mut StdRng) -> u64 {
    match rng.gen_range(0..6) { 0 => 0, 1 => 1, 2 => u64::MAX, 3 => u32::MAX as u64 + rng.gen_range(0..2), _ => rng.gen() }
}
fn half(rng: &mut StdRng) -> u16 { match rng.gen_range(0..5) { 0 => 0, 1 => 1, 2 => u16::MAX, _ => rng.gen() } }

fn gen_input(rng: &mut StdRng) -> Input {
    match rng.gen_range(0..7) {
        0 => Input::coin_signed(rng.gen(), rng.gen(), word(rng), rng.gen(), rng.gen(), half(rng)),
        1 => Input::coin_predicate(rng.gen(), rng.gen(), word(rng), rng.gen(), rng.gen(), word(rng), bvec(rng, true), bvec(rng, false)),
        2 => Input::contract(rng.gen(), rng.gen(), rng.gen(), rng.gen(), rng.gen()),
        3 => Input::message_coin_signed(rng.gen(), rng.gen(), word(rng), rng.gen(), half(rng)),
        4 => Input::message_coin_predicate(rng.gen(), rng.gen(), word(rng), rng.gen(), word(rng), bvec(rng, true), bvec(rng, false)),
        5 => Input::message_data_signed(rng.gen(), rng.gen(), word(rng), rng.gen(), half(rng), bvec(rng, true)),
        _ => Input::message_data_predicate(rng.gen(), rng.gen(), word(rng), rng.gen(), word(rng), bvec(rng, true), bvec(rng, true), bvec(rng, false)),
    }
}
fn gen_output(rng: &mut StdRng) -> Output {
    match rng.gen_range(0..5) {
        0 => Output::coin(rng.gen(), word(rng), rng.gen()),
        1 => Output::contract(half(rng), rng.gen(), rng.gen()),
        2 => Output::change(rng.gen(), word(rng), rng.gen()),
        3 => Output::variable(rng.gen(), word(rng), rng.gen()),
        _ => Output::contract_created(rng.gen(), rng.gen()),
    }
}
fn gen_policies(rng: &mut StdRng) -> PoliciesV {
    let mask: u32 = rng.gen_range(0..64);
    let mut p = PoliciesV::new();
    if mask & 1 != 0 { p = p.with_tip(word(rng)); }
    if mask & 2 != 0 { p = p.with_witness_limit(word(rng)); }
    if mask & 4 != 0 { p = p.with_maturity((word(rng) as u32).into()); }
    if mask & 8 != 0 { p = p.with_max_fee(word(rng)); }
    if mask & 16 != 0 { p = p.with_expiration((word(rng) as u32).into()); }
    if mask & 32 != 0 { p = p.with_owner(word(rng) as u32 as u64); }
    p
}
fn gen_receipt(rng: &mut StdRng) -> Receipt {
    let data = |rng: &mut StdRng| if rng.gen_bool(0.5) { Some(bvec(rng, false)) } else { None };
    match rng.gen_range(0..13) {
        0 => Receipt::call(rng.gen(), rng.gen(), word(rng), rng.gen(), word(rng), word(rng), word(rng), word(rng), word(rng)),
        1 => Receipt::ret(rng.gen(), word(rng), word(rng), word(rng)),
        2 => { let d = data(rng); Receipt::return_data_with_len(rng.gen(), word(rng), word(rng), rng.gen(), word(rng), word(rng), d) }
        3 => {
            let pi = fuel_asm::PanicInstruction::error(fuel_asm::PanicReason::from(rng.gen::<u8>()), rng.gen());
            let cid = if rng.gen_bool(0.5) { Some(rng.gen()) } else { None };
            Receipt::panic(rng.gen(), pi, word(rng), word(rng)).with_panic_contract_id(cid)
        }
        4 => Receipt::revert(rng.gen(), word(rng), word(rng), word(rng)),
        5 => Receipt::log(rng.gen(), word(rng), word(rng), word(rng), word(rng), word(rng), word(rng)),
        6 => { let d = data(rng); Receipt::log_data_with_len(rng.gen(), word(rng), word(rng), word(rng), word(rng), rng.gen(), word(rng), word(rng), d) }
        7 => Receipt::transfer(rng.gen(), rng.gen(), word(rng), rng.gen(), word(rng), word(rng)),
        8 => Receipt::transfer_out(rng.gen(), rng.gen(), word(rng), rng.gen(), word(rng), word(rng)),
        9 => Receipt::script_result(ScriptExecutionResult::from(match rng.gen_range(0..5) { 0 => 0, 1 => 1, 2 => 2, 3 => 3, _ => word(rng) }), word(rng)),
        10 => { let d = data(rng); Receipt::message_out_with_len(rng.gen(), rng.gen(), word(rng), rng.gen(), word(rng), rng.gen(), d) }
        11 => Receipt::mint(rng.gen(), rng.gen(), word(rng), word(rng), word(rng)),
        _ => Receipt::burn(rng.gen(), rng.gen(), word(rng), word(rng), word(rng)),
    }
}
fn gen_purpose(rng: &mut StdRng) -> UpgradePurpose {
    if rng.gen_bool(0.5) { UpgradePurpose::ConsensusParameters { witness_index: half(rng), checksum: rng.gen() } }
    else { UpgradePurpose::StateTransition { root: rng.gen() } }
}
/// small transaction of a random kind, mixed inputs / outputs / witnesses, boundary-biased vector lengths
fn gen_tx(rng: &mut StdRng) -> Transaction {
    let ni = rng.gen_range(0..4);
    let no = rng.gen_range(0..4);
    let nw = rng.gen_range(0..3);
    let ins: Vec<Input> = (0..ni).map(|_| gen_input(rng)).collect();
    let outs: Vec<Output> = (0..no).map(|_| gen_output(rng)).collect();
    let mut wits: Vec<Witness> = (0..nw).map(|_| bvec(rng, false).into()).collect();
    let pol = gen_policies(rng);
    match rng.gen_range(0..7) {
        0 => {
            let mut tx = Transaction::script(word(rng), bvec(rng, false), bvec(rng, false), pol, ins, outs, wits);
            *tx.receipts_root_mut() = rng.gen();
            tx.into()
        }
        1 => {
            if wits.is_empty() { wits.push(bvec(rng, false).into()); }
            let ns = rng.gen_range(0..3);
            Transaction::create(0, pol, rng.gen(), (0..ns).map(|_| rng.gen()).collect(), ins, outs, wits).into()
        }
        2 => Transaction::mint(rng.gen(), rng.gen(), rng.gen(), word(rng), rng.gen(), word(rng)).into(),
        3 => Transaction::upgrade(UpgradePurpose::StateTransition { root: rng.gen() }, pol, ins, outs, wits).into(),
        4 => Transaction::upgrade_consensus_parameters(&ConsensusParameters::standard(), pol, ins, outs, wits).expect("upgrade tx").into(),
        5 => {
            let np = [0usize, 1, 3][rng.gen_range(0..3)];
            let body = fuel_tx::UploadBody { root: rng.gen(), witness_index: half(rng), subsection_index: half(rng), subsections_number: half(rng),
                                             proof_set: (0..np).map(|_| rng.gen()).collect() };
            Transaction::upload(body, pol, ins, outs, wits).into()
        }
        _ => Transaction::blob(fuel_tx::BlobBody { id: rng.gen(), witness_index: half(rng) }, pol, ins, outs, wits).into(),
    }
}
/// transactions of the repo's own TransactionFactory (kind chosen by k)
fn factory_tx(seed: u64, k: usize) -> Transaction {
    match k % 6 {
        0 => TransactionFactory::<_, Script>::from_seed(seed).transaction().into(),
        1 => TransactionFactory::<_, Create>::from_seed(seed).transaction().into(),
        2 => TransactionFactory::<_, Mint>::from_seed(seed).transaction().into(),
        3 => TransactionFactory::<_, Upgrade>::from_seed(seed).transaction().into(),
        4 => TransactionFactory::<_, Upload>::from_seed(seed).transaction().into(),
        _ => TransactionFactory::<_, Blob>::from_seed(seed).transaction().into(),
    }
}
/// the same transaction without cached metadata (metadata is never decoded)
fn strip_metadata(t: &Transaction) -> Transaction { build::transaction(&proj::transaction(t)) }

/// the degenerate shapes the wire format cannot tell apart (reported exhaustively by Leg R): keep them out of the traces
fn degenerate_input(i: &Input) -> bool {
    i.input_predicate().map(|p| p.is_empty()).unwrap_or(false) || i.input_data().map(|d| d.is_empty()).unwrap_or(false)
}
fn degenerate(t: &Transaction) -> bool {
    match t {
        Transaction::Script(x) => x.inputs().iter().any(degenerate_input),
        Transaction::Create(x) => x.inputs().iter().any(degenerate_input),
        Transaction::Upgrade(x) => x.inputs().iter().any(degenerate_input),
        Transaction::Upload(x) => x.inputs().iter().any(degenerate_input),
        Transaction::Blob(x) => x.inputs().iter().any(degenerate_input),
        Transaction::Mint(_) => false,
    }
}

fn tx_stream(o: &Opts, salt: u64, n: usize) -> Vec<(String, Transaction)> {
    let mut rng = o.rng(salt);
    let mut v = vec![];
    for k in 0..n {
        let t = if k % 3 == 0 { ("factory".to_string(), factory_tx(rng.gen(), k / 3)) } else { ("gen".to_string(), gen_tx(&mut rng)) };
        // the factory's upload / blob payload witnesses reach hundreds of KiB; they add time in TLC, not shapes
        if !degenerate(&t.1) && t.1.size() <= 12_000 { v.push(t); }
    }
    v
}

// ------------------------------------------------------------------------------------------------
// events
// ------------------------------------------------------------------------------------------------
fn encoded_event(out: &mut Out, src: &str, val: &Val) {
    let ty = val.ty();
    match val.obs() {
        Err(msg) => out.ev(json!({"ev": "HostPanic", "where": "encode", "type": ty, "v": val.proj(), "msg": msg})),
        Ok(ob) => {
            let dec = match Val::decode(ty, &ob.bytes) {
                Err(msg) => json!({"out": "panic", "msg": msg}),
                Ok(Err(e)) => json!({"out": "err", "err": e}),
                Ok(Ok((dv, consumed))) => json!({"out": "ok", "consumed": consumed, "v": dv.proj()}),
            };
            out.ev(json!({"ev": "Encoded", "type": ty, "src": src, "v": val.proj(), "bytes": hx(&ob.bytes), "size": ob.size,
                          "size_static": ob.size_static, "size_dynamic": ob.size_dynamic, "dec": dec}));
        }
    }
}

fn parts_of(t: &Transaction) -> Vec<Val> {
    let mut v = vec![];
    fn common<T: Inputs + Outputs + Witnesses + fuel_tx::field::Policies>(tx: &T, v: &mut Vec<Val>) {
        v.push(Val::Policies(*tx.policies()));
        for i in tx.inputs() {
            v.push(Val::Input(i.clone()));
            if let Some(u) = i.utxo_id() { v.push(Val::UtxoId(*u)); }
            if let Some(p) = i.tx_pointer() { v.push(Val::TxPointer(*p)); }
        }
        for x in tx.outputs() { v.push(Val::Output(*x)); }
        for w in tx.witnesses() { v.push(Val::Witness(w.clone())); }
    }
    match t {
        Transaction::Script(x) => common(x, &mut v),
        Transaction::Create(x) => { common(x, &mut v); for s in x.storage_slots() { v.push(Val::StorageSlot(s.clone())); } }
        Transaction::Upgrade(x) => { common(x, &mut v); v.push(Val::UpgradePurpose(*fuel_tx::field::UpgradePurpose::upgrade_purpose(x))); }
        Transaction::Upload(x) => common(x, &mut v),
        Transaction::Blob(x) => common(x, &mut v),
        Transaction::Mint(x) => { v.push(Val::TxPointer(*fuel_tx::field::TxPointer::tx_pointer(x))); }
    }
    v
}

fn part_enc(o: &Opts, out: &mut Out) {
    let n = if o.thorough() { 3000 } else { 150 };
    for (k, (src, t)) in tx_stream(o, 11, n).into_iter().enumerate() {
        if k % 50 == 0 { out.ev(json!({"ev": "Seg", "part": "enc"})); }
        // with cached metadata (factory values carry it) and without
        encoded_event(out, &src, &Val::Transaction(t.clone()));
        if k % 4 == 0 { encoded_event(out, &format!("{src}-nometa"), &Val::Transaction(strip_metadata(&t))); }
        if k % 5 == 0 { for p in parts_of(&t) { if !matches!(&p, Val::Input(i) if degenerate_input(i)) { encoded_event(out, "part", &p); } } }
    }
    // LONG vectors of structured elements (hundreds to thousands of witnesses / storage slots / outputs / inputs / proof
    // nodes): the element count on the wire is the count of elements decoded, whatever a decoder pre-allocates
    {
        let mut rng = o.rng(13);
        out.ev(json!({"ev": "Seg", "part": "enc"}));
        let pol = PoliciesV::new().with_max_fee(1);
        let nw = if o.thorough() { vec![2730usize, 2731, 4100, 8200] } else { vec![2800] };
        for n in nw {
            let wits: Vec<Witness> = (0..n).map(|i| if i % 97 == 0 { vec![i as u8; i % 9].into() } else { Vec::new().into() }).collect();
            let tx: Transaction = Transaction::script(1, vec![], vec![], pol, vec![], vec![], wits).into();
            encoded_event(out, "long-witnesses", &Val::Transaction(tx));
        }
        let ns = if o.thorough() { vec![1024usize, 1025, 2100] } else { vec![1100] };
        for n in ns {
            let mut slots: Vec<fuel_tx::StorageSlot> = (0..n).map(|_| rng.gen()).collect();
            slots.sort();
            let tx: Transaction = Transaction::create(0, pol, rng.gen(), slots, vec![], vec![], vec![vec![1u8, 2, 3].into()]).into();
            encoded_event(out, "long-slots", &Val::Transaction(tx));
        }
        let no = if o.thorough() { vec![819usize, 820, 1700] } else { vec![900] };
        for n in no {
            let outs: Vec<Output> = (0..n).map(|_| gen_output(&mut rng)).collect();
            let tx: Transaction = Transaction::script(2, vec![], vec![], pol, vec![], outs, vec![]).into();
            encoded_event(out, "long-outputs", &Val::Transaction(tx));
        }
        let ni = if o.thorough() { vec![300usize, 700] } else { vec![400] };
        for n in ni {
            let ins: Vec<Input> = (0..n).map(|_| Input::contract(rng.gen(), rng.gen(), rng.gen(), rng.gen(), rng.gen())).collect();
            let tx: Transaction = Transaction::script(3, vec![], vec![], pol, ins, vec![], vec![]).into();
            encoded_event(out, "long-inputs", &Val::Transaction(tx));
        }
        let np = if o.thorough() { vec![2048usize, 2049, 4000] } else { vec![2100] };
        for n in np {
            let body = fuel_tx::UploadBody { root: rng.gen(), witness_index: 0, subsection_index: 1, subsections_number: 2, proof_set: (0..n).map(|_| rng.gen()).collect() };
            let tx: Transaction = Transaction::upload(body, pol, vec![], vec![], vec![vec![7u8; 5].into()]).into();
            encoded_event(out, "long-proof", &Val::Transaction(tx));
        }
    }
    let mut rng = o.rng(12);
    let m = if o.thorough() { 12000 } else { 500 };
    for k in 0..m {
        if k % 100 == 0 { out.ev(json!({"ev": "Seg", "part": "enc"})); }
        let v = match k % 6 {
            0 => Val::Receipt(gen_receipt(&mut rng)),
            1 => Val::Input(gen_input(&mut rng)),
            2 => Val::Output(gen_output(&mut rng)),
            3 => Val::Policies(gen_policies(&mut rng)),
            4 => Val::UpgradePurpose(gen_purpose(&mut rng)),
            _ => match rng.gen_range(0..4) {
                0 => Val::UtxoId(UtxoId::new(rng.gen(), half(&mut rng))),
                1 => Val::TxPointer(TxPointer::new((word(&mut rng) as u32).into(), half(&mut rng))),
                2 => Val::StorageSlot(rng.gen()),
                _ => Val::Witness(bvec(&mut rng, false).into()),
            },
        };
        encoded_event(out, "gen", &v);
    }
}

fn offsets_event(out: &mut Out, src: &str, t: &Transaction, cached: bool) {
    match offsets(t) {
        Err(msg) => out.ev(json!({"ev": "HostPanic", "where": "offsets", "type": "Transaction", "v": proj::transaction(t), "msg": msg})),
        Ok((obs, preds)) => {
            let obsj: Vec<Value> = obs.iter().map(|x| json!({"api": x.api, "p": x.p, "some": x.off.is_some(), "off": x.off.unwrap_or(0)})).collect();
            let predj: Vec<Value> = preds.iter().map(|p| json!({"i": p.i, "some": p.obs.is_some(), "off": p.obs.map(|x| x.0).unwrap_or(0),
                                                                 "len": p.obs.map(|x| x.1).unwrap_or(0)})).collect();
            out.ev(json!({"ev": "Offsets", "src": src, "cached": cached, "v": proj::transaction(t), "obs": obsj, "preds": predj}));
        }
    }
}

/// an in-place change that MOVES fields (script bytes resized across a word boundary, an input inserted in front); metadata is left as it is
fn grow_in_place(t: &mut Transaction, rng: &mut StdRng) -> bool {
    let extra = Input::contract(rng.gen(), rng.gen(), rng.gen(), rng.gen(), rng.gen());
    match t {
        Transaction::Script(x) => { fuel_tx::field::Script::script_mut(x).extend_from_slice(&[0x47u8; 12]); if rng.gen_bool(0.5) { x.inputs_mut().insert(0, extra); } true }
        Transaction::Create(x) => { x.inputs_mut().insert(0, extra); true }
        Transaction::Upgrade(x) => { x.inputs_mut().insert(0, extra); true }
        Transaction::Upload(x) => { x.inputs_mut().insert(0, extra); true }
        Transaction::Blob(x) => { x.inputs_mut().insert(0, extra); true }
        Transaction::Mint(_) => false,
    }
}

fn part_off(o: &Opts, out: &mut Out) {
    let n = if o.thorough() { 3000 } else { 180 };
    for (k, (src, t)) in tx_stream(o, 21, n).into_iter().enumerate() {
        if k % 40 == 0 { out.ev(json!({"ev": "Seg", "part": "off"})); }
        let plain = strip_metadata(&t);
        offsets_event(out, &src, &plain, false);
        let mut c = plain.clone();
        match precompute(&mut c, &chain("0")) {
            Err(msg) => out.ev(json!({"ev": "HostPanic", "where": "precompute", "type": "Transaction", "v": proj::transaction(&plain), "msg": msg})),
            Ok(true) => {
                offsets_event(out, &src, &c, true);
                // the object that CARRIES metadata is changed in place (fields move) and precomputed again: the offsets reported
                // afterwards are those of the new layout
                if k % 3 == 0 {
                    let mut rng = o.rng(2200 + k as u64);
                    if grow_in_place(&mut c, &mut rng) && !degenerate(&c) {
                        if let Ok(true) = precompute(&mut c, &chain("0")) { offsets_event(out, &format!("{src}/re-precomputed"), &c, true); }
                    }
                }
            }
            Ok(false) => {}
        }
    }
}

/// change one leaf of the abstract value (never `kind`, never the policies) and rebuild the real transaction
fn mutate_leaf(rng: &mut StdRng, v: &mut Value) -> Option<String> {
    fn leaves(v: &Value, path: String, acc: &mut Vec<String>) {
        match v {
            Value::Object(m) => for (k, x) in m { if k != "kind" && k != "policies" { leaves(x, format!("{path}/{k}"), acc); } },
            Value::Array(a) => for (i, x) in a.iter().enumerate() { leaves(x, format!("{path}/{i}"), acc); },
            Value::String(_) => acc.push(path),
            _ => {}
        }
    }
    let mut acc = vec![];
    leaves(v, String::new(), &mut acc);
    if acc.is_empty() { return None; }
    let p = acc[rng.gen_range(0..acc.len())].clone();
    let slot = v.pointer_mut(&p)?;
    let s = slot.as_str()?.to_string();
    let is_num = !p.ends_with("_root") && s.len() < 21 && !s.is_empty() && s.chars().all(|c| c.is_ascii_digit()) && {
        // numbers are the decimal-string fields: decide by key name, not by content
        let key = p.rsplit('/').next().unwrap_or("");
        matches!(key, "amount" | "output_index" | "block_height" | "tx_index" | "witness_index" | "predicate_gas_used" | "input_index"
                      | "script_gas_limit" | "bytecode_witness_index" | "subsection_index" | "subsections_number" | "mint_amount" | "gas_price")
    };
    let new = if is_num {
        let x: u64 = s.parse().ok()?;
        (x ^ 1).to_string()
    } else if s.is_empty() {
        "5a".to_string()
    } else {
        let mut b = unhx(&s);
        let k = rng.gen_range(0..b.len());
        b[k] ^= 0x80;
        hx(&b)
    };
    *slot = Value::String(new);
    Some(p)
}

fn id_event(out: &mut Out, src: &str, t: &Transaction, c: &str, mutated: Option<String>) {
    let plain = strip_metadata(t);
    let ch = chain(c);
    let fresh = match id_of(&plain, &ch) { Ok(x) => x, Err(msg) => { out.ev(json!({"ev": "HostPanic", "where": "id", "type": "Transaction", "msg": msg})); return; } };
    let mut cc = plain.clone();
    let (cached, after) = match precompute(&mut cc, &ch) {
        Ok(true) => (cached_id_of(&cc).unwrap_or_else(|| "none".into()), id_of(&cc, &ch).unwrap_or_else(|m| format!("panic:{m}"))),
        Ok(false) => ("refused".to_string(), "refused".to_string()),
        Err(msg) => { out.ev(json!({"ev": "HostPanic", "where": "precompute", "type": "Transaction", "msg": msg})); return; }
    };
    out.ev(json!({"ev": "Id", "src": src, "v": proj::transaction(&plain), "chain": c, "id": fresh, "cached": cached, "after": after,
                  "mutated": mutated.unwrap_or_else(|| "".into())}));
}

/// an in-place change of a signed (non-malleable) field through the public `_mut` accessors; metadata is left as it is
fn bump_in_place(t: &mut Transaction) -> bool {
    fn bump_input(v: &mut Vec<Input>) -> bool {
        for i in v.iter_mut() {
            match i {
                Input::CoinSigned(c) => { c.amount ^= 1; return true }
                Input::CoinPredicate(c) => { c.amount ^= 1; return true }
                Input::MessageCoinSigned(m) => { m.amount ^= 1; return true }
                Input::MessageCoinPredicate(m) => { m.amount ^= 1; return true }
                Input::MessageDataSigned(m) => { m.amount ^= 1; return true }
                Input::MessageDataPredicate(m) => { m.amount ^= 1; return true }
                Input::Contract(_) => {}
            }
        }
        false
    }
    match t {
        Transaction::Script(x) => { *x.script_gas_limit_mut() ^= 1; true }
        Transaction::Create(x) => { x.salt_mut()[0] ^= 0x80; true }
        Transaction::Upgrade(x) => bump_input(x.inputs_mut()),
        Transaction::Upload(x) => bump_input(x.inputs_mut()),
        Transaction::Blob(x) => bump_input(x.inputs_mut()),
        Transaction::Mint(x) => { *x.mint_amount_mut() ^= 1; true }
    }
}

/// C03 on an object that already CARRIES metadata (as every transaction returned by a builder or checked before does):
/// precompute again under another chain id, and again after an in-place change of a signed field
fn id_carried(out: &mut Out, src: &str, t: &Transaction, c: &str, c2: &str) {
    let plain = strip_metadata(t);
    let mut acc = plain.clone();
    if !matches!(precompute(&mut acc, &chain(c)), Ok(true)) { return; }
    let ch2 = chain(c2);
    let mut emit = |out: &mut Out, acc: &mut Transaction, plain: &Transaction, tag: &str, mutated: &str| {
        let fresh = match id_of(plain, &ch2) { Ok(x) => x, Err(_) => return };
        let (cached, after) = match precompute(acc, &ch2) {
            Ok(true) => (cached_id_of(acc).unwrap_or_else(|| "none".into()), id_of(acc, &ch2).unwrap_or_else(|m| format!("panic:{m}"))),
            Ok(false) => ("refused".to_string(), "refused".to_string()),
            Err(msg) => { out.ev(json!({"ev": "HostPanic", "where": "precompute", "type": "Transaction", "msg": msg})); return; }
        };
        out.ev(json!({"ev": "Id", "src": format!("{src}/{tag}"), "v": proj::transaction(plain), "chain": c2, "id": fresh, "cached": cached, "after": after, "mutated": mutated}));
    };
    emit(out, &mut acc, &plain, "re-chain", "");
    if bump_in_place(&mut acc) {
        let plain2 = strip_metadata(&acc);
        if !degenerate(&plain2) { emit(out, &mut acc, &plain2, "re-mutated", "in-place"); }
    }
}

fn part_id(o: &Opts, out: &mut Out) {
    let n = if o.thorough() { 1500 } else { 90 };
    let mut rng = o.rng(32);
    let chains = ["0", "1", "9889", "18446744073709551615"];
    for (k, (src, t)) in tx_stream(o, 31, n).into_iter().enumerate() {
        if k % 30 == 0 { out.ev(json!({"ev": "Seg", "part": "id"})); }
        let c = chains[k % chains.len()];
        id_event(out, &src, &t, c, None);
        if k % 7 == 0 { id_event(out, &src, &t, chains[(k + 1) % chains.len()], None); }
        if k % 3 == 0 { id_carried(out, &src, &t, c, chains[(k + 1 + k / 3) % chains.len()]); }
        // single-field mutations of the same transaction
        for _ in 0..4 {
            let mut v = proj::transaction(&t);
            if let Some(p) = mutate_leaf(&mut rng, &mut v) {
                if let Ok(t2) = catch(std::panic::AssertUnwindSafe(|| build::transaction(&v))) {
                    if !degenerate(&t2) { id_event(out, "mut", &t2, c, Some(p)); }
                }
            }
        }
    }
}

// ---- C02 ----
fn decoded_event(out: &mut Out, ty: &str, src: &str, tag: &str, r: u64, b: &[u8], stats: &mut [u64; 3]) {
    match Val::decode(ty, b) {
        Err(msg) => {
            stats[2] += 1;
            out.ev(json!({"ev": "Decoded", "type": ty, "src": src, "tag": tag, "ref": r, "out": "panic", "msg": msg, "bytes": hx(b)}));
        }
        Ok(Err(e)) => {
            stats[1] += 1;
            out.ev(json!({"ev": "Decoded", "type": ty, "src": src, "tag": tag, "ref": r, "out": "err", "err": e, "n": b.len()}));
        }
        Ok(Ok((v, consumed))) => {
            stats[0] += 1;
            let (size, reenc) = match v.obs() {
                Ok(ob) => (ob.size as i64, hx(&ob.bytes)),
                Err(msg) => { out.ev(json!({"ev": "Decoded", "type": ty, "src": src, "tag": tag, "ref": r, "out": "panic", "msg": msg, "bytes": hx(b)})); return; }
            };
            let re = match Val::decode(ty, &unhx(&reenc)) {
                Err(msg) => json!({"out": "panic", "msg": msg}),
                Ok(Err(e)) => json!({"out": "err", "err": e}),
                Ok(Ok((v2, c2))) => json!({"out": "ok", "consumed": c2, "v": v2.proj()}),
            };
            out.ev(json!({"ev": "Decoded", "type": ty, "src": src, "tag": tag, "ref": r, "out": "ok", "bytes": hx(b), "consumed": consumed,
                          "size": size, "v": v.proj(), "reenc": reenc, "re": re}));
        }
    }
}

/// one decode job of the C02 part
struct Job { ty: String, src: &'static str, tag: String, r: u64, bytes: Vec<u8> }

fn dec_jobs(o: &Opts) -> Res<Vec<Job>> {
    let mut jobs = vec![];
    // (a) mutants generated by the specification from the field boundaries of valid encodings
    if let Some(path) = o.opt("--mutants") {
        for (r, ln) in read_lines(&path)?.iter().enumerate() {
            if ln.get("bytes").is_none() || ln.get("tag").is_none() { continue; }
            jobs.push(Job { ty: jstr(ln, "ty"), src: "spec", tag: jstr(ln, "tag"), r: r as u64, bytes: unhx(&jstr(ln, "bytes")) });
        }
    }
    // (b) seeded byte-level mutations of encodings of factory / generated values, and pure random strings
    let mut rng = o.rng(41);
    let n = if o.thorough() { 60000 } else { 6000 };
    let pool: Vec<Val> = {
        let mut p: Vec<Val> = tx_stream(o, 42, 60).into_iter().map(|(_, t)| Val::Transaction(strip_metadata(&t))).collect();
        for _ in 0..60 { p.push(Val::Input(gen_input(&mut rng))); p.push(Val::Output(gen_output(&mut rng))); p.push(Val::Receipt(gen_receipt(&mut rng))); }
        p
    };
    let interesting: [u64; 10] = [0, 1, 2, 7, 8, 255, 1 << 32, 104857600, 104857601, u64::MAX];
    for i in 0..n {
        let base = &pool[rng.gen_range(0..pool.len())];
        let ty = base.ty();
        let mut b = base.obs().map(|x| x.bytes).unwrap_or_default();
        let tag = match i % 5 {
            0 => { // flip 1..3 random bits
                for _ in 0..rng.gen_range(1..4) { if !b.is_empty() { let p = rng.gen_range(0..b.len()); b[p] ^= 1 << rng.gen_range(0..8); } }
                "flip"
            }
            1 => { // overwrite one aligned word with an interesting value
                if b.len() >= 8 { let w = rng.gen_range(0..b.len() / 8) * 8; b[w..w + 8].copy_from_slice(&interesting[rng.gen_range(0..interesting.len())].to_be_bytes()); }
                "word"
            }
            2 => { let cut = rng.gen_range(0..=b.len()); b.truncate(cut); "cut" }
            3 => { // delete or duplicate one aligned word
                if b.len() >= 16 { let w = rng.gen_range(0..b.len() / 8) * 8; if rng.gen_bool(0.5) { b.drain(w..w + 8); } else { let d: Vec<u8> = b[w..w + 8].to_vec(); for (j, x) in d.into_iter().enumerate() { b.insert(w + j, x); } } }
                "shift"
            }
            _ => { // random string, biased to start like a valid discriminant
                let len = rng.gen_range(0..300);
                b = (0..len).map(|_| rng.gen::<u8>()).collect();
                if b.len() >= 8 && rng.gen_bool(0.8) { b[..8].copy_from_slice(&(rng.gen_range(0..7) as u64).to_be_bytes()); }
                "random"
            }
        };
        jobs.push(Job { ty: ty.to_string(), src: "seeded", tag: tag.to_string(), r: i as u64, bytes: b });
    }
    Ok(jobs)
}

/// child: decode jobs[from..], writing the index of the job in flight to the marker file first, so that
/// a process abort (allocation failure, stack overflow) inside the decoder can be attributed to its input
fn part_dec_child(o: &Opts, out: &mut Out) -> Res<()> {
    use std::io::{Seek, SeekFrom, Write};
    let jobs = dec_jobs(o)?;
    let from: usize = o.opt("--from").and_then(|s| s.parse().ok()).unwrap_or(0);
    let mut marker = std::fs::OpenOptions::new().create(true).write(true).truncate(true).open(o.opt("--marker").expect("--marker"))?;
    let mut stats = [0u64; 3];
    let skips: Vec<usize> = o.opt("--skip").map(|s| s.split(',').filter_map(|x| x.parse().ok()).collect()).unwrap_or_default();
    for (k, j) in jobs.iter().enumerate().skip(from) {
        if skips.contains(&k) { continue; }
        if k % 400 == 0 || k == from { out.ev(json!({"ev": "Seg", "part": "dec"})); }
        marker.seek(SeekFrom::Start(0))?;
        marker.write_all(format!("{k:<12}").as_bytes())?;
        decoded_event(out, &j.ty, j.src, &j.tag, j.r, &j.bytes, &mut stats);
    }
    marker.seek(SeekFrom::Start(0))?;
    marker.write_all(format!("{:<12}", "done").as_bytes())?;
    out.ev(json!({"ev": "Seg", "part": "dec-stats"}));
    out.ev(json!({"ev": "Stats", "ok": stats[0], "err": stats[1], "panic": stats[2], "from": from}));
    Ok(())
}

/// parent: run the child; when it dies, log a HostAbort event for the job in flight and resume after it
fn part_dec(o: &Opts, out: &mut Out) -> Res<()> {
    let outp = o.out.clone().expect("-o required for part dec");
    let exe = std::env::current_exe()?;
    let marker = format!("{outp}.marker");
    let mut from = 0usize;
    let mut aborts = 0;
    let mut skips: Vec<usize> = vec![];
    let mut totals = [0u64; 3];
    loop {
        let part = format!("{outp}.child");
        let mut cmd = std::process::Command::new(&exe);
        cmd.args(["record", "txfmt", "--part", "dec-child", "--tier", &o.tier, "--seed", &o.seed.to_string(), "--from", &from.to_string(),
                  "--marker", &marker, "-o", &part]);
        if let Some(m) = o.opt("--mutants") { cmd.args(["--mutants", &m]); }
        if !skips.is_empty() { cmd.args(["--skip", &skips.iter().map(|x| x.to_string()).collect::<Vec<_>>().join(",")]); }
        let st = cmd.stderr(std::process::Stdio::null()).status()?;
        // copy what the child managed to write (complete lines only; its buffered tail is lost on an abort)
        let text = std::fs::read_to_string(&part).unwrap_or_default();
        let mut done = 0usize;
        for ln in text.lines() {
            if let Ok(v) = serde_json::from_str::<Value>(ln) {
                if v["ev"] == "Stats" { for (i, k) in ["ok", "err", "panic"].iter().enumerate() { totals[i] += v[*k].as_u64().unwrap_or(0); } }
                else { if v["ev"] == "Decoded" { done += 1; if !st.success() { match v["out"].as_str() { Some("ok") => totals[0] += 1, Some("err") => totals[1] += 1, _ => totals[2] += 1 } } } out.ev(v); }
            }
        }
        let _ = std::fs::remove_file(&part);
        if st.success() { break; }
        let m = std::fs::read_to_string(&marker).unwrap_or_default();
        let k: usize = match m.trim().parse() { Ok(k) => k, Err(_) => return Err(format!("decode child died without progress marker ({st})").into()) };
        let jobs = dec_jobs(o)?;
        let j = &jobs[k];
        out.ev(json!({"ev": "Seg", "part": "dec-abort"}));
        out.ev(json!({"ev": "HostAbort", "where": "decode", "type": j.ty, "src": j.src, "tag": j.tag, "ref": j.r, "status": format!("{st}"), "bytes": hx(&j.bytes)}));
        aborts += 1;
        skips.push(k);
        // resume after the last job whose event reached the file (jobs skipped earlier produce no event)
        let mut next = from;
        let mut left = done;
        while left > 0 || skips.contains(&next) { if !skips.contains(&next) { left -= 1; } next += 1; }
        from = next;
        if aborts >= 25 { break; }
    }
    let _ = std::fs::remove_file(&marker);
    out.ev(json!({"ev": "Seg", "part": "dec-stats"}));
    out.ev(json!({"ev": "Stats", "ok": totals[0], "err": totals[1], "panic": totals[2], "abort": aborts}));
    Ok(())
}

pub fn record(o: &Opts) -> Res<()> {
    let mut out = Out::open(&o.out)?;
    let part = o.opt("--part").unwrap_or_else(|| "enc".into());
    for p in part.split(',') {
        match p {
            "enc" => part_enc(o, &mut out),
            "off" => part_off(o, &mut out),
            "id" => part_id(o, &mut out),
            "dec" => part_dec(o, &mut out)?,
            "dec-child" => part_dec_child(o, &mut out)?,
            x => return Err(format!("unknown part {x}").into()),
        }
    }
    out.finish();
    Ok(())
}
