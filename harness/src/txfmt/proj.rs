//! Real fuel-tx value -> abstract JSON value (the projection logged in traces and compared with what
//! the specification predicts).  Every field reachable through the public API is projected, including
//! the ones the wire format leaves out; WHICH of them take part in a comparison is decided in TLA+.
use crate::util::*;
use fuel_tx::{
    field::*, input, output, policies::{Policies as PoliciesV, PolicyType}, Input, Output, Receipt, ScriptExecutionResult, StorageSlot, Transaction,
    TxPointer, UpgradePurpose, UtxoId, Witness,
};
use serde_json::{json, Value};

pub fn n(x: u64) -> Value { Value::String(x.to_string()) }
pub fn h(b: impl AsRef<[u8]>) -> Value { Value::String(hx(b)) }

pub fn utxo_id(u: &UtxoId) -> Value { json!({"tx_id": h(u.tx_id()), "output_index": n(u.output_index() as u64)}) }
pub fn tx_pointer(p: &TxPointer) -> Value { json!({"block_height": n(u32::from(p.block_height()) as u64), "tx_index": n(p.tx_index() as u64)}) }
pub fn storage_slot(s: &StorageSlot) -> Value { json!({"key": h(s.key()), "value": h(s.value())}) }
pub fn witness(w: &Witness) -> Value { h(w.as_vec()) }

pub fn policies(p: &PoliciesV) -> Value {
    let types = [PolicyType::Tip, PolicyType::WitnessLimit, PolicyType::Maturity, PolicyType::MaxFee, PolicyType::Expiration, PolicyType::Owner];
    let mut mask = 0u64;
    let mut vals = vec![];
    for (i, t) in types.iter().enumerate() {
        match p.get(*t) {
            Some(x) => { mask |= 1 << i; vals.push(n(x)); }
            None => vals.push(n(0)),
        }
    }
    json!({"mask": mask, "vals": vals})
}

pub fn input(i: &Input) -> Value {
    match i {
        Input::CoinSigned(c) => json!({"kind": "CoinSigned", "utxo_id": utxo_id(&c.utxo_id), "owner": h(c.owner), "amount": n(c.amount),
            "asset_id": h(c.asset_id), "tx_pointer": tx_pointer(&c.tx_pointer), "witness_index": n(c.witness_index as u64)}),
        Input::CoinPredicate(c) => json!({"kind": "CoinPredicate", "utxo_id": utxo_id(&c.utxo_id), "owner": h(c.owner), "amount": n(c.amount),
            "asset_id": h(c.asset_id), "tx_pointer": tx_pointer(&c.tx_pointer), "predicate_gas_used": n(c.predicate_gas_used),
            "predicate": h(c.predicate.as_slice()), "predicate_data": h(c.predicate_data.as_slice())}),
        Input::Contract(c) => input_contract(c, true),
        Input::MessageCoinSigned(m) => json!({"kind": "MessageCoinSigned", "sender": h(m.sender), "recipient": h(m.recipient), "amount": n(m.amount),
            "nonce": h(m.nonce), "witness_index": n(m.witness_index as u64)}),
        Input::MessageCoinPredicate(m) => json!({"kind": "MessageCoinPredicate", "sender": h(m.sender), "recipient": h(m.recipient), "amount": n(m.amount),
            "nonce": h(m.nonce), "predicate_gas_used": n(m.predicate_gas_used), "predicate": h(m.predicate.as_slice()),
            "predicate_data": h(m.predicate_data.as_slice())}),
        Input::MessageDataSigned(m) => json!({"kind": "MessageDataSigned", "sender": h(m.sender), "recipient": h(m.recipient), "amount": n(m.amount),
            "nonce": h(m.nonce), "witness_index": n(m.witness_index as u64), "data": h(m.data.as_slice())}),
        Input::MessageDataPredicate(m) => json!({"kind": "MessageDataPredicate", "sender": h(m.sender), "recipient": h(m.recipient), "amount": n(m.amount),
            "nonce": h(m.nonce), "predicate_gas_used": n(m.predicate_gas_used), "data": h(m.data.as_slice()),
            "predicate": h(m.predicate.as_slice()), "predicate_data": h(m.predicate_data.as_slice())}),
    }
}

pub fn input_contract(c: &input::contract::Contract, with_kind: bool) -> Value {
    let mut v = json!({"utxo_id": utxo_id(&c.utxo_id), "balance_root": h(c.balance_root), "state_root": h(c.state_root),
        "tx_pointer": tx_pointer(&c.tx_pointer), "contract_id": h(c.contract_id)});
    if with_kind { v["kind"] = json!("Contract"); }
    v
}
pub fn output_contract(c: &output::contract::Contract, with_kind: bool) -> Value {
    let mut v = json!({"input_index": n(c.input_index as u64), "balance_root": h(c.balance_root), "state_root": h(c.state_root)});
    if with_kind { v["kind"] = json!("Contract"); }
    v
}

pub fn output(o: &Output) -> Value {
    match o {
        Output::Coin { to, amount, asset_id } => json!({"kind": "Coin", "to": h(to), "amount": n(*amount), "asset_id": h(asset_id)}),
        Output::Contract(c) => output_contract(c, true),
        Output::Change { to, amount, asset_id } => json!({"kind": "Change", "to": h(to), "amount": n(*amount), "asset_id": h(asset_id)}),
        Output::Variable { to, amount, asset_id } => json!({"kind": "Variable", "to": h(to), "amount": n(*amount), "asset_id": h(asset_id)}),
        Output::ContractCreated { contract_id, state_root } => json!({"kind": "ContractCreated", "contract_id": h(contract_id), "state_root": h(state_root)}),
    }
}

pub fn upgrade_purpose(p: &UpgradePurpose) -> Value {
    match p {
        UpgradePurpose::ConsensusParameters { witness_index, checksum } =>
            json!({"kind": "ConsensusParameters", "witness_index": n(*witness_index as u64), "checksum": h(checksum)}),
        UpgradePurpose::StateTransition { root } => json!({"kind": "StateTransition", "root": h(root)}),
    }
}

fn opt_h(d: &Option<fuel_types::bytes::Bytes>) -> Value { match d { Some(b) => h(b.as_slice()), None => json!("none") } }

pub fn receipt(r: &Receipt) -> Value {
    match r {
        Receipt::Call { id, to, amount, asset_id, gas, param1, param2, pc, is } => json!({"kind": "Call", "id": h(id), "to": h(to), "amount": n(*amount),
            "asset_id": h(asset_id), "gas": n(*gas), "param1": n(*param1), "param2": n(*param2), "pc": n(*pc), "is": n(*is)}),
        Receipt::Return { id, val, pc, is } => json!({"kind": "Return", "id": h(id), "val": n(*val), "pc": n(*pc), "is": n(*is)}),
        Receipt::ReturnData { id, ptr, len, digest, pc, is, data } => json!({"kind": "ReturnData", "id": h(id), "ptr": n(*ptr), "len": n(*len),
            "digest": h(digest), "pc": n(*pc), "is": n(*is), "data": opt_h(data)}),
        Receipt::Panic { id, reason, pc, is, contract_id } => json!({"kind": "Panic", "id": h(id), "reason": n(*reason.reason() as u8 as u64),
            "instruction": n(*reason.instruction() as u64), "pc": n(*pc), "is": n(*is),
            "contract_id": match contract_id { Some(c) => h(c), None => json!("none") }}),
        Receipt::Revert { id, ra, pc, is } => json!({"kind": "Revert", "id": h(id), "ra": n(*ra), "pc": n(*pc), "is": n(*is)}),
        Receipt::Log { id, ra, rb, rc, rd, pc, is } => json!({"kind": "Log", "id": h(id), "ra": n(*ra), "rb": n(*rb), "rc": n(*rc), "rd": n(*rd),
            "pc": n(*pc), "is": n(*is)}),
        Receipt::LogData { id, ra, rb, ptr, len, digest, pc, is, data } => json!({"kind": "LogData", "id": h(id), "ra": n(*ra), "rb": n(*rb),
            "ptr": n(*ptr), "len": n(*len), "digest": h(digest), "pc": n(*pc), "is": n(*is), "data": opt_h(data)}),
        Receipt::Transfer { id, to, amount, asset_id, pc, is } => json!({"kind": "Transfer", "id": h(id), "to": h(to), "amount": n(*amount),
            "asset_id": h(asset_id), "pc": n(*pc), "is": n(*is)}),
        Receipt::TransferOut { id, to, amount, asset_id, pc, is } => json!({"kind": "TransferOut", "id": h(id), "to": h(to), "amount": n(*amount),
            "asset_id": h(asset_id), "pc": n(*pc), "is": n(*is)}),
        Receipt::ScriptResult { result, gas_used } => {
            let res = match result {
                ScriptExecutionResult::Success => json!({"kind": "Success"}),
                ScriptExecutionResult::Revert => json!({"kind": "Revert"}),
                ScriptExecutionResult::Panic => json!({"kind": "Panic"}),
                ScriptExecutionResult::GenericFailure(x) => json!({"kind": "GenericFailure", "value": n(*x)}),
            };
            json!({"kind": "ScriptResult", "result": res, "gas_used": n(*gas_used)})
        }
        Receipt::MessageOut { sender, recipient, amount, nonce, len, digest, data } => json!({"kind": "MessageOut", "sender": h(sender),
            "recipient": h(recipient), "amount": n(*amount), "nonce": h(nonce), "len": n(*len), "digest": h(digest), "data": opt_h(data)}),
        Receipt::Mint { sub_id, contract_id, val, pc, is } => json!({"kind": "Mint", "sub_id": h(sub_id), "contract_id": h(contract_id),
            "val": n(*val), "pc": n(*pc), "is": n(*is)}),
        Receipt::Burn { sub_id, contract_id, val, pc, is } => json!({"kind": "Burn", "sub_id": h(sub_id), "contract_id": h(contract_id),
            "val": n(*val), "pc": n(*pc), "is": n(*is)}),
    }
}

fn common<T: fuel_tx::field::Policies + Inputs + Outputs + Witnesses>(v: &mut Value, tx: &T) {
    v["policies"] = policies(tx.policies());
    v["inputs"] = Value::Array(tx.inputs().iter().map(input).collect());
    v["outputs"] = Value::Array(tx.outputs().iter().map(output).collect());
    v["witnesses"] = Value::Array(tx.witnesses().iter().map(witness).collect());
}

pub fn transaction(t: &Transaction) -> Value {
    match t {
        Transaction::Script(tx) => {
            let mut v = json!({"kind": "Script", "script_gas_limit": n(*tx.script_gas_limit()), "receipts_root": h(tx.receipts_root()),
                "script": h(tx.script()), "script_data": h(tx.script_data())});
            common(&mut v, tx);
            v
        }
        Transaction::Create(tx) => {
            let mut v = json!({"kind": "Create", "bytecode_witness_index": n(*tx.bytecode_witness_index() as u64), "salt": h(tx.salt()),
                "storage_slots": Value::Array(tx.storage_slots().iter().map(storage_slot).collect())});
            common(&mut v, tx);
            v
        }
        Transaction::Mint(tx) => json!({"kind": "Mint", "tx_pointer": tx_pointer(fuel_tx::field::TxPointer::tx_pointer(tx)),
            "input_contract": input_contract(tx.input_contract(), false), "output_contract": output_contract(tx.output_contract(), false),
            "mint_amount": n(*tx.mint_amount()), "mint_asset_id": h(tx.mint_asset_id()), "gas_price": n(*tx.gas_price())}),
        Transaction::Upgrade(tx) => {
            let mut v = json!({"kind": "Upgrade", "purpose": upgrade_purpose(fuel_tx::field::UpgradePurpose::upgrade_purpose(tx))});
            common(&mut v, tx);
            v
        }
        Transaction::Upload(tx) => {
            let mut v = json!({"kind": "Upload", "root": h(tx.bytecode_root()), "witness_index": n(*tx.bytecode_witness_index() as u64),
                "subsection_index": n(*tx.subsection_index() as u64), "subsections_number": n(*tx.subsections_number() as u64),
                "proof_set": Value::Array(tx.proof_set().iter().map(|b| h(b)).collect())});
            common(&mut v, tx);
            v
        }
        Transaction::Blob(tx) => {
            let mut v = json!({"kind": "Blob", "id": h(tx.blob_id()), "witness_index": n(*tx.bytecode_witness_index() as u64)});
            common(&mut v, tx);
            v
        }
    }
}
