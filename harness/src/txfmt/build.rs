//! Abstract JSON value (as printed by TLC / as logged in traces) -> real fuel-tx value, through the
//! public constructors only.  Numbers are decimal strings, bytes lowercase hex strings.
use crate::util::*;
use fuel_tx::{
    field::*, input, output, policies::Policies as PoliciesV, BlobBody, Input, Output, Receipt, ScriptExecutionResult, StorageSlot,
    Transaction, TxPointer, UpgradePurpose, UploadBody, UtxoId, Witness,
};
use fuel_types::{Address, AssetId, BlobId, Bytes32, ContractId, Nonce, Salt, SubAssetId};
use serde_json::Value;

pub fn num(v: &Value, k: &str) -> u64 { ju64(v, k) }
pub fn n16(v: &Value, k: &str) -> u16 { u16::try_from(ju64(v, k)).unwrap_or_else(|_| panic!("{k} does not fit u16")) }
pub fn n32(v: &Value, k: &str) -> u32 { u32::try_from(ju64(v, k)).unwrap_or_else(|_| panic!("{k} does not fit u32")) }
pub fn by(v: &Value, k: &str) -> Vec<u8> { unhx(&jstr(v, k)) }
pub fn b32(v: &Value, k: &str) -> [u8; 32] { unhx32(&jstr(v, k)) }
pub fn kind(v: &Value) -> String { jstr(v, "kind") }
fn arr<'a>(v: &'a Value, k: &str) -> &'a Vec<Value> { v[k].as_array().unwrap_or_else(|| panic!("array {k} missing in {v}")) }

pub fn utxo_id(v: &Value) -> UtxoId { UtxoId::new(Bytes32::from(b32(v, "tx_id")), n16(v, "output_index")) }
pub fn tx_pointer(v: &Value) -> TxPointer { TxPointer::new(n32(v, "block_height").into(), n16(v, "tx_index")) }
pub fn storage_slot(v: &Value) -> StorageSlot { StorageSlot::new(Bytes32::from(b32(v, "key")), Bytes32::from(b32(v, "value"))) }
pub fn witness(v: &Value) -> Witness { Witness::from(unhx(v.as_str().expect("witness hex"))) }

pub fn policies(v: &Value) -> PoliciesV {
    let mask = ju64(v, "mask");
    let vals = arr(v, "vals");
    let val = |i: usize| -> u64 { vals[i].as_str().expect("policy value").parse().expect("u64") };
    let mut p = PoliciesV::new();
    if mask & 1 != 0 { p = p.with_tip(val(0)); }
    if mask & 2 != 0 { p = p.with_witness_limit(val(1)); }
    if mask & 4 != 0 { p = p.with_maturity(u32::try_from(val(2)).expect("maturity is a block height").into()); }
    if mask & 8 != 0 { p = p.with_max_fee(val(3)); }
    if mask & 16 != 0 { p = p.with_expiration(u32::try_from(val(4)).expect("expiration is a block height").into()); }
    if mask & 32 != 0 { p = p.with_owner(val(5)); }
    p
}

pub fn input(v: &Value) -> Input {
    let a = |k: &str| Address::from(b32(v, k));
    match kind(v).as_str() {
        "CoinSigned" => Input::coin_signed(utxo_id(&v["utxo_id"]), a("owner"), num(v, "amount"), AssetId::from(b32(v, "asset_id")),
                                           tx_pointer(&v["tx_pointer"]), n16(v, "witness_index")),
        "CoinPredicate" => Input::coin_predicate(utxo_id(&v["utxo_id"]), a("owner"), num(v, "amount"), AssetId::from(b32(v, "asset_id")),
                                                 tx_pointer(&v["tx_pointer"]), num(v, "predicate_gas_used"), by(v, "predicate"), by(v, "predicate_data")),
        "Contract" => Input::contract(utxo_id(&v["utxo_id"]), Bytes32::from(b32(v, "balance_root")), Bytes32::from(b32(v, "state_root")),
                                      tx_pointer(&v["tx_pointer"]), ContractId::from(b32(v, "contract_id"))),
        "MessageCoinSigned" => Input::message_coin_signed(a("sender"), a("recipient"), num(v, "amount"), Nonce::from(b32(v, "nonce")), n16(v, "witness_index")),
        "MessageCoinPredicate" => Input::message_coin_predicate(a("sender"), a("recipient"), num(v, "amount"), Nonce::from(b32(v, "nonce")),
                                                                num(v, "predicate_gas_used"), by(v, "predicate"), by(v, "predicate_data")),
        "MessageDataSigned" => Input::message_data_signed(a("sender"), a("recipient"), num(v, "amount"), Nonce::from(b32(v, "nonce")),
                                                          n16(v, "witness_index"), by(v, "data")),
        "MessageDataPredicate" => Input::message_data_predicate(a("sender"), a("recipient"), num(v, "amount"), Nonce::from(b32(v, "nonce")),
                                                                num(v, "predicate_gas_used"), by(v, "data"), by(v, "predicate"), by(v, "predicate_data")),
        k => panic!("unknown input kind {k}"),
    }
}

pub fn output(v: &Value) -> Output {
    match kind(v).as_str() {
        "Coin" => Output::coin(Address::from(b32(v, "to")), num(v, "amount"), AssetId::from(b32(v, "asset_id"))),
        "Contract" => Output::contract(n16(v, "input_index"), Bytes32::from(b32(v, "balance_root")), Bytes32::from(b32(v, "state_root"))),
        "Change" => Output::change(Address::from(b32(v, "to")), num(v, "amount"), AssetId::from(b32(v, "asset_id"))),
        "Variable" => Output::variable(Address::from(b32(v, "to")), num(v, "amount"), AssetId::from(b32(v, "asset_id"))),
        "ContractCreated" => Output::contract_created(ContractId::from(b32(v, "contract_id")), Bytes32::from(b32(v, "state_root"))),
        k => panic!("unknown output kind {k}"),
    }
}

pub fn upgrade_purpose(v: &Value) -> UpgradePurpose {
    match kind(v).as_str() {
        "ConsensusParameters" => UpgradePurpose::ConsensusParameters { witness_index: n16(v, "witness_index"), checksum: Bytes32::from(b32(v, "checksum")) },
        "StateTransition" => UpgradePurpose::StateTransition { root: Bytes32::from(b32(v, "root")) },
        k => panic!("unknown upgrade purpose {k}"),
    }
}

fn opt_bytes(v: &Value, k: &str) -> Option<Vec<u8>> {
    match v[k].as_str() { None | Some("none") => None, Some(h) => Some(unhx(h)) }
}

pub fn receipt(v: &Value) -> Receipt {
    let c = |k: &str| ContractId::from(b32(v, k));
    let n = |k: &str| num(v, k);
    match kind(v).as_str() {
        "Call" => Receipt::call(c("id"), c("to"), n("amount"), AssetId::from(b32(v, "asset_id")), n("gas"), n("param1"), n("param2"), n("pc"), n("is")),
        "Return" => Receipt::ret(c("id"), n("val"), n("pc"), n("is")),
        "ReturnData" => Receipt::return_data_with_len(c("id"), n("ptr"), n("len"), Bytes32::from(b32(v, "digest")), n("pc"), n("is"), opt_bytes(v, "data")),
        "Panic" => {
            let reason = fuel_asm::PanicReason::from(u8::try_from(n("reason")).expect("reason u8"));
            let pi = fuel_asm::PanicInstruction::error(reason, n32(v, "instruction"));
            let cid = match v["contract_id"].as_str() { None | Some("none") => None, Some(h) => Some(ContractId::from(unhx32(h))) };
            Receipt::panic(c("id"), pi, n("pc"), n("is")).with_panic_contract_id(cid)
        }
        "Revert" => Receipt::revert(c("id"), n("ra"), n("pc"), n("is")),
        "Log" => Receipt::log(c("id"), n("ra"), n("rb"), n("rc"), n("rd"), n("pc"), n("is")),
        "LogData" => Receipt::log_data_with_len(c("id"), n("ra"), n("rb"), n("ptr"), n("len"), Bytes32::from(b32(v, "digest")), n("pc"), n("is"), opt_bytes(v, "data")),
        "Transfer" => Receipt::transfer(c("id"), c("to"), n("amount"), AssetId::from(b32(v, "asset_id")), n("pc"), n("is")),
        "TransferOut" => Receipt::transfer_out(c("id"), Address::from(b32(v, "to")), n("amount"), AssetId::from(b32(v, "asset_id")), n("pc"), n("is")),
        "ScriptResult" => {
            let r = &v["result"];
            let res = match kind(r).as_str() {
                "Success" => ScriptExecutionResult::Success,
                "Revert" => ScriptExecutionResult::Revert,
                "Panic" => ScriptExecutionResult::Panic,
                "GenericFailure" => ScriptExecutionResult::GenericFailure(num(r, "value")),
                k => panic!("unknown script result {k}"),
            };
            Receipt::script_result(res, n("gas_used"))
        }
        "MessageOut" => Receipt::message_out_with_len(Address::from(b32(v, "sender")), Address::from(b32(v, "recipient")), n("amount"),
                                                      Nonce::from(b32(v, "nonce")), n("len"), Bytes32::from(b32(v, "digest")), opt_bytes(v, "data")),
        "Mint" => Receipt::mint(SubAssetId::from(b32(v, "sub_id")), c("contract_id"), n("val"), n("pc"), n("is")),
        "Burn" => Receipt::burn(SubAssetId::from(b32(v, "sub_id")), c("contract_id"), n("val"), n("pc"), n("is")),
        k => panic!("unknown receipt kind {k}"),
    }
}

pub fn input_contract(v: &Value) -> input::contract::Contract {
    input::contract::Contract {
        utxo_id: utxo_id(&v["utxo_id"]),
        balance_root: Bytes32::from(b32(v, "balance_root")),
        state_root: Bytes32::from(b32(v, "state_root")),
        tx_pointer: tx_pointer(&v["tx_pointer"]),
        contract_id: ContractId::from(b32(v, "contract_id")),
    }
}
pub fn output_contract(v: &Value) -> output::contract::Contract {
    output::contract::Contract {
        input_index: n16(v, "input_index"),
        balance_root: Bytes32::from(b32(v, "balance_root")),
        state_root: Bytes32::from(b32(v, "state_root")),
    }
}

pub fn transaction(v: &Value) -> Transaction {
    let k = kind(v);
    if k == "Mint" {
        return Transaction::mint(tx_pointer(&v["tx_pointer"]), input_contract(&v["input_contract"]), output_contract(&v["output_contract"]),
                                 num(v, "mint_amount"), AssetId::from(b32(v, "mint_asset_id")), num(v, "gas_price")).into();
    }
    let pol = policies(&v["policies"]);
    let ins: Vec<Input> = arr(v, "inputs").iter().map(input).collect();
    let outs: Vec<Output> = arr(v, "outputs").iter().map(output).collect();
    let wits: Vec<Witness> = arr(v, "witnesses").iter().map(witness).collect();
    match k.as_str() {
        "Script" => {
            let mut tx = Transaction::script(num(v, "script_gas_limit"), by(v, "script"), by(v, "script_data"), pol, ins, outs, wits);
            *tx.receipts_root_mut() = Bytes32::from(b32(v, "receipts_root"));
            tx.into()
        }
        "Create" => {
            let slots: Vec<StorageSlot> = arr(v, "storage_slots").iter().map(storage_slot).collect();
            Transaction::create(n16(v, "bytecode_witness_index"), pol, Salt::from(b32(v, "salt")), slots, ins, outs, wits).into()
        }
        "Upgrade" => Transaction::upgrade(upgrade_purpose(&v["purpose"]), pol, ins, outs, wits).into(),
        "Upload" => {
            let body = UploadBody {
                root: Bytes32::from(b32(v, "root")),
                witness_index: n16(v, "witness_index"),
                subsection_index: n16(v, "subsection_index"),
                subsections_number: n16(v, "subsections_number"),
                proof_set: arr(v, "proof_set").iter().map(|h| Bytes32::from(unhx32(h.as_str().expect("hex")))).collect(),
            };
            Transaction::upload(body, pol, ins, outs, wits).into()
        }
        "Blob" => Transaction::blob(BlobBody { id: BlobId::from(b32(v, "id")), witness_index: n16(v, "witness_index") }, pol, ins, outs, wits).into(),
        k => panic!("unknown transaction kind {k}"),
    }
}
