//! C16 — both secp256k1 backends of fuel-crypto driven with concrete witnesses of every signature
//! class enumerated by TLC (spec/crypto/K1Backends_MC.tla).  The harness builds inputs, calls
//! `recover` / `verify` / `sign` / `public_key` of BOTH real backends and records what they return.
//! It compares nothing: agreement is decided by K1Backends_Trace.tla, which also re-derives every
//! class label from the raw bytes and re-checks the construction equation of crafted witnesses.
use crate::crypto_num::*;
use crate::util::*;
use fuel_crypto::verif_k1::{portable, standard};
use fuel_crypto::{Message, SecretKey};
use fuel_types::Bytes32;
use rand::{rngs::StdRng, Rng};
use serde_json::{json, Value};
use std::collections::BTreeMap;

struct Consts {
    n: U256,
    p: U256,
    half: U256,
    two255: U256,
}

fn consts() -> Consts {
    let n = U256::from_hex(K1_N);
    Consts { n, p: U256::from_hex(K1_P), half: n.shr1(), two255: U256([0, 0, 0, 1 << 63]) }
}

fn rand_u256(rng: &mut StdRng) -> U256 { U256([rng.gen(), rng.gen(), rng.gen(), rng.gen()]) }

fn rand_scalar(rng: &mut StdRng, c: &Consts) -> U256 {
    loop {
        let x = rand_u256(rng);
        if !x.is_zero() && x.lt(&c.n) { return x; }
    }
}

fn secret_of(x: &U256) -> Option<SecretKey> { SecretKey::try_from(Bytes32::from(x.to_be())).ok() }

/// boundary-biased secret scalars
fn pick_secret(rng: &mut StdRng, c: &Consts, j: usize) -> U256 {
    match j % 8 {
        0 => U256::ONE,
        1 => U256::from_u64(2),
        2 => c.n.sub(&U256::ONE).0,
        3 => c.n.sub(&U256::from_u64(2)).0,
        4 => c.half,
        _ => rand_scalar(rng, c),
    }
}

/// boundary-biased 32-byte messages (any 32 bytes are a legal Message)
fn pick_msg(rng: &mut StdRng, c: &Consts, j: usize) -> [u8; 32] {
    match j % 10 {
        0 => [0u8; 32],
        1 => [0xff; 32],
        2 => c.n.to_be(),
        3 => c.n.sub(&U256::ONE).0.to_be(),
        4 => c.n.add(&U256::ONE).0.to_be(),
        5 => U256::ONE.to_be(),
        6 => c.n.add(&U256([rng.gen(), rng.gen(), 0, 0])).0.to_be(), // n <= m < 2^256 (2^256 - n > 2^128)
        _ => rand_u256(rng).to_be(),
    }
}

fn sig_bytes(r: &U256, s255: &U256, bit: u8) -> [u8; 64] {
    let mut out = [0u8; 64];
    out[..32].copy_from_slice(&r.to_be());
    out[32..].copy_from_slice(&s255.to_be());
    out[32] = (out[32] & 0x7f) | (bit << 7);
    out
}

struct Wit {
    sig: [u8; 64],
    msg: [u8; 32],
    ry: String,            // certificate: a y with y^2 = +-(r^3+7) mod p, or ""
    signer: SecretKey,
    tag: String,
    craft: Option<Value>,  // {k, d, z} of a crafted valid signature
}

/// nonce point with the wanted y parity and an x below n: returns (k, x, y)
fn nonce_point(rng: &mut StdRng, c: &Consts, want_odd: bool) -> (U256, U256, U256) {
    loop {
        let mut k = rand_scalar(rng, c);
        let pk = standard::public_key(&secret_of(&k).expect("scalar in range"));
        let mut xb = [0u8; 32];
        let mut yb = [0u8; 32];
        xb.copy_from_slice(&pk[..32]);
        yb.copy_from_slice(&pk[32..]);
        let x = U256::from_be(&xb);
        let mut y = U256::from_be(&yb);
        if !x.lt(&c.n) || x.is_zero() { continue; }
        if y.is_odd() != want_odd {
            k = k.negmod(&c.n);
            y = y.negmod(&c.p);
        }
        return (k, x, y);
    }
}

fn other_msg(rng: &mut StdRng, z: &[u8; 32], j: usize) -> [u8; 32] {
    let mut m = *z;
    match j % 4 {
        0 => { let i = rng.gen_range(0..256); m[i / 8] ^= 1 << (i % 8); }
        1 => { m = rand_u256(rng).to_be(); }
        2 => { m[31] = m[31].wrapping_add(1); }
        _ => { m[0] ^= 0x80; }
    }
    if m == *z { m[5] ^= 4; }
    m
}

fn s_values(rng: &mut StdRng, c: &Consts, sc: &str) -> Vec<(U256, &'static str)> {
    let one = U256::ONE;
    match sc {
        "zero" => vec![(U256::ZERO, "s=0")],
        "low" => vec![
            (one, "s=1"),
            (c.half, "s=half"),
            (c.half.sub(&one).0, "s=half-1"),
            (U256::from_u64(2), "s=2"),
            (c.n.sub(&c.two255).0, "s=n-2^255"),
            (c.n.add(&one).0.sub(&c.two255).0, "s=n+1-2^255"),
            (rand_u256(rng).shr1().reduce_once(&c.half).max1(), "s=rand-low"),
            (U256([rng.gen(), rng.gen(), 0, 0]).max1(), "s=rand-small"),
        ],
        _ => {
            let w = U256([rng.gen(), rng.gen::<u64>() >> 1, 0, 0]); // < 2^127 < width of the window
            vec![
                (c.half.add(&one).0, "s=half+1"),
                (c.two255.sub(&one).0, "s=2^255-1"),
                (c.half.add(&U256::from_u64(2)).0, "s=half+2"),
                (c.two255.sub(&U256::from_u64(2)).0, "s=2^255-2"),
                (c.p.sub(&c.two255).0, "s=p-2^255"),
                (c.two255.sub(&one).0.sub(&w).0, "s=rand-high"),
            ]
        }
    }
}

trait Max1 { fn max1(self) -> Self; }
impl Max1 for U256 { fn max1(self) -> U256 { if self.is_zero() { U256::ONE } else { self } } }

/// r candidates of a class, each with its certificate ("" when none)
fn r_values(rng: &mut StdRng, c: &Consts, rc: &str) -> Vec<(U256, String, &'static str)> {
    let one = U256::ONE;
    match rc {
        "zero" => vec![(U256::ZERO, String::new(), "r=0")],
        "ge_n" => vec![
            (c.n, String::new(), "r=n"),
            (c.n.add(&one).0, String::new(), "r=n+1"),
            (c.p.sub(&one).0, String::new(), "r=p-1"),
            (c.p, String::new(), "r=p"),
            (c.p.add(&one).0, String::new(), "r=p+1"),
            (U256([u64::MAX; 4]), String::new(), "r=2^256-1"),
            (c.n.add(&U256([rng.gen(), rng.gen::<u64>() >> 2, 0, 0])).0, String::new(), "r=n+rand"),
        ],
        _ => {
            let want_x = rc == "x";
            let mut out = vec![];
            let mut cands: Vec<(U256, &'static str)> = vec![
                (one, "r=1"), (U256::from_u64(2), "r=2"), (U256::from_u64(3), "r=3"), (U256::from_u64(4), "r=4"),
                (U256::from_u64(5), "r=5"), (U256::from_u64(6), "r=6"), (U256::from_u64(7), "r=7"),
                (c.n.sub(&one).0, "r=n-1"), (c.n.sub(&U256::from_u64(2)).0, "r=n-2"), (c.n.sub(&U256::from_u64(3)).0, "r=n-3"),
                (c.n.sub(&U256::from_u64(4)).0, "r=n-4"), (c.two255, "r=2^255"), (c.two255.sub(&one).0, "r=2^255-1"),
                (c.half, "r=half"), (c.half.add(&one).0, "r=half+1"),
            ];
            for _ in 0..12 { cands.push((rand_scalar(rng, c), "r=rand")); }
            for (x, tag) in cands {
                match k1_cert(&x) {
                    Some((is_x, y)) if is_x == want_x => out.push((x, y.hex(), tag)),
                    _ => {}
                }
            }
            out
        }
    }
}

fn jres<T>(r: Result<Result<T, fuel_crypto::Error>, String>, f: impl Fn(&T) -> Value) -> Result<Value, String> {
    match r {
        Ok(Ok(v)) => { let mut o = json!({"ok": true}); if let Value::Object(m) = f(&v) { for (k, x) in m { o[k] = x; } } Ok(o) }
        Ok(Err(e)) => Ok(json!({"ok": false, "err": format!("{e:?}")})),
        Err(p) => Err(p),
    }
}

fn recover2(sig: [u8; 64], m: &Message) -> (Result<Value, String>, Result<Value, String>) {
    let s = jres(catch(|| standard::recover(sig, m)), |pk| json!({"pk": hx(**pk)}));
    let p = jres(catch(|| portable::recover(sig, m)), |pk| json!({"pk": hx(**pk)}));
    (s, p)
}

fn verify2(sig: [u8; 64], pk: [u8; 64], m: &Message) -> (Result<Value, String>, Result<Value, String>) {
    let s = jres(catch(|| standard::verify(sig, pk, m)), |_| json!({}));
    let p = jres(catch(|| portable::verify(sig, pk, m)), |_| json!({}));
    (s, p)
}

/// spec -> impl: the input is TLC's class table (one line per (signature class, operation)).
pub fn replay(o: &Opts) -> Res<()> {
    let table = read_lines(o.input.as_ref().expect("class table"))?;
    let mut out = Out::open(&o.out)?;
    let c = consts();
    let mut rng = o.rng(16);
    let thorough = o.thorough();
    let w_valid: usize = o.opt("--w-valid").and_then(|s| s.parse().ok()).unwrap_or(if thorough { 400 } else { 16 });
    let w_unrel: usize = o.opt("--w-unrel").and_then(|s| s.parse().ok()).unwrap_or(if thorough { 120 } else { 10 });
    let w_key: usize = if thorough { 3000 } else { 200 };

    // group the table by signature class
    let mut classes: BTreeMap<String, (Value, Vec<Value>)> = BTreeMap::new();
    let mut key_ops: Vec<Value> = vec![];
    for line in &table {
        let opn = jstr(line, "op");
        if opn == "sign" || opn == "public_key" { key_ops.push(line.clone()); continue; }
        let key = serde_json::to_string(&line["cls"])?;
        classes.entry(key).or_insert_with(|| (line["cls"].clone(), vec![])).1.push(line.clone());
    }
    // events are bucketed into segments by (op, pkc, rc, sc) so one rejected class does not hide the others
    let mut buckets: BTreeMap<String, Vec<Value>> = BTreeMap::new();
    let mut n_wit = 0u64;
    let mut skipped_recovered = 0u64;

    for (_k, (cls, ops)) in classes.iter() {
        let rc = jstr(cls, "rc");
        let sc = jstr(cls, "sc");
        let bit = ju64(cls, "bit") as u8;
        let valid = jstr(cls, "rel") == "valid";
        let bitok = cls["bitok"].as_bool().unwrap();
        let msg_signed = jstr(cls, "msg") == "signed";
        let mut wits: Vec<Wit> = vec![];
        if valid {
            let right_bit = if bitok { bit } else { 1 - bit };
            for j in 0..w_valid {
                let jd = rng.gen_range(0..64);
                let d = pick_secret(&mut rng, &c, jd);
                let sk = secret_of(&d).expect("valid secret");
                let svals = s_values(&mut rng, &c, &sc);
                let lib_signed = sc == "low" && j % 3 == 0;
                if lib_signed {
                    // a signature made by the library itself whose recovery bit happens to be right_bit
                    let mut tries = 0;
                    loop {
                        let z = pick_msg(&mut rng, &c, if tries == 0 { j / 3 } else { 9 });
                        tries += 1;
                        let m = Message::from_bytes(z);
                        let s0 = standard::sign(&sk, &m);
                        if (s0[32] >> 7) != right_bit { continue; }
                        let mut sig = s0;
                        sig[32] = (sig[32] & 0x7f) | (bit << 7);
                        let mut rb = [0u8; 32];
                        rb.copy_from_slice(&sig[..32]);
                        let ry = k1_cert(&U256::from_be(&rb)).map(|(_, y)| y.hex()).unwrap_or_default();
                        let msg = if msg_signed { z } else { other_msg(&mut rng, &z, j) };
                        wits.push(Wit { sig, msg, ry, signer: sk, tag: "lib-signed".into(), craft: None });
                        break;
                    }
                } else {
                    let (s, stag) = svals[j % svals.len()];
                    let (k, x, y) = nonce_point(&mut rng, &c, right_bit == 1);
                    // z = s*k - r*d mod n
                    let z = s.mulmod(&k, &c.n).submod(&x.mulmod(&d, &c.n), &c.n).to_be();
                    let sig = sig_bytes(&x, &s, bit);
                    let msg = if msg_signed { z } else { other_msg(&mut rng, &z, j) };
                    wits.push(Wit { sig, msg, ry: y.hex(), signer: sk, tag: format!("crafted/{stag}"),
                                    craft: Some(json!({"k": k.hex(), "d": d.hex(), "z": hx(z)})) });
                }
            }
        } else {
            let rvals = r_values(&mut rng, &c, &rc);
            let svals = s_values(&mut rng, &c, &sc);
            if rvals.is_empty() { return Err(format!("no r candidate of class {rc}").into()); }
            let total = (rvals.len() * svals.len()).min(w_unrel.max(rvals.len()).max(svals.len()));
            for j in 0..total {
                let (r, ry, rtag) = &rvals[j % rvals.len()];
                let (s, stag) = &svals[(j / rvals.len() + j) % svals.len()];
                let (jd, jm) = (rng.gen_range(0..64), rng.gen_range(0..30));
                let d = pick_secret(&mut rng, &c, jd);
                let msg = pick_msg(&mut rng, &c, jm);
                wits.push(Wit { sig: sig_bytes(r, s, bit), msg, ry: ry.clone(), signer: secret_of(&d).expect("valid secret"),
                                tag: format!("{rtag}/{stag}"), craft: None });
            }
        }
        for w in wits {
            n_wit += 1;
            let m = Message::from_bytes(w.msg);
            let signer_pk = standard::public_key(&w.signer);
            let (rs, rp) = recover2(w.sig, &m);
            for line in ops {
                let opn = jstr(line, "op");
                let pkc = jstr(line, "pkc");
                let seg = format!("{opn}/{pkc}/{rc}/{sc}");
                let mut ev = json!({"ev": "K1", "op": opn, "pkc": pkc, "cls": cls, "tag": w.tag, "sig": hx(w.sig), "ry": w.ry,
                                    "m": hx(w.msg), "signer": hx(*signer_pk),
                                    "pred": {"std": line["std"], "portable": line["portable"], "agree": line["agree"]}});
                if let Some(cr) = &w.craft { ev["craft"] = cr.clone(); }
                let (s, p) = if opn == "recover" {
                    (rs.clone(), rp.clone())
                } else {
                    let pk: [u8; 64] = match pkc.as_str() {
                        "signer" => *signer_pk,
                        "other" => *standard::public_key(&secret_of(&rand_scalar(&mut rng, &c)).unwrap()),
                        "offcurve" => { let mut k = *signer_pk; k[63] ^= 1; k }
                        "zero" => [0u8; 64],
                        _ => {
                            // the key some backend recovered from this very signature and message
                            let got = [&rs, &rp].iter().find_map(|r| match r { Ok(v) if v["ok"] == true => Some(unhx(v["pk"].as_str().unwrap())), _ => None });
                            match got {
                                Some(v) => { let mut a = [0u8; 64]; a.copy_from_slice(&v); a }
                                None => { skipped_recovered += 1; continue; }
                            }
                        }
                    };
                    ev["pk"] = json!(hx(pk));
                    verify2(w.sig, pk, &m)
                };
                let b = buckets.entry(seg.clone()).or_default();
                match (s, p) {
                    (Ok(s), Ok(p)) => { ev["std"] = s; ev["port"] = p; b.push(ev); }
                    (s, p) => {
                        b.push(json!({"ev": "HostPanic", "where": format!("k1/{opn}"), "op": opn, "cls": cls, "sig": hx(w.sig), "m": hx(w.msg),
                                      "std": format!("{s:?}"), "port": format!("{p:?}")}));
                    }
                }
            }
        }
    }

    // sign / public_key over boundary-biased secrets and messages
    if !key_ops.is_empty() {
        let pred_of = |name: &str, mc: &str| key_ops.iter().find(|l| l["op"] == name && l["mc"] == mc).map(|l| json!({"std": l["std"], "portable": l["portable"], "agree": l["agree"]}));
        for j in 0..w_key {
            let d = pick_secret(&mut rng, &c, j);
            let sk = secret_of(&d).expect("valid secret");
            let z = pick_msg(&mut rng, &c, j / 2);
            let m = Message::from_bytes(z);
            if let Some(pred) = pred_of("public_key", "na") {
                let s = catch(|| standard::public_key(&sk));
                let p = catch(|| portable::public_key(&sk));
                let b = buckets.entry("public_key".into()).or_default();
                match (s, p) {
                    (Ok(s), Ok(p)) => b.push(json!({"ev": "K1Pub", "op": "public_key", "sk": d.hex(), "std": {"ok": true, "pk": hx(*s)}, "port": {"ok": true, "pk": hx(*p)}, "pred": pred})),
                    (s, p) => b.push(json!({"ev": "HostPanic", "where": "k1/public_key", "op": "public_key", "sk": d.hex(), "std": format!("{:?}", s.map(|x| hx(*x))), "port": format!("{:?}", p.map(|x| hx(*x)))})),
                }
            }
            // the label is re-derived by TLC from the message bytes
            let mc = if U256::from_be(&z).lt(&c.n) { "lt_n" } else { "ge_n" };
            if let Some(pred) = pred_of("sign", mc) {
                let s = catch(|| standard::sign(&sk, &m));
                let p = catch(|| portable::sign(&sk, &m));
                let b = buckets.entry(format!("sign/{mc}")).or_default();
                match (s, p) {
                    (Ok(s), Ok(p)) => b.push(json!({"ev": "K1Sign", "op": "sign", "mc": mc, "sk": d.hex(), "m": hx(z), "std": {"ok": true, "sig": hx(s)}, "port": {"ok": true, "sig": hx(p)}, "pred": pred})),
                    (s, p) => b.push(json!({"ev": "HostPanic", "where": "k1/sign", "op": "sign", "mc": mc, "sk": d.hex(), "m": hx(z), "std": format!("{:?}", s.map(hx)), "port": format!("{:?}", p.map(hx))})),
                }
            }
        }
    }

    let nseg = buckets.len();
    for (seg, evs) in buckets {
        out.ev(json!({"ev": "Seg", "part": seg}));
        for e in evs { out.ev(e); }
    }
    out.ev(json!({"ev": "Seg", "part": "summary"}));
    out.ev(json!({"ev": "Summary", "classes": classes.len(), "table_lines": table.len(), "witnesses": n_wit, "segments": nseg,
                  "skipped_recovered": skipped_recovered}));
    let n = out.finish();
    eprintln!("k1: {n} events, {n_wit} witnesses");
    Ok(())
}
