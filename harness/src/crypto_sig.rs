//! C17 — histories of sign / recover / verify over the public APIs of fuel-crypto (secp256k1,
//! secp256r1, ed25519) and the VM instructions ECK1 / ECR1 / ED19, recorded for validation by
//! spec/crypto/SigScheme_Trace.tla.  The harness builds inputs (valid, bit-flipped, re-encoded,
//! boundary constants), calls the public APIs under `catch`, and logs arguments and results.  The
//! only "oracle" it contributes is the environment value the property names: the verdict of
//! ed25519-dalek `verify_strict` (plus the non-strict verdict, logged for coverage accounting).
use crate::crypto_num::*;
use crate::util::*;
use fuel_asm::{op, GTFArgs, Instruction, RegId};
use fuel_crypto::{Message, PublicKey, SecretKey, Signature};
use fuel_types::{Bytes32, Bytes64};
use fuel_vm::prelude::{IntoChecked, MemoryClient, Receipt, ScriptExecutionResult, TransactionBuilder, TransactionBuilderExt};
use rand::{rngs::StdRng, Rng};
use serde_json::{json, Value};
use std::str::FromStr;

fn rand32(rng: &mut StdRng) -> [u8; 32] { let mut b = [0u8; 32]; rng.fill(&mut b[..]); b }

/// Boundary-biased secrets.  No two of them are negatives of each other mod n: for the degenerate
/// message z = 0 (mod n) ECDSA itself lets a signature of d pass for n - d with the other recovery
/// bit (and lets anyone forge), which is a property of the scheme, not of this code.
fn scalar_for(rng: &mut StdRng, order: &U256, j: usize) -> U256 {
    match j % 6 {
        0 => U256::ONE,
        1 => U256::from_u64(3),
        2 => order.sub(&U256::from_u64(2)).0,
        3 => order.shr1(),
        _ => loop {
            let x = U256::from_be(&rand32(rng));
            if !x.is_zero() && x.lt(order) { break x; }
        },
    }
}

// ------------------------------------------------------------------------------------------
// secp256r1 through fuel_crypto::secp256r1 only (the p256 types are reached by inference)
// ------------------------------------------------------------------------------------------
fn r1_pk(secret: &[u8; 32]) -> Result<[u8; 64], String> {
    let s = *secret;
    catch(move || {
        let m = Message::from_bytes([7u8; 32]);
        let key = TryFrom::try_from(&s[..]).map_err(|_| "bad key".to_string())?;
        let _ = fuel_crypto::secp256r1::sign_prehashed(&key, &m); // fixes the key type
        Ok::<[u8; 64], String>(fuel_crypto::secp256r1::encode_pubkey(*key.verifying_key()))
    }).and_then(|r| r)
}

fn r1_sign(secret: &[u8; 32], m: &Message) -> Result<Result<[u8; 64], String>, String> {
    let s = *secret;
    let m = *m;
    catch(move || {
        let key = TryFrom::try_from(&s[..]).map_err(|_| "bad key".to_string())?;
        fuel_crypto::secp256r1::sign_prehashed(&key, &m).map(|b| *b).map_err(|e| format!("{e:?}"))
    })
}

// ------------------------------------------------------------------------------------------
// VM side
// ------------------------------------------------------------------------------------------
struct VmOut { result: String, pre_err: u64, err: u64, out: Option<Vec<u8>> }

fn run_vm(script: Vec<Instruction>, data: Vec<u8>) -> Result<VmOut, String> {
    catch(move || {
        let mut client = MemoryClient::default();
        let tx = TransactionBuilder::script(script.into_iter().collect(), data)
            .script_gas_limit(2_000_000)
            .maturity(Default::default())
            .add_fee_input()
            .finalize_checked(Default::default());
        let receipts = client.transact(tx).to_vec();
        let mut logs = vec![];
        let mut out = None;
        let mut result = "none".to_string();
        for r in &receipts {
            match r {
                Receipt::Log { ra, .. } => logs.push(*ra),
                Receipt::LogData { data, .. } => out = data.clone().map(|d| d.to_vec()),
                Receipt::ScriptResult { result: res, .. } => {
                    result = match res { ScriptExecutionResult::Success => "Success".into(), other => format!("{other:?}") };
                }
                Receipt::Panic { reason, .. } => result = format!("Panic({:?})", reason.reason()),
                _ => {}
            }
        }
        if result == "Success" && logs.len() != 2 { result = format!("Success-but-{}-logs", logs.len()); }
        VmOut { result, pre_err: logs.first().copied().unwrap_or(99), err: logs.get(1).copied().unwrap_or(99), out }
    })
}

fn set_err_prefix(s: &mut Vec<Instruction>) {
    // $err := 1 without panicking: unsafe-math flag, then divide by zero
    s.push(op::movi(0x15, 1));
    s.push(op::flag(0x15));
    s.push(op::div(0x16, RegId::ONE, RegId::ZERO));
}

/// ECK1 / ECR1: the 64-byte destination is pre-filled with 0xff so that "writes 64 zero bytes" is observable
fn vm_recover(alg: &str, sig: &[u8; 64], msg: &[u8; 32], pre_err: bool) -> Result<VmOut, String> {
    let mut s = vec![
        op::gtf_args(0x20, 0x00, GTFArgs::ScriptData),
        op::addi(0x21, 0x20, 64),
        op::movi(0x10, 64),
        op::aloc(0x10),
        op::move_(0x11, RegId::HP),
        op::not(0x13, RegId::ZERO),
    ];
    for i in 0..8 { s.push(op::sw(0x11, 0x13, i)); }
    if pre_err { set_err_prefix(&mut s); }
    s.push(op::log(RegId::ERR, RegId::ZERO, RegId::ZERO, RegId::ZERO));
    s.push(if alg == "k1" { op::eck1(0x11, 0x20, 0x21) } else { op::ecr1(0x11, 0x20, 0x21) });
    s.push(op::log(RegId::ERR, RegId::ZERO, RegId::ZERO, RegId::ZERO));
    s.push(op::logd(RegId::ZERO, RegId::ZERO, 0x11, 0x10));
    s.push(op::ret(RegId::ONE));
    let data: Vec<u8> = sig.iter().chain(msg.iter()).copied().collect();
    run_vm(s, data)
}

fn vm_ed(pk: &[u8; 32], sig: &[u8; 64], mem: &[u8], len: u32, pre_err: bool) -> Result<VmOut, String> {
    let mut s = vec![
        op::gtf_args(0x20, 0x00, GTFArgs::ScriptData),
        op::addi(0x21, 0x20, 64),
        op::addi(0x22, 0x21, 32),
        op::movi(0x23, len),
    ];
    if pre_err { set_err_prefix(&mut s); }
    s.push(op::log(RegId::ERR, RegId::ZERO, RegId::ZERO, RegId::ZERO));
    s.push(op::ed19(0x21, 0x20, 0x22, 0x23));
    s.push(op::log(RegId::ERR, RegId::ZERO, RegId::ZERO, RegId::ZERO));
    s.push(op::ret(RegId::ONE));
    let data: Vec<u8> = sig.iter().chain(pk.iter()).chain(mem.iter()).copied().collect();
    run_vm(s, data)
}

// ------------------------------------------------------------------------------------------
// library calls, logged
// ------------------------------------------------------------------------------------------
fn lib_recover(alg: &str, sig: &[u8; 64], msg: &[u8; 32]) -> Result<Result<[u8; 64], String>, String> {
    let (sig, msg, k1) = (*sig, *msg, alg == "k1");
    catch(move || {
        let m = Message::from_bytes(msg);
        if k1 {
            Signature::from_bytes(sig).recover(&m).map(|p| *p).map_err(|e| format!("{e:?}"))
        } else {
            fuel_crypto::secp256r1::recover(&Bytes64::from(sig), &m).map(|p| *p).map_err(|e| format!("{e:?}"))
        }
    })
}

fn ev_recover(out: &mut Out, alg: &str, sig: &[u8; 64], msg: &[u8; 32], how: &str, reenc_of: Option<&[u8; 64]>) -> Option<Result<[u8; 64], String>> {
    match lib_recover(alg, sig, msg) {
        Ok(r) => {
            let mut e = json!({"ev": "Recover", "alg": alg, "sig": hx(sig), "m": hx(msg), "ok": r.is_ok(), "how": how});
            match &r { Ok(pk) => e["pk"] = json!(hx(pk)), Err(er) => e["err"] = json!(er) }
            if let Some(o) = reenc_of { e["reenc_of"] = json!(hx(o)); }
            out.ev(e);
            Some(r)
        }
        Err(p) => { out.ev(json!({"ev": "HostPanic", "where": format!("{alg}/recover"), "alg": alg, "sig": hx(sig), "m": hx(msg), "how": how, "msg": p})); None }
    }
}

/// the ways a Signature value can travel through its public encodings
fn reencode(rng: &mut StdRng, sig: &[u8; 64]) -> (Result<[u8; 64], String>, &'static str) {
    let s = *sig;
    match rng.gen_range(0..7) {
        0 => (catch(move || *Signature::from_str(&format!("{:x}", Signature::from_bytes(s))).expect("hex")), "reenc-hex"),
        1 => (catch(move || *Signature::from_str(&format!("{:X}", Signature::from_bytes(s))).expect("HEX")), "reenc-HEX"),
        2 => (catch(move || { let b = bincode::serialize(&Signature::from_bytes(s)).expect("ser"); *bincode::deserialize::<Signature>(&b).expect("de") }), "reenc-bincode"),
        3 => (catch(move || { let b = postcard::to_allocvec(&Signature::from_bytes(s)).expect("ser"); *postcard::from_bytes::<Signature>(&b).expect("de") }), "reenc-postcard"),
        4 => (catch(move || { let b = serde_json::to_string(&Signature::from_bytes(s)).expect("ser"); *serde_json::from_str::<Signature>(&b).expect("de") }), "reenc-json"),
        5 => (catch(move || { let r = *Signature::from_bytes_ref(&s); let b: Bytes64 = r.into(); let a: [u8; 64] = b.into(); a }), "reenc-ref-bytes64"),
        _ => (catch(move || { let g = Signature::from_bytes(s); let mut a = g.remove_recovery_id(); a[32] |= s[32] & 0x80; a }), "reenc-strip-and-restore-bit"),
    }
}

struct Made { ki: usize, mi: usize, sig: [u8; 64] }

fn ec_history(out: &mut Out, rng: &mut StdRng, alg: &str, nops: usize, vm_share: u32) {
    out.ev(json!({"ev": "Seg", "part": alg}));
    let order = U256::from_hex(if alg == "k1" { K1_N } else { R1_N });
    let nk = rng.gen_range(10..=20);
    let nm = rng.gen_range(10..=20);
    // keys
    let mut sks: Vec<[u8; 32]> = vec![];
    let mut pks: Vec<[u8; 64]> = vec![];
    let off = rng.gen_range(0..6);
    for j in 0..nk {
        let sk = loop {
            let c = scalar_for(rng, &order, if j < 6 { j + off } else { 5 }).to_be();
            if !sks.contains(&c) { break c; }
        };
        let pk: Result<[u8; 64], String> = if alg == "k1" {
            catch(move || *SecretKey::try_from(Bytes32::from(sk)).expect("secret").public_key())
        } else { r1_pk(&sk) };
        match pk {
            Ok(pk) => { out.ev(json!({"ev": "Key", "alg": alg, "sk": hx(sk), "pk": hx(pk)})); sks.push(sk); pks.push(pk); }
            Err(p) => out.ev(json!({"ev": "HostPanic", "where": format!("{alg}/public_key"), "sk": hx(sk), "msg": p})),
        }
    }
    if sks.is_empty() { return; }
    // messages: digests of random data and raw boundary values
    let mut msgs: Vec<[u8; 32]> = vec![];
    for j in 0..nm {
        let m = match j {
            // (no two pool messages are congruent mod n: that case has its own segment, see congruent_history)
            0 => [0u8; 32],
            1 => [0xff; 32],
            2 => order.sub(&U256::ONE).0.to_be(),
            3 => U256::ONE.to_be(),
            _ if j % 2 == 0 => *Message::new(rbytes(rng, 100)),
            _ => rand32(rng),
        };
        if !msgs.contains(&m) { msgs.push(m); }
    }
    let mut made: Vec<Made> = vec![];
    for _ in 0..nops {
        let do_sign = made.is_empty() || rng.gen_range(0..100) < 22;
        if do_sign {
            let ki = rng.gen_range(0..sks.len());
            let mi = rng.gen_range(0..msgs.len());
            let (sk, m) = (sks[ki], msgs[mi]);
            let r: Result<Result<[u8; 64], String>, String> = if alg == "k1" {
                catch(move || Ok(*Signature::sign(&SecretKey::try_from(Bytes32::from(sk)).expect("secret"), &Message::from_bytes(m))))
            } else { r1_sign(&sk, &Message::from_bytes(m)) };
            match r {
                Ok(Ok(sig)) => { out.ev(json!({"ev": "Sign", "alg": alg, "sk": hx(sk), "m": hx(m), "sig": hx(sig), "ok": true})); made.push(Made { ki, mi, sig }); }
                Ok(Err(e)) => out.ev(json!({"ev": "Sign", "alg": alg, "sk": hx(sk), "m": hx(m), "ok": false, "err": e})),
                Err(p) => out.ev(json!({"ev": "HostPanic", "where": format!("{alg}/sign"), "alg": alg, "sk": hx(sk), "m": hx(m), "msg": p})),
            }
            continue;
        }
        let base = &made[rng.gen_range(0..made.len())];
        // the signature presented
        let mut sig = base.sig;
        let mut reenc_of: Option<[u8; 64]> = None;
        let mut how: String = match rng.gen_range(0..100) {
            0..=29 => "valid".into(),
            30..=44 => { sig[32] ^= 0x80; "flip-recovery-bit".into() }
            45..=62 => { let i = rng.gen_range(0..512); sig[i / 8] ^= 0x80 >> (i % 8); format!("flip-bit-{i}") }
            63..=82 => {
                let (r, tag) = reencode(rng, &sig);
                match r {
                    Ok(s2) => { reenc_of = Some(sig); sig = s2; tag.into() }
                    Err(p) => { out.ev(json!({"ev": "HostPanic", "where": tag, "sig": hx(sig), "msg": p})); continue; }
                }
            }
            83..=87 => { for b in &mut sig[..32] { *b = 0; } "r-zero".into() }
            88..=91 => { let (a, b) = sig.split_at_mut(32); a.swap_with_slice(b); "swap-r-s".into() }
            92..=95 => { sig[63] = sig[63].wrapping_add(1); "s-plus-1".into() }
            _ => { let o = &made[rng.gen_range(0..made.len())]; sig[32..].copy_from_slice(&o.sig[32..]); "s-of-other-signature".into() }
        };
        // the message presented
        let mut m = msgs[base.mi];
        match rng.gen_range(0..100) {
            0..=59 => {}
            60..=84 => { m = msgs[rng.gen_range(0..msgs.len())]; how.push_str("+msg-from-pool"); }
            _ => { let i = rng.gen_range(0..256); m[i / 8] ^= 1 << (i % 8); how.push_str("+msg-bit-flipped"); }
        }
        let choice = rng.gen_range(0..100);
        if alg == "k1" && choice < 35 {
            // Verify against the signer's key, another honest key, or whatever key recovery yields
            let pk: [u8; 64] = match rng.gen_range(0..12) {
                0..=5 => pks[base.ki],
                6..=7 => pks[rng.gen_range(0..pks.len())],
                8 => { let mut p = pks[base.ki]; let i = rng.gen_range(0..512); p[i / 8] ^= 1 << (i % 8); how.push_str("+pk-bit-flipped"); p }
                9 => { let mut p = [0u8; 64]; rng.fill(&mut p[..]); how.push_str("+pk-random-bytes"); p }
                _ => match ev_recover(out, alg, &sig, &m, &how, reenc_of.as_ref()) { Some(Ok(pk)) => pk, _ => pks[base.ki] },
            };
            let r = catch(move || {
                // PublicKey has no infallible constructor from bytes; it is a plain 64-byte container
                let mut key = PublicKey::default();
                key.as_mut().copy_from_slice(&pk);
                Signature::from_bytes(sig).verify(&key, &Message::from_bytes(m)).map_err(|e| format!("{e:?}"))
            });
            match r {
                Ok(r) => {
                    let mut e = json!({"ev": "Verify", "alg": alg, "sig": hx(sig), "pk": hx(pk), "m": hx(m), "ok": r.is_ok(), "how": how});
                    if let Err(er) = &r { e["err"] = json!(er); }
                    if let Some(o) = reenc_of { e["reenc_of"] = json!(hx(o)); }
                    out.ev(e);
                }
                Err(p) => out.ev(json!({"ev": "HostPanic", "where": "k1/verify", "sig": hx(sig), "pk": hx(pk), "m": hx(m), "msg": p})),
            }
        } else {
            let r = ev_recover(out, alg, &sig, &m, &how, reenc_of.as_ref());
            if r.is_some() && rng.gen_range(0..100) < vm_share {
                let pre = rng.gen_bool(0.5);
                match vm_recover(alg, &sig, &m, pre) {
                    Ok(v) => out.ev(json!({"ev": "VmRecover", "alg": alg, "sig": hx(sig), "m": hx(m), "result": v.result, "out": v.out.map(hx).unwrap_or_default(),
                                           "err": v.err, "pre_err": v.pre_err, "how": how})),
                    Err(p) => out.ev(json!({"ev": "HostPanic", "where": format!("vm/{alg}"), "sig": hx(sig), "m": hx(m), "msg": p})),
                }
            }
        }
    }
}

/// Two DIFFERENT 32-byte messages that denote the same scalar mod n (v and v + n, v < 2^256 - n):
/// sign one, present the signature with the other.  Kept in its own segment.
fn congruent_history(out: &mut Out, rng: &mut StdRng, alg: &str) {
    out.ev(json!({"ev": "Seg", "part": format!("{alg}-congruent")}));
    let order = U256::from_hex(if alg == "k1" { K1_N } else { R1_N });
    let sk = scalar_for(rng, &order, 5).to_be();
    let pk: Result<[u8; 64], String> = if alg == "k1" {
        catch(move || *SecretKey::try_from(Bytes32::from(sk)).expect("secret").public_key())
    } else { r1_pk(&sk) };
    let Ok(pk) = pk else { out.ev(json!({"ev": "HostPanic", "where": format!("{alg}/public_key"), "sk": hx(sk)})); return; };
    out.ev(json!({"ev": "Key", "alg": alg, "sk": hx(sk), "pk": hx(pk)}));
    for j in 0..4 {
        let v = match j { 0 => U256::ZERO, 1 => U256::ONE, _ => U256([rng.gen(), rng.gen::<u64>() >> 1, 0, 0]) };
        let (lo, hi) = (v.to_be(), v.add(&order).0.to_be());
        let (signed_m, shown_m) = if j % 2 == 0 { (lo, hi) } else { (hi, lo) };
        let r: Result<Result<[u8; 64], String>, String> = if alg == "k1" {
            catch(move || Ok(*Signature::sign(&SecretKey::try_from(Bytes32::from(sk)).expect("secret"), &Message::from_bytes(signed_m))))
        } else { r1_sign(&sk, &Message::from_bytes(signed_m)) };
        let Ok(Ok(sig)) = r else { out.ev(json!({"ev": "HostPanic", "where": format!("{alg}/sign"), "sk": hx(sk), "m": hx(signed_m)})); continue; };
        out.ev(json!({"ev": "Sign", "alg": alg, "sk": hx(sk), "m": hx(signed_m), "sig": hx(sig), "ok": true}));
        ev_recover(out, alg, &sig, &shown_m, "msg-congruent-mod-n", None);
    }
}

// ------------------------------------------------------------------------------------------
// Ed25519
// ------------------------------------------------------------------------------------------
const SMALL_ORDER: [&str; 14] = [
    "0100000000000000000000000000000000000000000000000000000000000000",
    "ecffffffffffffffffffffffffffffffffffffffffffffffffffffffffffff7f",
    "0000000000000000000000000000000000000000000000000000000000000000",
    "0000000000000000000000000000000000000000000000000000000000000080",
    "26e8958fc2b227b045c3f489f2ef98f0d5dfac05d3c63339b13802886d53fc05",
    "26e8958fc2b227b045c3f489f2ef98f0d5dfac05d3c63339b13802886d53fc85",
    "c7176a703d4dd84fba3c0b760d10670f2a2053fa2c39ccc64ec7fd7792ac037a",
    "c7176a703d4dd84fba3c0b760d10670f2a2053fa2c39ccc64ec7fd7792ac03fa",
    // non-canonical encodings of the same points (y >= p, or a sign bit on x = 0)
    "0100000000000000000000000000000000000000000000000000000000000080",
    "ecffffffffffffffffffffffffffffffffffffffffffffffffffffffffffffff",
    "edffffffffffffffffffffffffffffffffffffffffffffffffffffffffffff7f",
    "edffffffffffffffffffffffffffffffffffffffffffffffffffffffffffffff",
    "eeffffffffffffffffffffffffffffffffffffffffffffffffffffffffffff7f",
    "eeffffffffffffffffffffffffffffffffffffffffffffffffffffffffffffff",
];

fn ed_case(out: &mut Out, pk: &[u8; 32], sig: &[u8; 64], m: &[u8], how: &str) -> bool {
    use ed25519_dalek::Verifier;
    let (p, s, mm) = (*pk, *sig, m.to_vec());
    let lib = catch(move || fuel_crypto::ed25519::verify(&Bytes32::from(p), &Bytes64::from(s), &mm).map_err(|e| format!("{e:?}")));
    let mm = m.to_vec();
    let strict = catch(move || ed25519_dalek::VerifyingKey::from_bytes(&p).map(|vk| vk.verify_strict(&mm, &ed25519_dalek::Signature::from_bytes(&s)).is_ok()).unwrap_or(false));
    let mm = m.to_vec();
    let lax = catch(move || ed25519_dalek::VerifyingKey::from_bytes(&p).map(|vk| vk.verify(&mm, &ed25519_dalek::Signature::from_bytes(&s)).is_ok()).unwrap_or(false));
    match (lib, strict, lax) {
        (Ok(l), Ok(st), Ok(lx)) => {
            let mut e = json!({"ev": "EdVerify", "alg": "ed", "pk": hx(pk), "sig": hx(sig), "m": hx(m), "ok": l.is_ok(), "strict": st, "lax": lx, "how": how});
            if let Err(er) = &l { e["err"] = json!(er); }
            out.ev(e);
            true
        }
        (l, st, lx) => { out.ev(json!({"ev": "HostPanic", "where": "ed/verify", "pk": hx(pk), "sig": hx(sig), "m": hx(m), "how": how, "msg": format!("{l:?} {st:?} {lx:?}")})); false }
    }
}

fn ed_vm(out: &mut Out, rng: &mut StdRng, pk: &[u8; 32], sig: &[u8; 64], mem: &[u8], len: u32, how: &str) {
    let pre = rng.gen_bool(0.5);
    match vm_ed(pk, sig, mem, len, pre) {
        Ok(v) => out.ev(json!({"ev": "VmEd", "pk": hx(pk), "sig": hx(sig), "mem": hx(mem), "len": len, "result": v.result, "err": v.err, "pre_err": v.pre_err, "how": how})),
        Err(p) => out.ev(json!({"ev": "HostPanic", "where": "vm/ed", "pk": hx(pk), "sig": hx(sig), "msg": p})),
    }
}

fn ed_history(out: &mut Out, rng: &mut StdRng, ncases: usize, vm_share: u32) {
    use ed25519_dalek::Signer;
    out.ev(json!({"ev": "Seg", "part": "ed"}));
    let ell = U256::from_hex(ED_L);
    let nk = rng.gen_range(6..=10);
    let mut keys: Vec<(ed25519_dalek::SigningKey, [u8; 32])> = vec![];
    for j in 0..nk {
        let seed = match j { 0 => [0u8; 32], 1 => [0xff; 32], _ => rand32(rng) };
        let sk = ed25519_dalek::SigningKey::from_bytes(&seed);
        let pk = sk.verifying_key().to_bytes();
        out.ev(json!({"ev": "Key", "alg": "ed", "sk": hx(seed), "pk": hx(pk)}));
        keys.push((sk, pk));
    }
    let mut made: Vec<(usize, Vec<u8>, [u8; 64])> = vec![];
    for c in 0..ncases {
        if made.is_empty() || rng.gen_range(0..100) < 25 {
            let ki = rng.gen_range(0..keys.len());
            let len = match rng.gen_range(0..8) { 0 => 0, 1 => 1, 2 => 31, 3 => 32, 4 => 33, 5 => 64, _ => rng.gen_range(0..200) };
            let m: Vec<u8> = (0..len).map(|_| rng.gen::<u8>()).collect();
            let sig = keys[ki].0.sign(&m).to_bytes();
            out.ev(json!({"ev": "Sign", "alg": "ed", "sk": hx(keys[ki].0.to_bytes()), "m": hx(&m), "sig": hx(sig), "ok": true}));
            made.push((ki, m, sig));
            continue;
        }
        let (ki, m0, sig0) = made[rng.gen_range(0..made.len())].clone();
        let mut pk = keys[ki].1;
        let mut sig = sig0;
        let mut m = m0.clone();
        let how: String = match (c + rng.gen_range(0..3)) % 16 {
            0 | 1 | 2 => "valid".into(),
            3 => { let i = rng.gen_range(0..512); sig[i / 8] ^= 1 << (i % 8); format!("sig-flip-bit-{i}") }
            4 => { let i = rng.gen_range(0..256); pk[i / 8] ^= 1 << (i % 8); format!("pk-flip-bit-{i}") }
            5 => { if m.is_empty() { m.push(0); } else { let i = rng.gen_range(0..m.len() * 8); m[i / 8] ^= 1 << (i % 8); } "msg-flip-bit".into() }
            6 => { if m.is_empty() { m.push(1); } else { m.pop(); } "msg-truncated-or-grown".into() }
            7 => { pk = keys[rng.gen_range(0..keys.len())].1; "pk-of-pool-key".into() }
            8 => {
                // s + L: the same scalar mod L in a non-canonical encoding
                let mut sb = [0u8; 32]; sb.copy_from_slice(&sig[32..]);
                let (s2, carry) = U256::from_le(&sb).add(&ell);
                if !carry { sig[32..].copy_from_slice(&s2.to_le()); }
                "s-plus-L".into()
            }
            9 => {
                let v = match rng.gen_range(0..4) { 0 => ell, 1 => ell.sub(&U256::ONE).0, 2 => U256::ZERO, _ => U256([u64::MAX; 4]) };
                sig[32..].copy_from_slice(&v.to_le());
                "s-constant".into()
            }
            10 | 11 => {
                // small-order public key with R small-order and s = 0 (accepted by cofactorless lax verification when [k]A = -R)
                let a = unhx(SMALL_ORDER[rng.gen_range(0..SMALL_ORDER.len())]);
                let r = unhx(SMALL_ORDER[rng.gen_range(0..SMALL_ORDER.len())]);
                pk.copy_from_slice(&a);
                sig = [0u8; 64];
                sig[..32].copy_from_slice(&r);
                "small-order-A-and-R".into()
            }
            12 => { let r = unhx(SMALL_ORDER[rng.gen_range(0..SMALL_ORDER.len())]); sig[..32].copy_from_slice(&r); "small-order-R".into() }
            13 => { let a = unhx(SMALL_ORDER[rng.gen_range(0..SMALL_ORDER.len())]); pk.copy_from_slice(&a); "small-order-A".into() }
            14 => { let (_, _, s2) = &made[rng.gen_range(0..made.len())]; sig[32..].copy_from_slice(&s2[32..]); "s-of-other-signature".into() }
            _ => { let (_, _, s2) = &made[rng.gen_range(0..made.len())]; sig[..32].copy_from_slice(&s2[..32]); "R-of-other-signature".into() }
        };
        if !ed_case(out, &pk, &sig, &m, &how) { continue; }
        if rng.gen_range(0..100) < vm_share {
            if m.len() >= 1 && m.len() < 200_000 {
                ed_vm(out, rng, &pk, &sig, &m, m.len() as u32, &how);
            }
            // length register 0: the library answers for both readings are on record, TLC selects
            if m.len() >= 32 {
                if m.len() > 32 { ed_case(out, &pk, &sig, &m[..32], &format!("{how}+first-32")); }
                ed_vm(out, rng, &pk, &sig, &m, 0, &format!("{how}+len0"));
            }
        }
    }
}

pub fn record(o: &Opts) -> Res<()> {
    let mut out = Out::open(&o.out)?;
    let mut rng = o.rng(17);
    let thorough = o.thorough();
    let part = o.opt("--part").unwrap_or_else(|| "all".into());
    let want = |p: &str| part == "all" || part.split(',').any(|x| x == p);
    let scale = if thorough { 32 } else { 1 };
    if want("k1") { for _ in 0..(10 * scale) { let n = rng.gen_range(60..140); ec_history(&mut out, &mut rng, "k1", n, 20); } }
    if want("r1") { for _ in 0..(5 * scale) { let n = rng.gen_range(40..90); ec_history(&mut out, &mut rng, "r1", n, 20); } }
    if want("congruent") { congruent_history(&mut out, &mut rng, "k1"); congruent_history(&mut out, &mut rng, "r1"); }
    if want("ed") { for _ in 0..(6 * scale) { let n = rng.gen_range(80..160); ed_history(&mut out, &mut rng, n, 30); } }
    let n = out.finish();
    eprintln!("sig: {n} events");
    Ok(())
}
