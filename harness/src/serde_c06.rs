//! C06 — serde formats (JSON / postcard / bincode) of fuel-tx protocol types.
//!
//!   replay serde <behaviours.ndjson> -o out     TLC-predicted Policies encodings vs the real serde (Leg R)
//!   record serde --cases <behaviours.ndjson> [--part p,..] -o trace     observations for Serde_Trace.tla (Leg T)
//!
//! No expected values live here: `replay` compares against encodings printed by TLC, `record` logs
//! value projections / encodings and TLC decides.
use crate::serde_gasgen::{self, Src};
use crate::util::*;
use fuel_tx::consensus_parameters::{
    ConsensusParametersV1, ConsensusParametersV2, ContractParametersV1, FeeParametersV1, PredicateParametersV1,
    ScriptParametersV1, ScriptParametersV2, TxParametersV1,
};
use fuel_tx::policies::{Policies, PolicyType};
use fuel_tx::test_helper::TransactionFactory;
use fuel_tx::{
    field, Blob, ConsensusParameters, ContractParameters, Create, DependentCost, FeeParameters, GasCosts, Mint,
    PredicateParameters, Receipt, Script, ScriptExecutionResult, ScriptParameters, Transaction, TxParameters, Upgrade,
    UpgradeMetadata, UpgradePurpose, Upload, ValidityError,
};
use fuel_types::bytes::Bytes;
use fuel_types::canonical::Serialize as _;
use rand::rngs::StdRng;
use rand::Rng;
use serde::de::DeserializeOwned;
use serde_json::{json, Value};
use sha2::{Digest, Sha256};

const PTYPES: [PolicyType; 6] = [
    PolicyType::Tip,
    PolicyType::WitnessLimit,
    PolicyType::Maturity,
    PolicyType::MaxFee,
    PolicyType::Expiration,
    PolicyType::Owner,
];

// ------------------------------------------------------------------------------------------
// plumbing
// ------------------------------------------------------------------------------------------
/// long strings are carried as a digest (plumbing only: TLC compares two of these for equality)
fn short(s: String) -> String {
    if s.len() <= 160 { s } else { format!("#{}:{}", s.len(), hx(Sha256::digest(s.as_bytes()))) }
}
fn shx(b: &[u8]) -> String { short(hx(b)) }

/// boundary-biased u64 (varint length boundaries, 32/63/64-bit edges)
pub fn bword(rng: &mut StdRng) -> u64 {
    const B: [u64; 16] = [
        0, 1, 127, 128, 255, 256, 16383, 16384, 0xffff_ffff, 0x1_0000_0000, (1 << 53) + 1, 1 << 56, (1 << 63) - 1,
        1 << 63, u64::MAX - 1, u64::MAX,
    ];
    match rng.gen_range(0..10) {
        0..=5 => B[rng.gen_range(0..B.len())],
        6 => rng.gen::<u8>() as u64,
        7 => rng.gen::<u32>() as u64,
        _ => rng.gen(),
    }
}
fn b16(rng: &mut StdRng) -> u16 {
    match rng.gen_range(0..6) { 0 => 0, 1 => 127, 2 => 128, 3 => u16::MAX, _ => rng.gen() }
}
fn b32(rng: &mut StdRng) -> u32 {
    match rng.gen_range(0..6) { 0 => 0, 1 => 16384, 2 => u32::MAX, _ => rng.gen() }
}
fn blen(rng: &mut StdRng) -> usize {
    const L: [usize; 10] = [0, 1, 2, 8, 127, 128, 129, 255, 256, 300];
    if rng.gen_bool(0.7) { L[rng.gen_range(0..L.len())] } else { rng.gen_range(0..600) }
}
fn bvec(rng: &mut StdRng) -> Vec<u8> {
    let n = blen(rng);
    (0..n).map(|_| rng.gen::<u8>()).collect()
}

fn build_policies(bits: u32, vals: &[u64]) -> Policies {
    let mut p = Policies::new();
    for (i, t) in PTYPES.iter().enumerate() {
        if bits & (1 << i) != 0 { p.set(*t, Some(vals[i])); }
    }
    p
}
fn pol_vals(p: &Policies) -> Vec<String> { PTYPES.iter().map(|t| p.get(*t).unwrap_or(0).to_string()).collect() }
fn pol_proj(p: &Policies) -> Value { json!({"bits": p.bits(), "vals": pol_vals(p)}) }

/// serde_json value of a Policies -> the same structure with numbers as decimal strings
fn pol_json_norm(v: &Value) -> Value {
    let vals: Vec<Value> = v["values"].as_array().map(|a| a.iter().map(|x| Value::String(x.to_string())).collect()).unwrap_or_default();
    json!({"bits": v["bits"].clone(), "values": vals})
}
/// JSON text of a Policies in object form / sequence form from the normalised structure
fn pol_json_text(norm: &Value, seq: bool) -> String {
    let nums: Vec<String> = norm["values"].as_array().unwrap().iter().map(|x| x.as_str().unwrap().to_string()).collect();
    let bits = serde_json::to_string(&norm["bits"]).unwrap();
    if seq { format!("[{},[{}]]", bits, nums.join(",")) } else { format!("{{\"bits\":{},\"values\":[{}]}}", bits, nums.join(",")) }
}

fn de_policies(fmt: &str, input: &Value) -> Result<Policies, String> {
    let r = catch(std::panic::AssertUnwindSafe(|| -> Result<Policies, String> {
        match fmt {
            "json-map" => serde_json::from_str(&pol_json_text(input, false)).map_err(|e| e.to_string()),
            "json-seq" => serde_json::from_str(&pol_json_text(input, true)).map_err(|e| e.to_string()),
            "postcard" => postcard::from_bytes(&unhx(input.as_str().unwrap())).map_err(|e| e.to_string()),
            "bincode" => bincode::deserialize(&unhx(input.as_str().unwrap())).map_err(|e| e.to_string()),
            _ => Err("fmt".into()),
        }
    }));
    match r { Ok(x) => x, Err(p) => Err(format!("host panic: {p}")) }
}

// ------------------------------------------------------------------------------------------
// Leg R: TLC-predicted encodings of every Policies value
// ------------------------------------------------------------------------------------------
pub fn replay(o: &Opts) -> Res<()> {
    let lines = read_lines(o.input.as_ref().expect("input"))?;
    let mut out = Out::open(&o.out)?;
    let (mut n, mut steps) = (0u64, 0u64);
    let mut reported: std::collections::HashMap<String, u32> = std::collections::HashMap::new();   // at most 20 records per kind
    for (bi, b) in lines.iter().enumerate() {
        if b["t"] != "Policies" { continue; }
        n += 1;
        let bits = ju64(b, "bits") as u32;
        let vals: Vec<u64> = b["vals"].as_array().unwrap().iter().map(|x| x.as_str().unwrap().parse().unwrap()).collect();
        let layout = jstr(b, "layout");
        let p = build_policies(bits, &vals);
        let mut mism = |what: &str, exp: Value, obs: Value, out: &mut Out| {
            let c = reported.entry(format!("{what}/{layout}")).or_insert(0);
            *c += 1;
            if *c <= 20 { out.ev(json!({"mismatch": format!("{what}/{layout}"), "beh": bi, "step": 0, "bits": bits, "expected": exp, "observed": obs, "behaviour": b})); }
        };
        // --- Ser: the real encodings against the predicted ones ---
        steps += 1;
        match catch(std::panic::AssertUnwindSafe(|| serde_json::to_value(&p))) {
            Ok(Ok(v)) => {
                let nv = pol_json_norm(&v);
                if nv != b["json"] { mism("policies-ser-json", b["json"].clone(), nv, &mut out); }
            }
            Ok(Err(e)) => mism("policies-ser-json-error", b["json"].clone(), json!(e.to_string()), &mut out),
            Err(pn) => mism("policies-ser-json-host-panic", b["json"].clone(), json!(pn), &mut out),
        }
        steps += 1;
        match catch(std::panic::AssertUnwindSafe(|| postcard::to_allocvec(&p))) {
            Ok(Ok(v)) => if hx(&v) != jstr(b, "postcard") { mism("policies-ser-postcard", b["postcard"].clone(), json!(hx(&v)), &mut out); },
            Ok(Err(e)) => mism("policies-ser-postcard-error", b["postcard"].clone(), json!(e.to_string()), &mut out),
            Err(pn) => mism("policies-ser-postcard-host-panic", b["postcard"].clone(), json!(pn), &mut out),
        }
        steps += 1;
        match catch(std::panic::AssertUnwindSafe(|| bincode::serialize(&p))) {
            Ok(Ok(v)) => if hx(&v) != jstr(b, "bincode") { mism("policies-ser-bincode", b["bincode"].clone(), json!(hx(&v)), &mut out); },
            Ok(Err(e)) => mism("policies-ser-bincode-error", b["bincode"].clone(), json!(e.to_string()), &mut out),
            Err(pn) => mism("policies-ser-bincode-host-panic", b["bincode"].clone(), json!(pn), &mut out),
        }
        // --- De: the real decoders on the PREDICTED encodings must give the value back ---
        let want = json!({"bits": bits, "vals": b["vals"].clone()});
        for (fmt, input) in [("json-map", &b["json"]), ("json-seq", &b["json"]), ("postcard", &b["postcard"]), ("bincode", &b["bincode"])] {
            steps += 1;
            match de_policies(fmt, input) {
                Ok(q) => {
                    let got = pol_proj(&q);
                    if got != want { mism(&format!("policies-de-{fmt}"), want.clone(), got, &mut out); }
                    else if q != p { mism(&format!("policies-de-{fmt}-neq"), json!(format!("{p:?}")), json!(format!("{q:?}")), &mut out); }
                }
                Err(e) => mism(&format!("policies-de-{fmt}-rejected"), want.clone(), json!(e), &mut out),
            }
        }
    }
    out.ev(json!({"summary": {"behaviours": n, "steps": steps}}));
    out.finish();
    Ok(())
}

// ------------------------------------------------------------------------------------------
// Leg T: recording
// ------------------------------------------------------------------------------------------
/// one value through one format: encoding, decoding, re-encoding; everything observed is logged
fn rt_event<T, P>(out: &mut Out, typ: &str, kind: &str, tag: &Value, v: &T, proj: P)
where
    T: serde::Serialize + DeserializeOwned + PartialEq,
    P: Fn(&T) -> String,
{
    for fmt in ["json", "postcard", "bincode"] {
        let r = catch(std::panic::AssertUnwindSafe(|| -> Result<(Vec<u8>, T, Vec<u8>), String> {
            match fmt {
                "json" => {
                    let s = serde_json::to_vec(v).map_err(|e| format!("ser: {e}"))?;
                    let b: T = serde_json::from_slice(&s).map_err(|e| format!("de: {e}"))?;
                    let s2 = serde_json::to_vec(&b).map_err(|e| format!("reser: {e}"))?;
                    Ok((s, b, s2))
                }
                "postcard" => {
                    let s = postcard::to_allocvec(v).map_err(|e| format!("ser: {e}"))?;
                    let b: T = postcard::from_bytes(&s).map_err(|e| format!("de: {e}"))?;
                    let s2 = postcard::to_allocvec(&b).map_err(|e| format!("reser: {e}"))?;
                    Ok((s, b, s2))
                }
                _ => {
                    let s = bincode::serialize(v).map_err(|e| format!("ser: {e}"))?;
                    let b: T = bincode::deserialize(&s).map_err(|e| format!("de: {e}"))?;
                    let s2 = bincode::serialize(&b).map_err(|e| format!("reser: {e}"))?;
                    Ok((s, b, s2))
                }
            }
        }));
        let mut ev = json!({"ev": "RT", "type": typ, "kind": kind, "fmt": fmt, "tag": tag});
        match r {
            Ok(Ok((s, b, s2))) => {
                ev["ok"] = json!(true);
                ev["orig"] = json!(short(proj(v)));
                ev["back"] = json!(short(proj(&b)));
                ev["eq"] = json!(b == *v);
                ev["ser"] = json!(shx(&s));
                ev["reser"] = json!(shx(&s2));
                ev["len"] = json!(s.len());
            }
            Ok(Err(e)) => {
                ev["ok"] = json!(false);
                ev["error"] = json!(e);
                ev["orig"] = json!(short(proj(v)));
            }
            Err(p) => { ev["ok"] = json!(false); ev["error"] = json!(format!("host panic: {p}")); }
        }
        out.ev(ev);
    }
}

fn tx_proj(t: &Transaction) -> String { hx(t.to_bytes()) }
fn receipt_proj(r: &Receipt) -> String {
    let extra = match r {
        Receipt::Panic { contract_id, .. } => format!("{contract_id:?}"),
        _ => String::new(),
    };
    format!("{}|{}|{}", hx(r.to_bytes()), r.data().map(hx).unwrap_or_else(|| "none".into()), extra)
}
fn dbg_proj<T: core::fmt::Debug>(v: &T) -> String { format!("{v:?}") }

fn rand_policies(rng: &mut StdRng, mask: u32) -> Policies {
    let vals: Vec<u64> = (0..6).map(|_| bword(rng)).collect();
    build_policies(mask, &vals)
}

struct GasSrc<'a>(&'a mut StdRng);
impl Src for GasSrc<'_> {
    fn w(&mut self) -> u64 { bword(self.0) }
    fn dep(&mut self) -> DependentCost {
        if self.0.gen_bool(0.5) { DependentCost::LightOperation { base: bword(self.0), units_per_gas: bword(self.0) } }
        else { DependentCost::HeavyOperation { base: bword(self.0), gas_per_unit: bword(self.0) } }
    }
}

fn make_cp(rng: &mut StdRng, kind: &str) -> Option<ConsensusParameters> {
    // kind = "V2/scriptV1/gasV3"
    let parts: Vec<&str> = kind.split('/').collect();
    if parts.len() != 3 { return None; }
    let gas = GasCosts::new(serde_gasgen::gas_version(parts[2].strip_prefix("gas")?, &mut GasSrc(rng))?);
    let tx_params = TxParameters::V1(TxParametersV1 {
        max_inputs: b16(rng), max_outputs: b16(rng), max_witnesses: b32(rng), max_gas_per_tx: bword(rng),
        max_size: bword(rng), max_bytecode_subsections: b16(rng),
    });
    let predicate_params = PredicateParameters::V1(PredicateParametersV1 {
        max_predicate_length: bword(rng), max_predicate_data_length: bword(rng), max_message_data_length: bword(rng),
        max_gas_per_predicate: bword(rng),
    });
    let script_params = match parts[1] {
        "scriptV1" => ScriptParameters::V1(ScriptParametersV1 { max_script_length: bword(rng), max_script_data_length: bword(rng) }),
        "scriptV2" => ScriptParameters::V2(ScriptParametersV2 {
            max_script_length: bword(rng), max_script_data_length: bword(rng), max_storage_slot_length: bword(rng),
        }),
        _ => return None,
    };
    let contract_params = ContractParameters::V1(ContractParametersV1 { contract_max_size: bword(rng), max_storage_slots: bword(rng) });
    let fee_params = FeeParameters::V1(FeeParametersV1 { gas_price_factor: bword(rng), gas_per_byte: bword(rng) });
    let chain_id = bword(rng).into();
    let base_asset_id = rng.gen();
    let privileged_address = rng.gen();
    Some(match parts[0] {
        "V1" => ConsensusParameters::V1(ConsensusParametersV1 {
            tx_params, predicate_params, script_params, contract_params, fee_params, chain_id, gas_costs: gas,
            base_asset_id, block_gas_limit: bword(rng), privileged_address,
        }),
        "V2" => ConsensusParameters::V2(ConsensusParametersV2 {
            tx_params, predicate_params, script_params, contract_params, fee_params, chain_id, gas_costs: gas,
            base_asset_id, block_gas_limit: bword(rng), block_transaction_size_limit: bword(rng), privileged_address,
        }),
        _ => return None,
    })
}

fn make_receipt(rng: &mut StdRng, kind: &str) -> Option<Receipt> {
    let data = |rng: &mut StdRng| -> Option<Bytes> { if rng.gen_bool(0.8) { Some(Bytes::new(bvec(rng))) } else { None } };
    Some(match kind {
        "Call" => Receipt::Call { id: rng.gen(), to: rng.gen(), amount: bword(rng), asset_id: rng.gen(), gas: bword(rng),
                                  param1: bword(rng), param2: bword(rng), pc: bword(rng), is: bword(rng) },
        "Return" => Receipt::Return { id: rng.gen(), val: bword(rng), pc: bword(rng), is: bword(rng) },
        "ReturnData" => Receipt::ReturnData { id: rng.gen(), ptr: bword(rng), len: bword(rng), digest: rng.gen(), pc: bword(rng),
                                              is: bword(rng), data: data(rng) },
        "Panic" => {
            let reason = fuel_asm::PanicReason::from(rng.gen_range(0u8..=0x40));
            Receipt::Panic { id: rng.gen(), reason: fuel_asm::PanicInstruction::error(reason, rng.gen()), pc: bword(rng), is: bword(rng),
                             contract_id: if rng.gen_bool(0.5) { Some(rng.gen()) } else { None } }
        }
        "Revert" => Receipt::Revert { id: rng.gen(), ra: bword(rng), pc: bword(rng), is: bword(rng) },
        "Log" => Receipt::Log { id: rng.gen(), ra: bword(rng), rb: bword(rng), rc: bword(rng), rd: bword(rng), pc: bword(rng), is: bword(rng) },
        "LogData" => Receipt::LogData { id: rng.gen(), ra: bword(rng), rb: bword(rng), ptr: bword(rng), len: bword(rng), digest: rng.gen(),
                                        pc: bword(rng), is: bword(rng), data: data(rng) },
        "Transfer" => Receipt::Transfer { id: rng.gen(), to: rng.gen(), amount: bword(rng), asset_id: rng.gen(), pc: bword(rng), is: bword(rng) },
        "TransferOut" => Receipt::TransferOut { id: rng.gen(), to: rng.gen(), amount: bword(rng), asset_id: rng.gen(), pc: bword(rng), is: bword(rng) },
        "ScriptResult" => {
            let result = match rng.gen_range(0..4) {
                0 => ScriptExecutionResult::Success,
                1 => ScriptExecutionResult::Revert,
                2 => ScriptExecutionResult::Panic,
                _ => ScriptExecutionResult::GenericFailure(bword(rng)),
            };
            Receipt::ScriptResult { result, gas_used: bword(rng) }
        }
        "MessageOut" => Receipt::MessageOut { sender: rng.gen(), recipient: rng.gen(), amount: bword(rng), nonce: rng.gen(), len: bword(rng),
                                              digest: rng.gen(), data: data(rng) },
        "Mint" => Receipt::Mint { sub_id: rng.gen(), contract_id: rng.gen(), val: bword(rng), pc: bword(rng), is: bword(rng) },
        "Burn" => Receipt::Burn { sub_id: rng.gen(), contract_id: rng.gen(), val: bword(rng), pc: bword(rng), is: bword(rng) },
        _ => return None,
    })
}

/// factory transactions of one kind, each with a different policy mask (all 64 over a long enough run)
fn make_txs(rng: &mut StdRng, kind: &str, n: usize, mask0: u32) -> Option<Vec<(Transaction, u32)>> {
    use field::Policies as _;
    let seed: u64 = rng.gen();
    let mut v = vec![];
    macro_rules! charge {
        ($t:ty) => {{
            for (i, (mut tx, _)) in TransactionFactory::<_, $t>::from_seed(seed).take(n).enumerate() {
                let mask = (mask0 + i as u32 * 7) % 64;
                *tx.policies_mut() = rand_policies(rng, mask);
                v.push((Transaction::from(tx), mask));
            }
        }};
    }
    match kind {
        "Script" => charge!(Script),
        "Create" => charge!(Create),
        "Upgrade" => charge!(Upgrade),
        "Upload" => charge!(Upload),
        "Blob" => charge!(Blob),
        "Mint" => for tx in TransactionFactory::<_, Mint>::from_seed(seed).take(n) { v.push((Transaction::from(tx), 64)); },
        _ => return None,
    }
    Some(v)
}

pub fn record(o: &Opts) -> Res<()> {
    let mut out = Out::open(&o.out)?;
    let thorough = o.thorough();
    let part = o.opt("--part").unwrap_or_else(|| "all".into());
    let want = |p: &str| part == "all" || part.split(',').any(|x| x == p);
    let cases: Vec<Value> = match o.opt("--cases") {
        Some(p) => read_lines(&p)?.into_iter().filter(|c| c["t"] == "Case").collect(),
        None => vec![],
    };

    // (a) Policies: every mask several times with boundary-biased values; both directions, four decoders
    if want("policies") {
        out.ev(json!({"ev": "Seg", "part": "policies"}));
        let mut rng = o.rng(601);
        let rounds = if thorough { 40 } else { 6 };
        for r in 0..rounds {
            for mask in 0u32..64 {
                let p = if r == 0 { build_policies(mask, &[u64::MAX; 6]) } else { rand_policies(&mut rng, mask) };
                let ser = catch(std::panic::AssertUnwindSafe(|| {
                    (serde_json::to_value(&p).map_err(|e| e.to_string()), postcard::to_allocvec(&p).map_err(|e| e.to_string()),
                     bincode::serialize(&p).map_err(|e| e.to_string()))
                }));
                let (j, pc, bc) = match ser {
                    Ok((Ok(j), Ok(pc), Ok(bc))) => (j, pc, bc),
                    Ok(e) => { out.ev(json!({"ev": "HostPanic", "where": "PolSer", "bits": mask, "error": format!("{e:?}")})); continue; }
                    Err(pn) => { out.ev(json!({"ev": "HostPanic", "where": "PolSer", "bits": mask, "error": pn})); continue; }
                };
                let nj = pol_json_norm(&j);
                out.ev(json!({"ev": "PolSer", "bits": p.bits(), "vals": pol_vals(&p), "json": nj, "postcard": hx(&pc), "bincode": hx(&bc),
                              "kind": if mask < 16 { "legacy" } else { "compact" }}));
                for (fmt, input) in [("json-map", nj.clone()), ("json-seq", nj.clone()), ("postcard", json!(hx(&pc))), ("bincode", json!(hx(&bc)))] {
                    match de_policies(fmt, &input) {
                        Ok(q) => out.ev(json!({"ev": "PolDe", "fmt": fmt, "input": input, "ok": true, "bits": q.bits(), "vals": pol_vals(&q),
                                               "eq": q == p, "kind": if mask < 16 { "legacy" } else { "compact" }})),
                        Err(e) => out.ev(json!({"ev": "PolDe", "fmt": fmt, "input": input, "ok": false, "bits": p.bits(), "vals": pol_vals(&p),
                                                "error": e, "kind": if mask < 16 { "legacy" } else { "compact" }})),
                    }
                }
            }
        }
    }

    // (b) Bytes: a byte string in all three formats
    if want("bytes") {
        out.ev(json!({"ev": "Seg", "part": "bytes"}));
        let mut rng = o.rng(602);
        let n = if thorough { 400 } else { 60 };
        for i in 0..n {
            let d: Vec<u8> = if i < 10 { vec![0xffu8; [0usize, 1, 2, 127, 128, 129, 255, 256, 257, 300][i]] } else { bvec(&mut rng) };
            let b = Bytes::new(d.clone());
            let ser = catch(std::panic::AssertUnwindSafe(|| {
                (serde_json::to_value(&b).map_err(|e| e.to_string()), postcard::to_allocvec(&b).map_err(|e| e.to_string()),
                 bincode::serialize(&b).map_err(|e| e.to_string()))
            }));
            let (j, pc, bc) = match ser {
                Ok((Ok(j), Ok(pc), Ok(bc))) => (j, pc, bc),
                Ok(e) => { out.ev(json!({"ev": "HostPanic", "where": "BytesSer", "error": format!("{e:?}")})); continue; }
                Err(pn) => { out.ev(json!({"ev": "HostPanic", "where": "BytesSer", "error": pn})); continue; }
            };
            out.ev(json!({"ev": "BytesSer", "data": hx(&d), "json": j, "postcard": hx(&pc), "bincode": hx(&bc), "len": d.len()}));
            let des: [(&str, Value, Result<Bytes, String>); 3] = [
                ("json", j.clone(), catch(std::panic::AssertUnwindSafe(|| serde_json::from_value::<Bytes>(j.clone()).map_err(|e| e.to_string()))).unwrap_or_else(|p| Err(p))),
                ("postcard", json!(hx(&pc)), catch(std::panic::AssertUnwindSafe(|| postcard::from_bytes::<Bytes>(&pc).map_err(|e| e.to_string()))).unwrap_or_else(|p| Err(p))),
                ("bincode", json!(hx(&bc)), catch(std::panic::AssertUnwindSafe(|| bincode::deserialize::<Bytes>(&bc).map_err(|e| e.to_string()))).unwrap_or_else(|p| Err(p))),
            ];
            for (fmt, input, r) in des {
                match r {
                    Ok(q) => out.ev(json!({"ev": "BytesDe", "fmt": fmt, "input": input, "ok": true, "data": hx(&*q), "len": d.len()})),
                    Err(e) => out.ev(json!({"ev": "BytesDe", "fmt": fmt, "input": input, "ok": false, "data": hx(&d), "error": e, "len": d.len()})),
                }
            }
        }
    }

    // (c) the enumerated variant / version space, instantiated with seeded values
    if want("rt") {
        let mut rng = o.rng(603);
        for (ci, c) in cases.iter().enumerate() {
            let (typ, kind) = (jstr(c, "type"), jstr(c, "kind"));
            out.ev(json!({"ev": "Seg", "part": "rt", "type": typ, "kind": kind}));
            match typ.as_str() {
                "Transaction" => {
                    let n = if thorough { 128 } else { 16 };
                    let txs = make_txs(&mut rng, &kind, n, (ci as u32 * 11) % 64).ok_or_else(|| format!("cannot build Transaction/{kind}"))?;
                    for (tx, mask) in txs { rt_event(&mut out, &typ, &kind, &json!({"mask": mask}), &tx, tx_proj); }
                }
                "Receipt" => {
                    let n = if thorough { 60 } else { 8 };
                    for _ in 0..n {
                        let r = make_receipt(&mut rng, &kind).ok_or_else(|| format!("cannot build Receipt/{kind}"))?;
                        let tag = json!({"data": r.data().map(|d| d.len() as i64).unwrap_or(-1)});
                        rt_event(&mut out, &typ, &kind, &tag, &r, receipt_proj);
                    }
                }
                "ConsensusParameters" => {
                    let n = if thorough { 12 } else { 2 };
                    for _ in 0..n {
                        let cp = make_cp(&mut rng, &kind).ok_or_else(|| format!("cannot build ConsensusParameters/{kind}"))?;
                        rt_event(&mut out, &typ, &kind, &json!({}), &cp, dbg_proj);
                    }
                }
                "GasCosts" => {
                    let n = if thorough { 12 } else { 3 };
                    for _ in 0..n {
                        let g = GasCosts::new(serde_gasgen::gas_version(&kind, &mut GasSrc(&mut rng)).ok_or_else(|| format!("cannot build GasCosts/{kind}"))?);
                        rt_event(&mut out, &typ, &kind, &json!({}), &g, dbg_proj);
                    }
                }
                "Policies" => {
                    let n = if thorough { 400 } else { 64 };
                    for i in 0..n {
                        let mask = if kind == "legacy" { (i % 16) as u32 } else { 16 + (i % 48) as u32 };
                        let p = rand_policies(&mut rng, mask);
                        rt_event(&mut out, &typ, &kind, &json!({"mask": mask}), &p, |p| pol_proj(p).to_string());
                    }
                }
                _ => return Err(format!("unknown case type {typ}").into()),
            }
        }
    }

    // (d) upgrade transactions: the checksum commitment
    if want("upgrade") {
        out.ev(json!({"ev": "Seg", "part": "upgrade"}));
        let mut rng = o.rng(604);
        let cps: Vec<&Value> = cases.iter().filter(|c| c["type"] == "ConsensusParameters").collect();
        let per = if thorough { 3 } else { 1 };
        let mut prev: Option<Vec<u8>> = None;
        for c in cps {
            let kind = jstr(c, "kind");
            for _ in 0..per {
                let cp = make_cp(&mut rng, &kind).ok_or_else(|| format!("cannot build ConsensusParameters/{kind}"))?;
                let built = catch(std::panic::AssertUnwindSafe(|| {
                    let extra: Vec<fuel_tx::Witness> = (0..rng.gen_range(0..3)).map(|_| bvec(&mut rng).into()).collect();
                    let bytes = postcard::to_allocvec(&cp).map_err(|e| e.to_string())?;
                    let tx = Transaction::upgrade_consensus_parameters(&cp, Policies::new(), vec![], vec![], extra).map_err(|e| format!("{e:?}"))?;
                    Ok::<_, String>((bytes, tx))
                }));
                let (bytes, tx) = match built {
                    Ok(Ok(x)) => x,
                    Ok(Err(e)) => { out.ev(json!({"ev": "HostPanic", "where": "upgrade_consensus_parameters", "kind": kind, "error": e})); continue; }
                    Err(pn) => { out.ev(json!({"ev": "HostPanic", "where": "upgrade_consensus_parameters", "kind": kind, "error": pn})); continue; }
                };
                let (widx, built_sum) = match field::UpgradePurpose::upgrade_purpose(&tx) {
                    UpgradePurpose::ConsensusParameters { witness_index, checksum } => (*witness_index as usize, *checksum),
                    _ => { out.ev(json!({"ev": "HostPanic", "where": "upgrade purpose kind", "kind": kind})); continue; }
                };
                // variants: as built / witness byte flipped / committed checksum flipped / another payload under this checksum
                let mut variants: Vec<(&str, Vec<u8>, [u8; 32])> = vec![("as-built", field::Witnesses::witnesses(&tx)[widx].as_vec().clone(), *built_sum)];
                let mut w2 = bytes.clone();
                let k = rng.gen_range(0..w2.len());
                w2[k] ^= 1 << rng.gen_range(0..8);
                variants.push(("witness-flipped", w2, *built_sum));
                let mut s2 = *built_sum;
                s2[rng.gen_range(0..32)] ^= 1 << rng.gen_range(0..8);
                variants.push(("checksum-flipped", bytes.clone(), s2));
                if let Some(p) = &prev { variants.push(("other-payload", p.clone(), *built_sum)); }
                for (tag, witness, committed) in variants {
                    let mut t2: Upgrade = tx.clone();
                    *field::UpgradePurpose::upgrade_purpose_mut(&mut t2) = UpgradePurpose::ConsensusParameters { witness_index: widx as u16, checksum: committed.into() };
                    field::Witnesses::witnesses_mut(&mut t2)[widx] = witness.clone().into();
                    let r = catch(std::panic::AssertUnwindSafe(|| UpgradeMetadata::compute(&t2)));
                    let mut ev = json!({"ev": "Upgrade", "kind": kind, "tag": tag, "cp": hx(&bytes), "built": hx(built_sum), "witness": hx(&witness),
                                        "committed": hx(committed), "orig": short(dbg_proj(&cp))});
                    match r {
                        Ok(Ok(UpgradeMetadata::ConsensusParameters { consensus_parameters, calculated_checksum })) => {
                            ev["outcome"] = json!("ok");
                            ev["calc"] = json!(hx(calculated_checksum));
                            ev["back"] = json!(short(dbg_proj(&*consensus_parameters)));
                            ev["reser"] = json!(postcard::to_allocvec(&*consensus_parameters).map(|b| hx(&b)).unwrap_or_else(|e| e.to_string()));
                        }
                        Ok(Ok(other)) => ev["outcome"] = json!(format!("{other:?}")),
                        Ok(Err(ValidityError::TransactionUpgradeConsensusParametersChecksumMismatch)) => ev["outcome"] = json!("ChecksumMismatch"),
                        Ok(Err(e)) => ev["outcome"] = json!(format!("{e:?}")),
                        Err(pn) => { ev["ev"] = json!("HostPanic"); ev["where"] = json!("UpgradeMetadata::compute"); ev["error"] = json!(pn); }
                    }
                    out.ev(ev);
                }
                prev = Some(bytes);
            }
        }
    }
    out.finish();
    Ok(())
}
