//! Binary Merkle trees (C09, C10, C11): replay of TLC behaviours and trace recording.
use crate::store::VStore;
use crate::util::*;
use fuel_merkle::binary::{self, in_memory, root_calculator::MerkleRootCalculator};
use rand::Rng;
use serde_json::{json, Value};
use std::collections::HashMap;

type Table = in_memory::NodesTable;
type StorTree = binary::MerkleTree<Table, VStore<Table>>;

fn proof_json(p: &[[u8; 32]]) -> Value { Value::Array(p.iter().map(|x| Value::String(hx(x))).collect()) }

struct Inst {
    tree: StorTree,
    store: VStore<Table>,
    data: Vec<Vec<u8>>,
}

/// spec -> impl: each line is one history (JSON array of steps with predicted observations).
pub fn replay(o: &Opts) -> Res<()> {
    let behs = read_lines(o.input.as_ref().expect("input"))?;
    let mut out = Out::open(&o.out)?;
    let mut steps_total = 0u64;
    for (bi, beh) in behs.iter().enumerate() {
        let steps = beh.as_array().expect("array");
        let has_load = steps.iter().any(|s| s["a"] == "Load");
        let st0 = VStore::<Table>::new();
        let mut insts: HashMap<u64, Inst> = HashMap::new();
        insts.insert(0, Inst { tree: StorTree::new(st0.share()), store: st0, data: vec![] });
        let mut mem = in_memory::MerkleTree::new();
        let mut calc = MerkleRootCalculator::new();
        let mut mism = |j: usize, what: &str, exp: Value, obs: Value, out: &mut Out| {
            out.ev(json!({"mismatch": what, "beh": bi, "step": j, "expected": exp, "observed": obs, "behaviour": beh}));
        };
        for (j, s) in steps.iter().enumerate() {
            steps_total += 1;
            let t = ju64(s, "t");
            match s["a"].as_str().unwrap() {
                "Push" => {
                    let d = unhx(&jstr(s, "d"));
                    let inst = insts.get_mut(&t).unwrap();
                    let r = inst.tree.push(&d);
                    inst.data.push(d.clone());
                    if r.is_err() { mism(j, "push-error", json!("ok"), json!("err"), &mut out); }
                    let root = hx(inst.tree.root());
                    if root != jstr(s, "root") { mism(j, "stor-root", s["root"].clone(), json!(root), &mut out); }
                    if inst.tree.leaves_count() != ju64(s, "count") { mism(j, "stor-count", s["count"].clone(), json!(inst.tree.leaves_count()), &mut out); }
                    if !has_load {
                        mem.push(&d);
                        calc.push(&d);
                        let r2 = hx(mem.root());
                        if r2 != jstr(s, "root") { mism(j, "mem-root", s["root"].clone(), json!(r2), &mut out); }
                        let r3 = hx(calc.clone().root());
                        if r3 != jstr(s, "root") { mism(j, "calc-root", s["root"].clone(), json!(r3), &mut out); }
                    }
                }
                "Reset" => {
                    let inst = insts.get_mut(&t).unwrap();
                    inst.tree.reset();
                    inst.data.clear();
                    let root = hx(inst.tree.root());
                    if root != jstr(s, "root") { mism(j, "stor-root-after-reset", s["root"].clone(), json!(root), &mut out); }
                    if inst.tree.leaves_count() != ju64(s, "count") { mism(j, "stor-count-after-reset", s["count"].clone(), json!(inst.tree.leaves_count()), &mut out); }
                    if !has_load {
                        mem.reset();
                        calc.clear();
                        let r2 = hx(mem.root());
                        if r2 != jstr(s, "root") { mism(j, "mem-root-after-reset", s["root"].clone(), json!(r2), &mut out); }
                        let r3 = hx(calc.clone().root());
                        if r3 != jstr(s, "root") { mism(j, "calc-root-after-clear", s["root"].clone(), json!(r3), &mut out); }
                    }
                }
                "Load" => {
                    let from = ju64(s, "from");
                    let k = ju64(s, "k");
                    let (forked, data) = {
                        let src = insts.get(&from).unwrap();
                        (src.store.fork(), src.data[..k as usize].to_vec())
                    };
                    match StorTree::load(forked.share(), k) {
                        Ok(tree) => {
                            let root = hx(tree.root());
                            if root != jstr(s, "root") { mism(j, "load-root", s["root"].clone(), json!(root), &mut out); }
                            if tree.leaves_count() != ju64(s, "count") { mism(j, "load-count", s["count"].clone(), json!(tree.leaves_count()), &mut out); }
                            insts.insert(t, Inst { tree, store: forked, data });
                        }
                        Err(e) => {
                            mism(j, "load-failed", json!("ok"), json!(format!("{e:?}")), &mut out);
                            break;
                        }
                    }
                }
                "Prove" => {
                    let i = ju64(s, "i");
                    let inst = insts.get(&t).unwrap();
                    let exp_ok = s["ok"].as_bool().unwrap();
                    let check = |name: &str, got: Option<([u8; 32], Vec<[u8; 32]>)>, out: &mut Out, mism: &mut dyn FnMut(usize, &str, Value, Value, &mut Out)| {
                        match got {
                            Some((root, proof)) => {
                                if !exp_ok { mism(j, &format!("{name}-proof-served-out-of-range"), json!(false), json!({"ok": true, "proof": proof_json(&proof)}), out); return; }
                                if hx(root) != jstr(s, "root") { mism(j, &format!("{name}-prove-root"), s["root"].clone(), json!(hx(root)), out); }
                                if proof_json(&proof) != s["proof"] { mism(j, &format!("{name}-proof"), s["proof"].clone(), proof_json(&proof), out); }
                                let n = inst.data.len() as u64;
                                if !binary::verify(&root, &inst.data[i as usize], &proof, i, n) {
                                    mism(j, &format!("{name}-own-proof-rejected"), json!(true), json!(false), out);
                                }
                            }
                            None => if exp_ok { mism(j, &format!("{name}-proof-refused"), json!(true), json!(false), out); }
                        }
                    };
                    match catch(std::panic::AssertUnwindSafe(|| inst.tree.prove(i).ok())) {
                        Ok(r) => check("stor", r, &mut out, &mut mism),
                        Err(msg) => mism(j, "stor-prove-host-panic", json!(exp_ok), json!(msg), &mut out),
                    }
                    if !has_load {
                        match catch(std::panic::AssertUnwindSafe(|| mem.prove(i))) {
                            Ok(r) => check("mem", r, &mut out, &mut mism),
                            Err(msg) => mism(j, "mem-prove-host-panic", json!(exp_ok), json!(msg), &mut out),
                        }
                    }
                }
                a => panic!("unknown action {a}"),
            }
        }
    }
    out.ev(json!({"summary": {"behaviours": behs.len(), "steps": steps_total}}));
    out.finish();
    Ok(())
}

/// impl -> spec: record traces of the real trees.
pub fn record(o: &Opts) -> Res<()> {
    let mut out = Out::open(&o.out)?;
    let mut rng = o.rng(1);
    let thorough = o.thorough();
    let mut next_id = 0u64;
    let mut fresh = || { next_id += 1; next_id };

    let part = o.opt("--part").unwrap_or_else(|| "all".into());
    let want = |p: &str| part == "all" || part.split(',').any(|x| x == p);
    // (a) dense counts: three implementations pushed in lock-step; one-shot helpers at boundary counts
    let dense_n = if thorough { 1200 } else { 260 };
    if want("dense") {
        out.ev(json!({"ev": "Seg", "part": "dense"}));
        let (ts, tm, tc) = (fresh(), fresh(), fresh());
        let st = VStore::<Table>::new();
        let mut stor = StorTree::new(st.share());
        let mut mem = in_memory::MerkleTree::new();
        let mut calc = MerkleRootCalculator::new();
        for t in [ts, tm, tc] { out.ev(json!({"ev": "New", "t": t})); }
        out.ev(json!({"ev": "Root", "t": ts, "root": hx(stor.root()), "count": stor.leaves_count()}));
        out.ev(json!({"ev": "Root", "t": tm, "root": hx(mem.root())}));
        out.ev(json!({"ev": "Root", "t": tc, "root": hx(calc.clone().root())}));
        let mut leaves: Vec<Vec<u8>> = vec![];
        for n in 1..=dense_n {
            let d = rbytes(&mut rng, 40);
            leaves.push(d.clone());
            let _ = stor.push(&d);
            mem.push(&d);
            calc.push(&d);
            out.ev(json!({"ev": "Push", "t": ts, "d": hx(&d), "root": hx(stor.root()), "count": stor.leaves_count()}));
            out.ev(json!({"ev": "Push", "t": tm, "d": hx(&d), "root": hx(mem.root())}));
            out.ev(json!({"ev": "Push", "t": tc, "d": hx(&d), "root": hx(calc.clone().root())}));
            let boundary = n <= 9 || (n as u64 + 1).is_power_of_two() || (n as u64).is_power_of_two() || (n as u64 - 1).is_power_of_two();
            if boundary {
                let r1 = MerkleRootCalculator::new().root_from_iterator(leaves.iter());
                let r2 = MerkleRootCalculator::new_from_existing_leaves(leaves.iter().map(|l| binary::leaf_sum(l))).root();
                let r3: [u8; 32] = fuel_vm::crypto::ephemeral_merkle_root(leaves.iter()).into();
                out.ev(json!({"ev": "RootOf", "t": ts, "impl": "root_from_iterator", "root": hx(r1)}));
                out.ev(json!({"ev": "RootOf", "t": ts, "impl": "new_from_existing_leaves", "root": hx(r2)}));
                out.ev(json!({"ev": "RootOf", "t": ts, "impl": "ephemeral_merkle_root", "root": hx(r3)}));
                // proofs for a few indices at this size
                for i in [0u64, (n as u64) / 2, n as u64 - 1, n as u64, n as u64 + 1] {
                    prove_ev(&mut out, ts, catch(std::panic::AssertUnwindSafe(|| stor.prove(i).ok())), i);
                    prove_ev(&mut out, tm, catch(std::panic::AssertUnwindSafe(|| mem.prove(i))), i);
                }
            }
        }
    }

    // (b) random histories with reset / load / prove on the storage-backed and in-memory trees
    let histories = if !want("hist") { 0 } else if thorough { 400 } else { 60 };
    let mut hist_no = 0u64;
    for _ in 0..histories {
        out.ev(json!({"ev": "Seg", "part": "hist"}));
        let ts = fresh();
        let tm = fresh();
        out.ev(json!({"ev": "New", "t": ts}));
        out.ev(json!({"ev": "New", "t": tm}));
        let mut st = VStore::<Table>::new();
        let mut stor = StorTree::new(st.share());
        let mut cur = ts;
        let mut mem = in_memory::MerkleTree::new();
        let mut mem_alive = true; // the in-memory tree has no load; it follows until the first load
        let len = rng.gen_range(5..if thorough { 120 } else { 60 });
        // every third history is QUIET: root() is not called after each operation but only at explicit Root events (after a
        // refill to the size the tree had when root() was last called, among others) - a root remembered across reset shows
        let quiet = hist_no % 3 == 2;
        hist_no += 1;
        let mut last_root_count: Option<u64> = None;
        for _ in 0..len {
            if quiet && (rng.gen_range(0..8) == 0 || Some(stor.leaves_count()) == last_root_count) {
                out.ev(json!({"ev": "Root", "t": cur, "root": hx(stor.root()), "count": stor.leaves_count()}));
                if mem_alive { out.ev(json!({"ev": "Root", "t": tm, "root": hx(mem.root())})); }
                last_root_count = Some(stor.leaves_count());
            }
            match rng.gen_range(0..100) {
                0..=54 => {
                    let d = rbytes(&mut rng, 12);
                    let _ = stor.push(&d);
                    if quiet {
                        out.ev(json!({"ev": "Push", "t": cur, "d": hx(&d), "count": stor.leaves_count()}));
                        if mem_alive { mem.push(&d); out.ev(json!({"ev": "Push", "t": tm, "d": hx(&d)})); }
                    } else {
                    out.ev(json!({"ev": "Push", "t": cur, "d": hx(&d), "root": hx(stor.root()), "count": stor.leaves_count()}));
                    if mem_alive { mem.push(&d); out.ev(json!({"ev": "Push", "t": tm, "d": hx(&d), "root": hx(mem.root())})); }
                    }
                }
                55..=64 => {
                    stor.reset();
                    if quiet {
                        out.ev(json!({"ev": "Reset", "t": cur, "count": stor.leaves_count()}));
                        if mem_alive { mem.reset(); out.ev(json!({"ev": "Reset", "t": tm})); }
                    } else {
                    out.ev(json!({"ev": "Reset", "t": cur, "root": hx(stor.root()), "count": stor.leaves_count()}));
                    if mem_alive { mem.reset(); out.ev(json!({"ev": "Reset", "t": tm, "root": hx(mem.root())})); }
                    }
                }
                65..=74 => {
                    let n = stor.leaves_count();
                    let k = if n == 0 { 0 } else { rng.gen_range(0..=n) };
                    let forked = st.fork();
                    let t2 = fresh();
                    match StorTree::load(forked.share(), k) {
                        Ok(tree) => {
                            out.ev(json!({"ev": "Load", "t": t2, "from": cur, "k": k, "ok": true, "root": hx(tree.root()), "count": tree.leaves_count()}));
                            stor = tree; st = forked; cur = t2; mem_alive = false;
                        }
                        Err(e) => out.ev(json!({"ev": "Load", "t": t2, "from": cur, "k": k, "ok": false, "err": format!("{e:?}")})),
                    }
                }
                _ => {
                    let n = stor.leaves_count();
                    let i = match rng.gen_range(0..6) { 0 => n, 1 => n + 1, 2 => n.saturating_sub(1), _ => if n == 0 { 0 } else { rng.gen_range(0..n) } };
                    prove_ev(&mut out, cur, catch(std::panic::AssertUnwindSafe(|| stor.prove(i).ok())), i);
                    if mem_alive { prove_ev(&mut out, tm, catch(std::panic::AssertUnwindSafe(|| mem.prove(i))), i); }
                }
            }
        }
    }

    // (c) the verifier on valid proofs and structured mutations of them
    let sizes: Vec<u64> = if thorough { (1..=40).chain([63, 64, 65, 127, 128, 129, 255, 256, 257, 1000, 1023, 1024, 1025]).collect() }
                          else { (1..=17).chain([31, 32, 33, 100]).collect() };
    for &n in &sizes {
        if !want("verify") { break; }
        out.ev(json!({"ev": "Seg", "part": "verify"}));
        let mut tree = in_memory::MerkleTree::new();
        let leaves: Vec<Vec<u8>> = (0..n).map(|_| rbytes(&mut rng, 9)).collect();
        for l in &leaves { tree.push(l); }
        let root = tree.root();
        let idxs: Vec<u64> = if n <= 17 { (0..n).collect() } else { vec![0, 1, n / 2, n - 2, n - 1, rng.gen_range(0..n)] };
        for &i in &idxs {
            let (_, proof) = tree.prove(i).expect("in range");
            let d = &leaves[i as usize];
            let mut cases: Vec<(Vec<u8>, Vec<[u8; 32]>, u64, u64, [u8; 32], &str)> = vec![];
            cases.push((d.clone(), proof.clone(), i, n, root, "valid"));
            // index / count perturbations
            for (ii, nn, tag) in [(i + 1, n, "i+1"), (i.wrapping_sub(1), n, "i-1"), (i, n + 1, "n+1"), (i, n.saturating_sub(1), "n-1"), (n, n, "i=n"),
                                  (i, 0, "n=0"), (i ^ 1, n, "i^1"), (i, n * 2, "2n"), (i, u64::MAX, "n=max"), (u64::MAX, n, "i=max"), (i + (1 << 40), n, "i+2^40")] {
                cases.push((d.clone(), proof.clone(), ii, nn, root, tag));
            }
            // proof-set perturbations
            if !proof.is_empty() {
                let mut p = proof.clone(); p.pop(); cases.push((d.clone(), p, i, n, root, "drop-last"));
                let mut p = proof.clone(); p.remove(0); cases.push((d.clone(), p, i, n, root, "drop-first"));
                let mut p = proof.clone(); let k = rng.gen_range(0..p.len()); p[k][rng.gen_range(0..32)] ^= 1 << rng.gen_range(0..8); cases.push((d.clone(), p, i, n, root, "flip-bit"));
                let mut p = proof.clone(); p.reverse(); cases.push((d.clone(), p, i, n, root, "reverse"));
                let mut p = proof.clone(); let x = p[0]; p.insert(0, x); cases.push((d.clone(), p, i, n, root, "dup-first"));
            }
            let mut p = proof.clone(); p.push([0u8; 32]); cases.push((d.clone(), p, i, n, root, "append-zero"));
            let mut p = proof.clone(); p.push(root); cases.push((d.clone(), p, i, n, root, "append-root"));
            cases.push((d.clone(), vec![], i, n, root, "empty-proof"));
            // another leaf's proof / data
            let j = (i + 1) % n;
            cases.push((leaves[j as usize].clone(), proof.clone(), i, n, root, "other-data"));
            cases.push((d.clone(), tree.prove(j).unwrap().1, i, n, root, "other-proof"));
            let mut d2 = d.clone(); d2.push(0); cases.push((d2, proof.clone(), i, n, root, "data+0"));
            let mut r2 = root; r2[31] ^= 1; cases.push((d.clone(), proof.clone(), i, n, r2, "root-flip"));
            // a proof valid for a *sub*tree presented with the subtree's size (sound: must verify against the subtree root only)
            for (d, p, ii, nn, r, tag) in cases {
                let verdict = catch(std::panic::AssertUnwindSafe(|| binary::verify(&r, &d, &p, ii, nn)));
                match verdict {
                    Ok(v) => out.ev(json!({"ev": "Verify", "root": hx(r), "d": hx(&d), "proof": proof_json(&p), "i": ii.to_string(), "n": nn.to_string(), "verdict": v, "tag": tag})),
                    Err(msg) => out.ev(json!({"ev": "HostPanic", "where": "binary::verify", "tag": tag, "msg": msg, "i": ii.to_string(), "n": nn.to_string()})),
                }
            }
        }
    }
    let n = out.finish();
    eprintln!("bmt: {n} events");
    Ok(())
}

fn prove_ev(out: &mut Out, t: u64, r: Result<Option<([u8; 32], Vec<[u8; 32]>)>, String>, i: u64) {
    let r = match r {
        Ok(r) => r,
        Err(msg) => { out.ev(json!({"ev": "HostPanic", "where": "prove", "t": t, "i": i, "msg": msg})); return; }
    };
    match &r {
        Some((root, proof)) => out.ev(json!({"ev": "Prove", "t": t, "i": i, "ok": true, "proof": proof_json(proof), "root": hx(root)})),
        None => out.ev(json!({"ev": "Prove", "t": t, "i": i, "ok": false})),
    }
}
