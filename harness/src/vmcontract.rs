//! vmcontract — recorder / replayer for C36 (storage reads honour the read contract, library and instruction
//! level) and C30 (execution touches only the state of input contracts).
//!
//!  * `replay sread <behaviours>`: Leg R of spec/vm/StorageRead_MC.tla — each TLC case is performed on the
//!    StorageRead impls of MemoryStorage for the three byte-valued tables; the outcomes are compared with the
//!    TLC-printed expectations.
//!  * `record vmc --part exec|c30|c30call|pred`: Leg T against FuelVM_Trace.tla — the interpreter runs over a
//!    *recording* storage (recstore.rs); every Step event carries the storage accesses the instruction made
//!    (`acc`) and, for contract balances it wrote, the new values (`bal_set`).
//! The harness contains no expectations: it builds worlds and programs, runs the real code and logs.
#![allow(dead_code)]
use crate::recstore::{Access, RecPredicateStorage, RecStorage};
use crate::util::*;
use crate::vmcore::*;
use fuel_asm::{op, GTFArgs, Instruction, RegId};
use fuel_storage::{StorageAsRef, StorageRead, StorageReadError, StorageWrite};
use fuel_tx::field::{ReceiptsRoot as _, ScriptData as _};
use fuel_tx::{ConsensusParameters, ContractParameters, GasCosts, Input, Receipt, Script, TransactionBuilder};
use fuel_types::{canonical::Serialize, AssetId, BlobId, Bytes32, ContractId};
use fuel_vm::{
    call::Call,
    checked_transaction::{CheckPredicateParams, Checked, IntoChecked},
    interpreter::{predicates, MemoryInstance, NotSupportedEcal},
    prelude::*,
    state::ProgramState,
    storage::{BlobData, ContractsAssetsStorage, ContractsRawCode, ContractsState, ContractsStateKey, MemoryStorage},
    util::test_helpers::TestBuilder,
};
use rand::{rngs::StdRng, seq::SliceRandom, Rng};
use serde_json::{json, Map, Value};

pub type VmR = Vm<RecStorage>;

fn merge(mut a: Value, b: Value) -> Value {
    for (k, v) in b.as_object().unwrap() { a[k] = v.clone(); }
    a
}

// ------------------------------------------------------------------------------------------------------------
// Leg R: StorageRead contract on MemoryStorage
// ------------------------------------------------------------------------------------------------------------

fn read_outcome(r: Result<Result<usize, StorageReadError>, std::convert::Infallible>, buf: &[u8]) -> Value {
    match r {
        Ok(Ok(total)) => json!({"r": "Ok", "buf": hx(buf), "total": total}),
        Ok(Err(StorageReadError::KeyNotFound)) => json!({"r": "KeyNotFound"}),
        Ok(Err(StorageReadError::OutOfBounds)) => json!({"r": "OutOfBounds"}),
        Err(e) => match e {},
    }
}

fn alloc_outcome(r: Result<Option<Vec<u8>>, std::convert::Infallible>) -> Value {
    match r {
        Ok(Some(v)) => json!({"r": "Ok", "buf": hx(&v), "total": v.len()}),
        Ok(None) => json!({"r": "KeyNotFound"}),
        Err(e) => match e {},
    }
}

/// the three reads on one table; the buffer is pre-filled with 0xEE so that missing zero-filling shows
fn three_reads<T>(st: &MemoryStorage, key: &T::Key, off: usize, n: usize) -> Value
where
    T: fuel_storage::Mappable,
    MemoryStorage: StorageRead<T, Error = std::convert::Infallible>,
{
    let mut b1 = vec![0xEEu8; n];
    let r1 = catch(std::panic::AssertUnwindSafe(|| { let r = <MemoryStorage as StorageRead<T>>::read_exact(st, key, off, &mut b1); read_outcome(r, &b1) }));
    let mut b2 = vec![0xEEu8; n];
    let r2 = catch(std::panic::AssertUnwindSafe(|| { let r = <MemoryStorage as StorageRead<T>>::read_zerofill(st, key, off, &mut b2); read_outcome(r, &b2) }));
    let r3 = catch(std::panic::AssertUnwindSafe(|| alloc_outcome(<MemoryStorage as StorageRead<T>>::read_alloc(st, key))));
    let f = |r: Result<Value, String>| r.unwrap_or_else(|m| json!({"r": "HostPanic", "msg": m}));
    json!({"exact": f(r1), "zerofill": f(r2), "alloc": f(r3)})
}

pub fn replay_sread(o: &Opts) -> Res<()> {
    let behs = read_lines(o.input.as_ref().ok_or("behaviour file missing")?)?;
    let mut out = Out::open(&o.out)?;
    let (mut steps, mut mism) = (0u64, 0u64);
    let cid = ContractId::from([0x11u8; 32]);
    let other = ContractId::from([0x22u8; 32]);
    let slot = Bytes32::from([0x33u8; 32]);
    let bid = BlobId::from([0x44u8; 32]);
    for b in &behs {
        let missing = b["missing"].as_bool().expect("missing");
        let (off, n) = (ju64(b, "off") as usize, ju64(b, "n") as usize);
        let value = unhx(b["value"].as_str().expect("value"));
        let mut st = MemoryStorage::default();
        // another key is always present, so a missing key is missing from a non-empty table
        StorageWrite::<ContractsRawCode>::write_bytes(&mut st, &other, &[1, 2, 3]).unwrap();
        StorageWrite::<ContractsState>::write_bytes(&mut st, &ContractsStateKey::new(&other, &slot), &[1, 2, 3]).unwrap();
        StorageWrite::<BlobData>::write_bytes(&mut st, &BlobId::from([0x55u8; 32]), &[1, 2, 3]).unwrap();
        if !missing {
            StorageWrite::<ContractsRawCode>::write_bytes(&mut st, &cid, &value).unwrap();
            StorageWrite::<ContractsState>::write_bytes(&mut st, &ContractsStateKey::new(&cid, &slot), &value).unwrap();
            StorageWrite::<BlobData>::write_bytes(&mut st, &bid, &value).unwrap();
        }
        let obs = [
            ("ContractsRawCode", three_reads::<ContractsRawCode>(&st, &cid, off, n)),
            ("ContractsState", three_reads::<ContractsState>(&st, &ContractsStateKey::new(&cid, &slot), off, n)),
            ("BlobData", three_reads::<BlobData>(&st, &bid, off, n)),
        ];
        for (table, o3) in obs.iter() {
            for op in ["exact", "zerofill", "alloc"] {
                steps += 1;
                if o3[op] != b[op] {
                    mism += 1;
                    out.ev(json!({"mismatch": format!("{table}/{op}"), "expected": b[op], "observed": o3[op], "behaviour": b}));
                }
            }
        }
    }
    out.ev(json!({"summary": {"behaviours": behs.len(), "steps": steps, "mismatches": mism}}));
    out.finish();
    Ok(())
}

// ------------------------------------------------------------------------------------------------------------
// recording with the storage access log
// ------------------------------------------------------------------------------------------------------------

fn acc_json(log: &[Access]) -> Value { Value::Array(log.iter().map(|a| a.to_json()).collect()) }

/// contract balances written during the step, read back from the storage (an environment update for instructions the
/// specification has no exact action for)
fn bal_set(st: &MemoryStorage, log: &[Access]) -> Option<Value> {
    let mut o: Map<String, Value> = Map::new();
    for a in log.iter().filter(|a| a.table == "assets" && a.is_write() && a.key.len() == 64) {
        let c = ContractId::from(<[u8; 32]>::try_from(&a.key[..32]).unwrap());
        let asset = AssetId::from(<[u8; 32]>::try_from(&a.key[32..]).unwrap());
        let v = st.contract_asset_id_balance(&c, &asset).ok().flatten();
        if let Some(v) = v {
            let e = o.entry(hx(c)).or_insert_with(|| json!({}));
            e[hx(asset)] = json!(v.to_string());
        }
    }
    if o.is_empty() { None } else { Some(Value::Object(o)) }
}

fn attach(ev: &mut Value, vm: &VmR) {
    let log = vm.as_ref().take_log();
    ev["acc"] = acc_json(&log);
    if let Some(b) = bal_set(vm.as_ref().inner(), &log) { ev["bal_set"] = b; }
}

/// what the specification needs to know about the chain state: code and balances of the listed contracts, blobs
pub fn world_json(st: &MemoryStorage, contracts: &[ContractId], assets: &[AssetId], blobs: &[BlobId], inputs: &[ContractId]) -> Value {
    let mut cs = Map::new();
    for id in contracts {
        let code = match st.storage::<ContractsRawCode>().get(id) { Ok(Some(c)) => c.as_ref().as_ref().to_vec(), _ => continue };
        let mut bal = Map::new();
        for a in assets {
            if let Ok(Some(v)) = st.contract_asset_id_balance(id, a) { bal.insert(hx(a), json!(v.to_string())); }
        }
        cs.insert(hx(id), json!({"code": hx(&code), "bal": Value::Object(bal)}));
    }
    let mut bs = Map::new();
    for b in blobs {
        if let Ok(Some(v)) = StorageRead::<BlobData>::read_alloc(st, b) { bs.insert(hx(b), json!(hx(&v))); }
    }
    json!({"contracts": Value::Object(cs), "blobs": Value::Object(bs), "inputs": inputs.iter().map(|c| json!(hx(c))).collect::<Vec<_>>()})
}

pub fn new_vm_rec(w: &World) -> VmR {
    VmR::with_storage(MemoryInstance::new(), RecStorage::new(w.storage.clone()), w.iparams())
}

/// mode "exec" (see vmcore::exec_one) plus the access log
pub fn exec_one_acc(out: &mut Out, run: u64, i: u64, vm: &mut VmR, sets: &[(usize, u64)], raw: u32) -> bool { exec_one_tagged(out, run, i, vm, sets, raw, None) }

pub fn exec_one_tagged(out: &mut Out, run: u64, i: u64, vm: &mut VmR, sets: &[(usize, u64)], raw: u32, part: Option<&str>) -> bool {
    let mut po = Map::new();
    for (i, v) in sets { vm.registers_mut()[*i] = *v; po.insert(i.to_string(), Value::String(v.to_string())); }
    let pre = snap(vm);
    vm.as_ref().take_log();
    let r = catch(std::panic::AssertUnwindSafe(|| vm.instruction::<u32, false>(raw)));
    match r {
        Ok(res) => {
            let post = snap(vm);
            let rc: Vec<Receipt> = vm.receipts().to_vec();
            let mut ev = merge(step_event(run, i, "exec", &pre, &post, Some(raw), &rc), out_of_execute(&res));
            ev["poke"] = Value::Object(po);
            if let Some(p) = part { ev["part"] = json!(p); }
            attach(&mut ev, vm);
            out.ev(ev);
            matches!(res, Ok(fuel_vm::state::ExecuteState::Proceed))
        }
        Err(m) => { out.ev(json!({"ev": "HostPanic", "run": run, "where": "instruction", "i": i, "msg": m, "word": format!("{:08x}", raw), "poke": Value::Object(po)})); false }
    }
}

/// mode "run": a copy of vmcore::record_run_with (same events, same fields) that additionally attaches the access log to
/// the Init event (accesses made by transact() before the first instruction) and to every Step.
/// (Proposed to the lead: a per-event hook in vmcore::record_run_with would make this copy unnecessary.)
pub fn record_run_acc(out: &mut Out, run: u64, vm: &mut VmR, w: &World, checked: Checked<Script>, extra: Value, max_steps: u64) -> u64 {
    let fee_info = {
        use fuel_tx::field::{MaxFeeLimit, Tip};
        use fuel_tx::Chargeable;
        let tx = checked.transaction();
        json!({"min_gas": tx.min_gas(w.params.gas_costs(), w.params.fee_params()).to_string(), "max_fee": tx.max_fee_limit().to_string(),
               "tip": tx.tip().to_string(), "factor": w.params.fee_params().gas_price_factor().to_string(), "price": w.gas_price.to_string()})
    };
    let ready = match checked.into_ready(w.gas_price, w.params.gas_costs(), w.params.fee_params(), Some(w.block_height.into())) {
        Ok(r) => r,
        Err(e) => { out.ev(json!({"ev": "NotReady", "run": run, "err": format!("{e:?}")})); return 0; }
    };
    vm.set_single_stepping(true);
    vm.as_ref().take_log();
    let r = catch(std::panic::AssertUnwindSafe(|| vm.transact(ready).map(|st| *st.state())));
    let mut state = match r {
        Ok(s) => s,
        Err(m) => { out.ev(json!({"ev": "HostPanic", "run": run, "where": "transact", "msg": m})); return 0; }
    };
    let s0 = snap(vm);
    let early = !matches!(state, Ok(ProgramState::RunProgram(_)));
    let mut init = merge(json!({
        "ev": "Init", "run": run, "kind": "script", "env": env_json(vm, w),
        "regs": regs_json(&s0.regs), "stack": hx(&s0.stack), "hp": s0.hp,
        "tx": hx(vm.transaction().to_bytes()), "early": early,
        "outs": outputs_json(vm), "bal0": balances_json(vm), "fee": fee_info,
    }), extra);
    attach(&mut init, vm);
    out.ev(init);
    let mut i = 0u64;
    if early {
        let rc: Vec<Receipt> = vm.receipts().to_vec();
        out.ev(merge(json!({"ev": "Early", "run": run, "rc": Value::Array(rc.iter().map(receipt_json).collect())}), out_of_state(&state)));
    }
    while matches!(state, Ok(ProgramState::RunProgram(_))) {
        if i >= max_steps { out.ev(json!({"ev": "Runaway", "run": run, "steps": i})); break; }
        let pre = snap(vm);
        let pc = pre.regs[RegId::PC.to_u8() as usize];
        let word = read_word(&pre, pc);
        let r = catch(std::panic::AssertUnwindSafe(|| vm.resume()));
        match r {
            Ok(s) => state = s,
            Err(m) => { out.ev(json!({"ev": "HostPanic", "run": run, "where": "resume", "i": i, "msg": m, "word": word.map(|w| format!("{:08x}", w))})); return i; }
        }
        let post = snap(vm);
        let rc: Vec<Receipt> = vm.receipts().to_vec();
        let mut ev = step_event(run, i, "run", &pre, &post, word, &rc);
        if !matches!(state, Ok(ProgramState::RunProgram(_))) { ev["fin"] = out_of_state(&state); }
        attach(&mut ev, vm);
        out.ev(ev);
        i += 1;
    }
    let rc: Vec<Receipt> = vm.receipts().to_vec();
    let tx_after = vm.transaction().to_bytes();
    out.ev(merge(json!({
        "ev": "Final", "run": run, "steps": i,
        "tx_after": hx(&tx_after),
        "receipts_root": hx(vm.transaction().receipts_root()),
        "rc_all": Value::Array(rc.iter().map(|r| json!(hx(r.to_bytes()))).collect()),
        "nrc": rc.len(),
        "outputs": outputs_json(vm),
    }), out_of_state(&state)));
    i
}

// ------------------------------------------------------------------------------------------------------------
// worlds
// ------------------------------------------------------------------------------------------------------------

/// default schedule with every number drawn from 1..=hi; `heavy`: the dependent costs of the contract / blob instructions
/// become HeavyOperation (gas per unit) instead of LightOperation (units per gas)
pub fn varied_gas(rng: &mut StdRng, hi: u64, heavy: bool) -> GasCosts {
    fn walk(k: Option<&str>, v: &mut Value, rng: &mut StdRng, hi: u64, heavy: bool) {
        match v {
            Value::Number(_) => { *v = json!(rng.gen_range(1..=hi)); }
            Value::Array(a) => a.iter_mut().for_each(|x| walk(None, x, rng, hi, heavy)),
            Value::Object(o) => {
                let mine = matches!(k, Some("ldc" | "ccp" | "croo" | "csiz" | "bsiz" | "bldd" | "call"));
                if heavy && mine && o.contains_key("LightOperation") {
                    *v = json!({"HeavyOperation": {"base": rng.gen_range(1..=hi), "gas_per_unit": rng.gen_range(0..=3u64)}});
                    return;
                }
                let keys: Vec<String> = o.keys().cloned().collect();
                for key in keys { let mut x = o.remove(&key).unwrap(); walk(Some(&key), &mut x, rng, hi, heavy); o.insert(key, x); }
            }
            _ => {}
        }
    }
    let mut v = serde_json::to_value(GasCosts::default()).expect("ser");
    walk(None, &mut v, rng, hi, heavy);
    serde_json::from_value(v).expect("de")
}

fn rcode(rng: &mut StdRng, len: usize) -> Vec<u8> { (0..len).map(|i| if rng.gen_bool(0.1) { 0 } else { (rng.gen::<u8>() | 1).wrapping_add(i as u8 & 2) }).collect() }

pub struct Fix {
    pub w: World,
    pub contracts: Vec<ContractId>,   // present in storage
    pub inputs: Vec<ContractId>,      // named by the transaction
    pub blobs: Vec<BlobId>,
    pub assets: Vec<AssetId>,
    /// 32-byte entries of the id table in the script data (contracts, blobs, assets, unknown ids)
    pub table: Vec<[u8; 32]>,
    pub lens: Vec<u64>,               // interesting object lengths
    pub obj_len: Vec<Option<u64>>,    // per table entry: length of the stored object, if any
}

const N_IDS: usize = 14;

/// a chain state with contracts of chosen code lengths (some inputs, one existing non-input, one input missing from the
/// storage), blobs and balances
fn fixture(rng: &mut StdRng, gas: GasCosts, max_size: u64, lens: &[usize], blob_lens: &[usize]) -> Fix {
    let mut params = ConsensusParameters::standard();
    params.set_gas_costs(gas);
    let cp = ContractParameters::DEFAULT.with_contract_max_size(max_size);
    params.set_contract_params(cp);
    let mut st = MemoryStorage::default();
    let assets: Vec<AssetId> = vec![AssetId::zeroed(), rng.gen()];
    let mut contracts = vec![];
    for l in lens {
        let id: ContractId = rng.gen();
        StorageWrite::<ContractsRawCode>::write_bytes(&mut st, &id, &rcode(rng, *l)).unwrap();
        contracts.push(id);
    }
    st.contract_asset_id_balance_insert(&contracts[0], &assets[0], rng.gen_range(1..1_000_000)).unwrap();
    st.contract_asset_id_balance_insert(&contracts[0], &assets[1], u64::MAX).unwrap();
    st.contract_asset_id_balance_insert(&contracts[1], &assets[1], 0).unwrap();
    // the last stored contract is NOT an input; it has a balance and a state slot too
    let outsider = *contracts.last().unwrap();
    st.contract_asset_id_balance_insert(&outsider, &assets[0], 77).unwrap();
    StorageWrite::<ContractsState>::write_bytes(&mut st, &ContractsStateKey::new(&outsider, &Bytes32::zeroed()), &[9u8; 32]).unwrap();
    let ghost_input: ContractId = rng.gen();      // an input that does not exist in storage
    let nobody: ContractId = rng.gen();           // neither an input nor stored
    let mut inputs: Vec<ContractId> = contracts[..contracts.len() - 1].to_vec();
    inputs.push(ghost_input);
    let mut blobs = vec![];
    for l in blob_lens {
        let id: BlobId = rng.gen();
        StorageWrite::<BlobData>::write_bytes(&mut st, &id, &rcode(rng, *l)).unwrap();
        blobs.push(id);
    }
    let no_blob: BlobId = rng.gen();
    let mut table: Vec<[u8; 32]> = vec![];
    let mut obj_len: Vec<Option<u64>> = vec![];
    for (c, l) in contracts.iter().zip(lens) { table.push(**c); obj_len.push(Some(*l as u64)); }
    table.push(*ghost_input); obj_len.push(None);
    table.push(*nobody); obj_len.push(None);
    for (b, l) in blobs.iter().zip(blob_lens) { table.push(**b); obj_len.push(Some(*l as u64)); }
    table.push(*no_blob); obj_len.push(None);
    for a in &assets { table.push(**a); obj_len.push(None); }
    let mut ls: Vec<u64> = lens.iter().chain(blob_lens.iter()).map(|x| *x as u64).collect();
    ls.sort(); ls.dedup();
    Fix { w: World { params, gas_price: 0, storage: st, block_height: 0 }, contracts, inputs, blobs, assets, table, lens: ls, obj_len }
}

const RPC: usize = 3;
const RSSP: usize = 4;
const RSP: usize = 5;
const RFP: usize = 6;
const RHP: usize = 7;
const RGGAS: usize = 9;
const RCGAS: usize = 10;

fn enc_rrr(op: u8, a: u8, b: u8, c: u8) -> u32 { ((op as u32) << 24) | ((a as u32) << 18) | ((b as u32) << 12) | ((c as u32) << 6) }
fn enc_rrrr(op: u8, a: u8, b: u8, c: u8, d: u8) -> u32 { enc_rrr(op, a, b, c) | d as u32 }
fn enc_i24(op: u8, imm: u32) -> u32 { ((op as u32) << 24) | (imm & 0xffffff) }

struct Session { vm: VmR, table_at: u64, call_at: u64, n_entries: usize }

/// start an exec-mode session on a fixture: a script whose data holds the id table and a Call structure; all contracts of
/// `fx.inputs` are inputs of the transaction
fn exec_session(out: &mut Out, run: u64, fx: &Fix, gas_limit: u64) -> Option<Session> {
    let mut data: Vec<u8> = vec![];
    for e in &fx.table { data.extend_from_slice(e); }
    let call_off = data.len();
    data.extend_from_slice(&Call::new(fx.contracts[0], 7, 9).to_bytes());
    data.extend_from_slice(fx.assets[0].as_ref());
    let mut b = TransactionBuilder::script(vec![op::ret(RegId::ONE)].into_iter().collect(), data);
    b.script_gas_limit(gas_limit).max_fee_limit(0).with_params(fx.w.params.clone());
    let mut rng = StdRng::seed_from_u64_compat(run);
    for c in &fx.inputs {
        b.add_input(Input::contract(rng.gen(), rng.gen(), rng.gen(), rng.gen(), *c));
    }
    b.add_fee_input();
    for (i, _) in fx.inputs.iter().enumerate() {
        b.add_output(fuel_tx::Output::contract(i as u16, rng.gen(), rng.gen()));
    }
    let tx = b.finalize();
    let checked = checked_script(tx, &fx.w).ok()?;
    let ready = checked.into_ready(fx.w.gas_price, fx.w.params.gas_costs(), fx.w.params.fee_params(), Some(fx.w.block_height.into())).ok()?;
    let mut vm = new_vm_rec(&fx.w);
    vm.init_script(ready).ok()?;
    let s0 = snap(&vm);
    let data_at = vm.tx_offset() as u64 + vm.transaction().script_data_offset() as u64;
    out.ev(json!({"ev": "Seg"}));
    let mut init = merge(json!({"ev": "Init", "run": run, "kind": "exec", "env": env_json(&vm, &fx.w), "regs": regs_json(&s0.regs),
                  "stack": hx(&s0.stack), "hp": s0.hp, "early": false}),
                  world_json(&fx.w.storage, &fx.contracts, &fx.assets, &fx.blobs, &fx.inputs));
    attach(&mut init, &vm);
    out.ev(init);
    Some(Session { vm, table_at: data_at, call_at: data_at + call_off as u64, n_entries: fx.table.len() })
}

trait SeedCompat { fn seed_from_u64_compat(s: u64) -> StdRng; }
impl SeedCompat for StdRng { fn seed_from_u64_compat(s: u64) -> StdRng { <StdRng as rand::SeedableRng>::seed_from_u64(s ^ 0x5eed) } }

/// a value around the interesting lengths (object lengths, their padded neighbours, the grid 0..11 scaled by 8)
fn near_len(rng: &mut StdRng, lens: &[u64]) -> u64 {
    let base = match rng.gen_range(0..6) {
        0 => 8 * rng.gen_range(0..12u64),
        1 => rng.gen_range(0..12u64),
        _ => *lens.choose(rng).unwrap_or(&0),
    };
    let d: i64 = *[0i64, 0, 0, 1, -1, 7, -7, 8, -8, 9, -9, 4].choose(rng).unwrap();
    if d < 0 { base.saturating_sub((-d) as u64) } else { base + d as u64 }
}

fn off_pick(rng: &mut StdRng, lens: &[u64]) -> u64 {
    match rng.gen_range(0..14) { 0 => u64::MAX, 1 => 1 << 32, 2 => (1 << 32) - 1, 3 => u32::MAX as u64 + 8, 4 | 5 | 6 => 0, _ => near_len(rng, lens) }
}

fn len_pick(rng: &mut StdRng, lens: &[u64], max_size: u64) -> u64 {
    match rng.gen_range(0..32) {
        0 => u64::MAX, 1 => u64::MAX - 6, 2 => MEM, 3 => MEM + 1, 4 => max_size, 5 => max_size + 1, 6 => max_size.saturating_sub(7), 7 => max_size + 8,
        _ => near_len(rng, lens),
    }
}

/// an address for a 32-byte identifier: mostly a table entry, sometimes a boundary of the accessible memory
fn id_ptr(rng: &mut StdRng, s: &Session, idx: Option<usize>) -> u64 {
    let regs = s.vm.registers();
    match rng.gen_range(0..40) {
        0 => MEM - 32, 1 => MEM - 31, 2 => u64::MAX, 3 => regs[RHP].wrapping_sub(16), 4 => regs[RSP], 5 => 0, 6 => s.table_at + 5,
        _ => s.table_at + 32 * idx.unwrap_or_else(|| rng.gen_range(0..s.n_entries)) as u64,
    }
}

/// a destination address around the owned regions
fn dst_ptr(rng: &mut StdRng, s: &Session, n: u64, heap0: u64) -> u64 {
    let regs = s.vm.registers();
    let (ssp, sp, hp) = (regs[RSSP], regs[RSP], regs[RHP]);
    match rng.gen_range(0..40) {
        0 => hp.wrapping_sub(1), 1 => MEM.wrapping_sub(n), 2 => MEM.wrapping_sub(n).wrapping_add(1), 3 => ssp, 4 => sp.wrapping_sub(n), 5 => sp.wrapping_sub(n).wrapping_add(1),
        6 => 0, 7 => u64::MAX, 8 => sp, 9 => heap0.wrapping_sub(n), 10 => heap0.wrapping_sub(n).wrapping_add(1), 11 => heap0, 12 => ssp.wrapping_sub(8),
        13 | 14 => if sp > ssp { rng.gen_range(ssp..sp) } else { ssp },
        _ => hp + rng.gen_range(0..64),
    }
}

const A: u8 = 0x10; const B: u8 = 0x11; const C: u8 = 0x12; const D: u8 = 0x13;

/// one random contract / blob instruction with boundary-biased arguments; returns (register presets, word)
fn pick_instr(rng: &mut StdRng, fx: &Fix, s: &Session, heap0: u64, only: Option<&str>, pad_cases: bool) -> (Vec<(usize, u64)>, u32) {
    let nc = fx.contracts.len() + 2;              // contract entries of the table (stored, ghost input, nobody)
    let nb = fx.blobs.len() + 1;                  // blob entries (stored, unknown)
    let cidx = |rng: &mut StdRng| rng.gen_range(0..nc);
    let bidx = |rng: &mut StdRng| nc + rng.gen_range(0..nb);
    let aidx = |rng: &mut StdRng| nc + nb + rng.gen_range(0..2);
    let max_size = fx.w.params.contract_params().contract_max_size();
    let kinds = ["BAL", "CSIZ", "CROO", "CROO", "CCP", "CCP", "CCP", "LDC0", "LDC0", "LDC1", "LDC1", "LDC2", "LDC2", "BSIZ", "BLDD", "BLDD", "BLDD", "LDCX"];
        let kinds = if rng.gen_range(0..4) == 0 { &kinds[..] } else { &kinds[..17] };
    let kind = match only { Some(k) => k, None => *kinds.choose(rng).unwrap() };
    let dreg: u8 = match rng.gen_range(0..16) { 0 => rng.gen_range(0..16), 1 => A, _ => 0x20 };
    let mut sets: Vec<(usize, u64)> = vec![];
    let word = match kind {
        "BAL" => {
            // sometimes the pointers are swapped / wild so that a non-id is used as a contract id
            let (pa, pc) = if rng.gen_range(0..10) == 0 { (id_ptr(rng, s, None), id_ptr(rng, s, None)) } else { let i = aidx(rng); let j = cidx(rng); (id_ptr(rng, s, Some(i)), id_ptr(rng, s, Some(j))) };
            sets.extend([(B as usize, pa), (C as usize, pc)]);
            enc_rrr(0x49, dreg, B, C)
        }
        "CSIZ" => { let j = cidx(rng); sets.push((B as usize, id_ptr(rng, s, Some(j)))); enc_rrr(0x30, dreg, B, 0) & 0xfffff000 }
        "BSIZ" => { let j = if rng.gen_range(0..8) == 0 { cidx(rng) } else { bidx(rng) }; sets.push((B as usize, id_ptr(rng, s, Some(j)))); enc_rrr(0xba, dreg, B, 0) & 0xfffff000 }
        "CROO" => {
            let j = cidx(rng);
            sets.extend([(A as usize, dst_ptr(rng, s, 32, heap0)), (B as usize, id_ptr(rng, s, Some(j)))]);
            enc_rrr(0x2f, A, B, 0) & 0xfffff000
        }
        "CCP" | "BLDD" => {
            let j = if kind == "CCP" { cidx(rng) } else if rng.gen_range(0..8) == 0 { cidx(rng) } else { bidx(rng) };
            let n = len_pick(rng, &fx.lens, max_size);
            sets.extend([(A as usize, dst_ptr(rng, s, n, heap0)), (B as usize, id_ptr(rng, s, Some(j))), (C as usize, off_pick(rng, &fx.lens)), (D as usize, n)]);
            enc_rrrr(if kind == "CCP" { 0x2e } else { 0xbb }, A, B, C, D)
        }
        "LDC0" | "LDC1" | "LDCX" => {
            let mode: u8 = if kind == "LDC0" { 0 } else if kind == "LDC1" { 1 } else { rng.gen_range(3..64) };
            let j = if mode == 1 { bidx(rng) } else { cidx(rng) };
            let off = off_pick(rng, &fx.lens);
            let mut n = len_pick(rng, &fx.lens, max_size);
            // input selection: loads whose word-alignment padding would cover bytes of the object itself (unaligned length
            // ending before the end of the object) are generated only by the part `ldcpad`
            let covers = |n: u64| n % 8 != 0 && fx.obj_len[j].map_or(false, |l| off.checked_add(n).map_or(false, |e| e < l));
            if pad_cases { if !covers(n) { if let Some(l) = fx.obj_len[j] { if l > 2 { n = rng.gen_range(1..l.min(60)); } } } }
            else if covers(n) { n = (n + 7) & !7; }
            sets.extend([(A as usize, id_ptr(rng, s, Some(j))), (B as usize, if pad_cases && !covers(n) { 0 } else { off }), (C as usize, n)]);
            enc_rrrr(0x32, A, B, C, mode)
        }
        _ => { // LDC2: memory source around the table, the stack top and the heap
            let regs = s.vm.registers();
            let n = len_pick(rng, &fx.lens, max_size);
            let src = match rng.gen_range(0..10) { 0 => regs[RSSP], 1 => regs[RSSP].wrapping_sub(n), 2 => regs[RSSP].wrapping_sub(n).wrapping_add(1), 3 => regs[RSSP] + (n & 7), 4 => regs[RHP], 5 => MEM.wrapping_sub(n),
                                                6 => MEM.wrapping_sub(n).wrapping_add(1), 7 => u64::MAX, _ => s.table_at + rng.gen_range(0..64) };
            let off = match rng.gen_range(0..8) { 0 => u64::MAX, 1 => 1, 2 => 8, _ => 0 };
            sets.extend([(A as usize, src), (B as usize, off), (C as usize, n)]);
            enc_rrrr(0x32, A, B, C, 2)
        }
    };
    (sets, word)
}

/// C36 instruction level (and C30 on single instructions): exec-mode sessions over fixtures whose object lengths sit on the
/// grid 0..11 (x1 and x8) and around the 16 KiB leaf size; script context, then inside a called contract
fn exec_part(o: &Opts, out: &mut Out, run: &mut u64) {
    let thorough = o.thorough();
    let mut rng = o.rng(36);
    let sessions = if thorough { 35 } else { 4 };
    let per = if thorough { 320 } else { 170 };
    for k in 0..sessions {
        let gas = match k % 4 { 0 => GasCosts::default(), 1 => varied_gas(&mut rng, 9, true), 2 => GasCosts::unit(), _ => varied_gas(&mut rng, 300, false) };
        let max_size = match k % 3 { 0 => 102_400, 1 => 1_000, _ => 64 };
        // stored contract code lengths: [called contract, ..., outsider]; blobs
        let (lens, blens): (Vec<usize>, Vec<usize>) = match k % 7 {
            0 => (vec![72, 0, 75, 9, 40], vec![64, 0, 11]),
            1 => (vec![8, 1, 88, 7, 16], vec![9, 80, 3]),
            2 => (vec![24, 16_384, 16_385, 5, 8], vec![16, 1, 4_100]),
            3 => (vec![56, 10, 32_776, 11, 3], vec![72, 8, 0]),
            4 => (vec![40, 2, 6, 1_000, 64], vec![1_001, 5, 56]),
            5 => (vec![16, 4, 48, 102_400, 12], vec![7, 40, 102_399]),
            _ => (vec![rng.gen_range(8..200), rng.gen_range(0..12), 8 * rng.gen_range(0..12), rng.gen_range(0..100), 20], vec![rng.gen_range(0..12), 8 * rng.gen_range(0..12), rng.gen_range(0..300)]),
        };
        let fx = fixture(&mut rng, gas, max_size, &lens, &blens);
        *run += 1;
        let mut s = match exec_session(out, *run, &fx, 50_000_000) { Some(s) => s, None => { out.ev(json!({"ev": "SetupFailed", "run": *run})); continue } };
        let pc0 = s.vm.registers()[RPC];
        let mut i = 0u64;
        let mut step = |s: &mut Session, i: &mut u64, sets: &[(usize, u64)], raw: u32| -> bool { let r = exec_one_acc(out, *run, *i, &mut s.vm, sets, raw); *i += 1; r };
        let big = 50_000_000u64;
        // a heap area to copy into
        step(&mut s, &mut i, &[(A as usize, 4096), (RPC, pc0), (RCGAS, big), (RGGAS, big)], enc_rrr(0x26, A, 0, 0) & 0xfffc0000);
        let mut heap0 = MEM;
        let mut in_call = false;
        for j in 0..per {
            // phases: empty stack frame -> allocated stack frame -> empty again -> inside a called contract
            if j == per / 4 { step(&mut s, &mut i, &[(RCGAS, big), (RGGAS, big)], enc_i24(0x91, 256)); }                         // CFEI 256
            if j == per / 4 + per / 8 { step(&mut s, &mut i, &[(RCGAS, big), (RGGAS, big)], enc_i24(0x92, 256)); }                // CFSI 256
            if j == per / 2 {
                heap0 = s.vm.registers()[RHP];
                let call_at = s.call_at;
                let ok = step(&mut s, &mut i, &[(A as usize, call_at), (B as usize, 0), (C as usize, call_at + 48), (D as usize, 10_000_000), (RCGAS, big), (RGGAS, big)], enc_rrrr(0x2d, A, B, C, D));
                in_call = ok;
                if ok { step(&mut s, &mut i, &[(A as usize, 2048), (RCGAS, 10_000_000)], enc_rrr(0x26, A, 0, 0) & 0xfffc0000); }
            }
            if in_call && j == per / 2 + per / 4 { step(&mut s, &mut i, &[(RCGAS, 10_000_000)], enc_i24(0x91, 64)); }
            if in_call && j == per / 2 + per / 4 + per / 16 { step(&mut s, &mut i, &[(RCGAS, 10_000_000)], enc_i24(0x92, 64)); }
            let (mut sets, word) = pick_instr(&mut rng, &fx, &s, heap0, None, false);
            let gas = match rng.gen_range(0..14) { 0 => rng.gen_range(0..40), 1 => rng.gen_range(0..400), _ => 10_000_000 };
            sets.push((RCGAS, gas));
            sets.push((RGGAS, if in_call { big } else { gas + rng.gen_range(0..3) }));
            if !in_call { sets.push((RPC, pc0)); }
            sets.push((0x20, rng.gen()));
            step(&mut s, &mut i, &sets, word);
            // keep the stack from growing without bound: a session stops loading big objects once it is large
            if s.vm.memory().stack_raw().len() > 3_000_000 { break; }
        }
    }
}

/// LDC of contract code / blobs with an unaligned length that ends before the end of the object: the word-alignment padding
/// lies over bytes of the object (kept apart from `exec` because every such load is a recorded finding)
fn ldcpad_part(o: &Opts, out: &mut Out, run: &mut u64) {
    let thorough = o.thorough();
    let mut rng = o.rng(3636);
    let sessions = if thorough { 10 } else { 4 };
    for k in 0..sessions {
        let fx = fixture(&mut rng, GasCosts::default(), 102_400, &[72, 40, 75, 9, 40], &[64, 40, 11]);
        *run += 1;
        let mut s = match exec_session(out, *run, &fx, 50_000_000) { Some(s) => s, None => continue };
        let pc0 = s.vm.registers()[RPC];
        let mut n = 0u64;
        for i in 0..(if thorough { 20 } else { 8 }) {
            // every other load happens over a DIRTY former stack frame: 64 bytes above $sp are allocated, filled with two
            // SHA-256 digests and released again - the loaded code's alignment padding must still be zero
            if i % 2 == 1 {
                let sp0 = s.vm.registers()[RSP];
                let g = [(RCGAS, 10_000_000u64), (RGGAS, 10_000_000), (RPC, pc0)];
                let mut pre = |sets: &[(usize, u64)], word: u32, n: &mut u64| { let mut v = sets.to_vec(); v.extend(g); exec_one_tagged(out, *run, *n, &mut s.vm, &v, word, Some("ldcpad")); *n += 1; };
                pre(&[], enc_i24(0x91, 64), &mut n);
                pre(&[(A as usize, sp0), (B as usize, 0), (C as usize, 0)], enc_rrr(0x42, A, B, C), &mut n);
                pre(&[(A as usize, sp0 + 32), (B as usize, 0), (C as usize, 1)], enc_rrr(0x42, A, B, C), &mut n);
                pre(&[], enc_i24(0x92, 64), &mut n);
            }
            let (mut sets, word) = pick_instr(&mut rng, &fx, &s, MEM, Some(if (k + i) % 2 == 0 { "LDC0" } else { "LDC1" }), true);
            sets.extend([(RCGAS, 10_000_000), (RGGAS, 10_000_000), (RPC, pc0)]);
            exec_one_tagged(out, *run, n, &mut s.vm, &sets, word, Some("ldcpad"));
            n += 1;
        }
    }
}

// ------------------------------------------------------------------------------------------------------------
// C30: programs that probe arbitrary contract ids (run mode)
// ------------------------------------------------------------------------------------------------------------

fn r(k: u8) -> RegId { RegId::new(0x10 + k) }

/// Offsets inside the script data (reached through GTF ScriptData in the script and in the prober contract)
const D_CALL_PROBER: u16 = 0;     // Call { prober, a, b }
const D_CALL_TARGET: u16 = 48;    // Call { target of a CALL probe, 0, 0 }
const D_ASSET: u16 = 96;
const D_IDS: u16 = 128;           // 32-byte ids: 0 prober, 1 friend (input), 2 outsider (stored, not an input), 3 nobody

/// instructions probing the contract whose id is entry `t` of the id table; r0 holds the script data address
fn probe(kind: &str, t: u16, amount: u32) -> Vec<Instruction> {
    let tp = r(1);   // pointer to the target id
    let ap = r(2);   // pointer to the asset id
    let mut p = vec![op::addi(tp, r(0), D_IDS + 32 * t), op::addi(ap, r(0), D_ASSET)];
    match kind {
        "BAL" => p.push(op::bal(r(5), ap, tp)),
        "CSIZ" => p.push(op::csiz(r(5), tp)),
        "CROO" => { p.push(op::movi(r(4), 32)); p.push(op::aloc(r(4))); p.push(op::croo(RegId::HP, tp)); }
        "CCP" => { p.push(op::movi(r(4), 24)); p.push(op::aloc(r(4))); p.push(op::movi(r(6), 4)); p.push(op::ccp(RegId::HP, tp, r(6), r(4))); }
        "LDC" => { p.push(op::movi(r(4), 16)); p.push(op::ldc(tp, RegId::ZERO, r(4), 0)); }
        "TR" => { p.push(op::movi(r(4), amount)); p.push(op::tr(tp, r(4), ap)); }
        "CALL" => { p.push(op::addi(r(3), r(0), D_CALL_TARGET)); p.push(op::movi(r(4), amount)); p.push(op::call(r(3), r(4), ap, RegId::CGAS)); }
        "SRW" => { p.push(op::movi(r(4), 32)); p.push(op::aloc(r(4))); p.push(op::srw(r(5), r(6), RegId::HP, 0)); }
        "SWW" => { p.push(op::movi(r(4), 32)); p.push(op::aloc(r(4))); p.push(op::sww(RegId::HP, r(6), r(4))); }
        _ => p.push(op::noop()),
    }
    p
}

const PROBES: [&str; 7] = ["BAL", "CSIZ", "CROO", "CCP", "LDC", "TR", "CALL"];

struct C30Run { kind: String, ctx: &'static str, target: u16, chain: Vec<(String, u16)> }

fn c30_one(o: &Opts, out: &mut Out, run: &mut u64, rng: &mut StdRng, k: u64, first: (&str, u16), in_contract: bool, extra_chain: usize, driver: &str) {
    let mut tb = TestBuilder::new(o.seed.wrapping_mul(1000).wrapping_add(k));
    let asset: AssetId = if k % 3 == 0 { AssetId::zeroed() } else { rng.gen() };
    let amount: u32 = if k % 5 == 0 { 0 } else { rng.gen_range(1..50) };
    // the chain of probes: the first is the one under test, followed by probes of input contracts (which succeed)
    let mut chain: Vec<(String, u16)> = vec![(first.0.to_string(), first.1)];
    for _ in 0..extra_chain {
        let kind = *["BAL", "CSIZ", "CROO", "CCP", "TR", "BAL", "CSIZ", "SRW", "SWW"].choose(rng).unwrap();
        chain.push((kind.to_string(), if rng.gen_bool(0.7) { 1 } else { 0 }));
    }
    if rng.gen_bool(0.5) { chain.rotate_right(1); }   // the probe under test is not always first
    let body = |chain: &[(String, u16)], in_contract: bool| -> Vec<Instruction> {
        let mut p = vec![op::gtf_args(r(0), RegId::ZERO, GTFArgs::ScriptData)];
        for (kind, t) in chain {
            // LDC needs an empty stack frame; state instructions need a contract context
            if (kind == "SRW" || kind == "SWW") && !in_contract { continue; }
            p.extend(probe(kind, *t, amount));
        }
        p.push(op::ret(RegId::ONE));
        p
    };
    let friend_code: Vec<Instruction> = vec![op::movi(r(0), 5), op::log(r(0), RegId::BAL, RegId::ZERO, RegId::ZERO), op::ret(r(0))];
    let prober = tb.setup_contract(if in_contract { body(&chain, true) } else { vec![op::ret(RegId::ONE)] }, Some((asset, 1_000)), None).contract_id;
    let friend = tb.setup_contract(friend_code.clone(), if k % 2 == 0 { Some((asset, 5)) } else { None }, None).contract_id;
    let outsider = tb.setup_contract(friend_code, Some((asset, 9)), None).contract_id;
    let nobody: ContractId = rng.gen();
    let ids = [prober, friend, outsider, nobody];
    let mut data = Call::new(prober, 1, 2).to_bytes();
    data.extend_from_slice(&Call::new(ids[if first.0 == "CALL" { first.1 as usize } else { 1 }], 3, 4).to_bytes());
    data.extend_from_slice(asset.as_ref());
    for id in ids { data.extend_from_slice(id.as_ref()); }
    let script: Vec<Instruction> = if in_contract {
        vec![op::gtf_args(r(0), RegId::ZERO, GTFArgs::ScriptData), op::addi(r(2), r(0), D_ASSET),
             op::call(r(0), RegId::ZERO, r(2), RegId::CGAS), op::ret(RegId::RET)]
    } else { body(&chain, false) };
    // every third run executes on an interpreter that has just run ANOTHER transaction listing the outsider as an input
    // contract: the inputs of an earlier transaction must not authorise anything in the next one
    let warm: Option<Checked<Script>> = if k % 3 == 1 {
        tb.start_script(vec![op::ret(RegId::ONE)], vec![]).gas_price(0).script_gas_limit(10_000)
            .contract_input(prober).contract_input(friend).contract_input(outsider)
            .fee_input().contract_output(&prober).contract_output(&friend).contract_output(&outsider);
        catch(std::panic::AssertUnwindSafe(|| tb.build())).ok()
    } else { None };
    tb.start_script(script, data).gas_price(0).script_gas_limit(30_000).contract_input(prober).contract_input(friend)
        .coin_input(asset, 500).change_output(asset).fee_input().contract_output(&prober).contract_output(&friend);
    let checked = match catch(std::panic::AssertUnwindSafe(|| tb.build())) { Ok(c) => c, Err(m) => { out.ev(json!({"ev": "SetupFailed", "msg": m})); return } };
    let mut w = World { params: ConsensusParameters::standard(), gas_price: 0, storage: tb.get_storage().clone(), block_height: 0 };
    w.block_height = u32::from(tb.get_block_height());
    *run += 1;
    out.ev(json!({"ev": "Seg"}));
    let extra = merge(json!({"driver": driver, "probe": first.0, "target": first.1, "ctx": if in_contract { "contract" } else { "script" }}),
                      world_json(&w.storage, &[prober, friend, outsider], &[asset, AssetId::zeroed()], &[], &[prober, friend]));
    let mut vm = new_vm_rec(&w);
    if let Some(c) = warm { let _ = crate::vmcore::run_plain(&mut vm, &w, c); }
    record_run_acc(out, *run, &mut vm, &w, checked, extra, 20_000);
}

/// every probe x target class x context, except CALL of a contract outside the inputs (part c30call)
fn c30_part(o: &Opts, out: &mut Out, run: &mut u64, known: bool) {
    let thorough = o.thorough();
    let mut rng = o.rng(if known { 301 } else { 30 });
    let reps = if !thorough { 1 } else if known { 2 } else { 6 };
    let mut k = 0u64;
    for rep in 0..reps {
        for in_contract in [false, true] {
            for kind in PROBES {
                for target in 0..4u16 {
                    let is_known = kind == "CALL" && target >= 2;
                    if is_known != known { continue; }
                    // quick tier: three of the four known shapes (script -> stored outsider, contract -> stored outsider, contract -> unknown id)
                    if known && !thorough && !in_contract && target == 3 { continue; }
                    k += 1;
                    c30_one(o, out, run, &mut rng, k, (kind, target), in_contract, if rep % 2 == 0 { 2 } else { 4 }, if known { "c30call" } else { "c30" });
                }
            }
        }
    }
}

// ------------------------------------------------------------------------------------------------------------
// C30: predicates never touch contract state
// ------------------------------------------------------------------------------------------------------------

fn pred_part(o: &Opts, out: &mut Out, _run: &mut u64) {
    let thorough = o.thorough();
    let mut rng = o.rng(3000);
    let params = ConsensusParameters::standard();
    let pparams = CheckPredicateParams::from(&params);
    // a chain state with a contract (code, balance, state) and a blob the predicates may aim at
    let mut st = MemoryStorage::default();
    let cid: ContractId = rng.gen();
    StorageWrite::<ContractsRawCode>::write_bytes(&mut st, &cid, &rcode(&mut rng, 40)).unwrap();
    st.contract_asset_id_balance_insert(&cid, &AssetId::zeroed(), 1234).unwrap();
    StorageWrite::<ContractsState>::write_bytes(&mut st, &ContractsStateKey::new(&cid, &Bytes32::zeroed()), &[7u8; 32]).unwrap();
    let blob: Vec<u8> = rcode(&mut rng, 50);
    let bid = BlobId::from(<[u8; 32]>::from(fuel_crypto::Hasher::hash(&blob)));
    StorageWrite::<BlobData>::write_bytes(&mut st, &bid, &blob).unwrap();
    let pstore = RecPredicateStorage::new(st);
    // every opcode byte the assembler knows, as the instruction after a harmless prologue
    let opcodes: Vec<u8> = (0u16..256).map(|x| x as u8).filter(|b| fuel_asm::Opcode::try_from(*b).is_ok()).collect();
    let reps = if thorough { 3 } else { 1 };
    out.ev(json!({"ev": "Seg"}));
    for rep in 0..reps {
        for opc in &opcodes {
            // predicate data: contract id, then blob id; the prologue points registers 0x10 / 0x11 at them
            let mut data = cid.to_vec();
            data.extend_from_slice(bid.as_ref());
            let mut code: Vec<u8> = vec![];
            let n_pro = if rep == 0 { 0 } else { rng.gen_range(1..4) };
            for _ in 0..n_pro {
                let ins = if rng.gen_bool(0.3) { op::noop() } else { op::movi(RegId::new(rng.gen_range(0x10..0x20)), rng.gen_range(0..0x40000)) };
                code.extend_from_slice(&ins.to_bytes());
            }
            // operands: registers 0x10.. (zero or small values) - the refusal must not depend on them
            let word: u32 = ((*opc as u32) << 24) | if *opc == 0x32 { enc_rrrr(0, 0x10, 0, 0x11, if rep == 2 { 1 } else { 0 }) } else { operand_bits(*opc, &mut rng) };
            code.extend_from_slice(&word.to_be_bytes());
            code.extend_from_slice(&op::ret(RegId::ONE).to_bytes());
            let mut b = TransactionBuilder::script(vec![], vec![]);
            b.add_input(Input::coin_predicate(rng.gen(), Input::predicate_owner(&code), rng.gen_range(1..1000), AssetId::zeroed(), rng.gen(), 1_000_000, code.clone(), data));
            b.script_gas_limit(0).max_fee_limit(0);
            let tx = b.finalize();
            let checked = match tx.into_checked_basic(Default::default(), &params) { Ok(c) => c, Err(e) => { out.ev(json!({"ev": "PredSkipped", "err": format!("{e:?}"), "word": format!("{word:08x}")})); continue } };
            pstore.take_log();
            let res = catch(std::panic::AssertUnwindSafe(|| predicates::check_predicates(&checked, &pparams, MemoryInstance::new(), &pstore, NotSupportedEcal)));
            let log = pstore.take_log();
            match res {
                Ok(r) => {
                    let (ok, reason) = match &r {
                        Ok(_) => (true, None),
                        Err(e) => (false, Some(pred_reason(e))),
                    };
                    out.ev(json!({"ev": "PredCheck", "code": hx(&code), "word": format!("{word:08x}"), "ok": ok, "reason": reason.unwrap_or_else(|| "-".into()),
                                  "err": r.as_ref().err().map(|e| format!("{e:?}")), "acc": acc_json(&log)}));
                }
                Err(m) => out.ev(json!({"ev": "HostPanic", "where": "check_predicates", "msg": m, "word": format!("{word:08x}")})),
            }
        }
    }
}

/// operand bits with the reserved (unused) low bits zero, so that the word is a valid instruction of its shape
fn operand_bits(opc: u8, rng: &mut StdRng) -> u32 {
    let regs = |rng: &mut StdRng, n: u32| -> u32 { let mut v = 0u32; for i in 0..n { v |= (rng.gen_range(0x10..0x14u32)) << (18 - 6 * i); } v };
    // number of 6-bit register fields actually used, found by asking the decoder which encodings it accepts: try the fullest first
    for n in [4u32, 3, 2, 1, 0] {
        let bits = regs(rng, n);
        let w = ((opc as u32) << 24) | bits;
        if fuel_asm::Instruction::try_from(w.to_be_bytes()).is_ok() { return bits; }
    }
    0
}

fn pred_reason(e: &fuel_vm::error::PredicateVerificationFailed) -> String {
    use fuel_vm::error::PredicateVerificationFailed as P;
    match e {
        P::PanicInstruction { instruction, .. } => format!("{:?}", instruction.reason()),
        P::Panic { reason, .. } => format!("{:?}", reason),
        other => format!("{:?}", other).split(|c: char| !c.is_alphanumeric()).next().unwrap_or("?").to_string(),
    }
}

pub fn record(o: &Opts) -> Res<()> {
    let mut out = Out::open(&o.out)?;
    let part = o.opt("--part").unwrap_or_else(|| "exec".into());
    let want = |p: &str| part == "all" || part.split(',').any(|x| x == p);
    let mut run = 0u64;
    if want("exec") { exec_part(o, &mut out, &mut run); }
    if want("ldcpad") { ldcpad_part(o, &mut out, &mut run); }
    if want("c30") { c30_part(o, &mut out, &mut run, false); }
    if want("c30call") { c30_part(o, &mut out, &mut run, true); }
    if want("pred") { pred_part(o, &mut out, &mut run); }
    let n = out.finish();
    eprintln!("vmcontract: {n} events");
    Ok(())
}
