//! C35 — upload / blob / deployment / upgrade tables: replay of TLC predictions (Leg R) and trace
//! recording (Leg T).  Real transactions (Create, Blob, Upload, Upgrade) are built with the public
//! constructors of fuel-tx, checked with `into_checked_basic`, and executed two ways:
//!   via "client"   : MemoryClient::{deploy, blob, upload, upgrade}   (Interpreter::deploy/... paths)
//!   via "transact" : Interpreter::<_, _, Kind>::transact(ready)      (init_script + run() dispatch)
//! over a MemoryStorage whose tables are dumped through public accessors after every step.
//! The harness holds no expectation of its own: expectations come from the TLA+ model (replay) or
//! are judged by TLC (record).
use crate::util::*;
use fuel_asm::op;
use fuel_storage::StorageInspect;
use fuel_tx::{
    policies::Policies, Blob, BlobBody, ConsensusParameters, Contract, Create, Input, Output, StorageSlot, Transaction,
    Upgrade, UpgradePurpose, Upload, UploadBody, UploadSubsection, Witness,
};
use fuel_types::{Address, AssetId, BlobId, Bytes32, ContractId, Salt};
use fuel_vm::{
    checked_transaction::{Checked, IntoChecked},
    interpreter::{Interpreter, InterpreterParams, MemoryInstance},
    memory_client::MemoryClient,
    storage::{BlobData, ContractsRawCode, InterpreterStorage, MemoryStorage, UploadedBytecode},
};
use rand::{rngs::StdRng, seq::SliceRandom, Rng};
use serde_json::{json, Map, Value};
use std::collections::BTreeMap;
use std::panic::AssertUnwindSafe;

const AMOUNT: u64 = 1_000_000;

// ------------------------------------------------------------------------------------------
// building real transactions
// ------------------------------------------------------------------------------------------
pub struct World {
    chain: ConsensusParameters,
    owner: Address,
    predicate: Vec<u8>,
}

#[derive(Clone)]
pub enum CTx {
    Create(Checked<Create>),
    Blob(Checked<Blob>),
    Upload(Checked<Upload>),
    Upgrade(Checked<Upgrade>),
}

fn b32(h: &str) -> Bytes32 { Bytes32::from(unhx32(h)) }

impl World {
    pub fn new() -> Self {
        let predicate: Vec<u8> = vec![op::ret(1)].into_iter().collect();
        let owner = Input::predicate_owner(&predicate);
        let mut chain = ConsensusParameters::standard();
        chain.set_privileged_address(owner);
        World { chain, owner, predicate }
    }
    fn input(&self) -> Input {
        Input::coin_predicate(Default::default(), self.owner, AMOUNT, AssetId::BASE, Default::default(), Default::default(),
                              self.predicate.clone(), vec![])
    }
    fn change(&self) -> Output { Output::change(self.owner, 0, AssetId::BASE) }
    fn policies(&self) -> Policies { Policies::new().with_max_fee(AMOUNT) }

    pub fn contract_id(salt: &[u8; 32], code: &[u8], slots: &[(Bytes32, Bytes32)]) -> (ContractId, Bytes32, Vec<StorageSlot>) {
        let mut ss: Vec<StorageSlot> = slots.iter().map(|(k, v)| StorageSlot::new(*k, *v)).collect();
        ss.sort();
        let state_root = Contract::initial_state_root(ss.iter());
        let root = Contract::root_from_code(code);
        (Contract::id(&Salt::from(*salt), &root, &state_root), state_root, ss)
    }
    pub fn create(&self, salt: &[u8; 32], code: &[u8], slots: &[(Bytes32, Bytes32)]) -> (ContractId, Result<CTx, String>) {
        let (id, state_root, ss) = Self::contract_id(salt, code, slots);
        let tx = Transaction::create(0, self.policies(), Salt::from(*salt), ss, vec![self.input()],
                                     vec![Output::contract_created(id, state_root), self.change()],
                                     vec![Witness::from(code.to_vec())]);
        (id, tx.into_checked_basic(1u32.into(), &self.chain).map(CTx::Create).map_err(|e| format!("{e:?}")))
    }
    pub fn blob(&self, id: BlobId, data: &[u8]) -> Result<CTx, String> {
        let tx = Transaction::blob(BlobBody { id, witness_index: 0 }, self.policies(), vec![self.input()], vec![self.change()],
                                   vec![Witness::from(data.to_vec())]);
        tx.into_checked_basic(1u32.into(), &self.chain).map(CTx::Blob).map_err(|e| format!("{e:?}"))
    }
    pub fn upload(&self, sub: UploadSubsection) -> Result<CTx, String> {
        let tx = Transaction::upload_from_subsection(sub, self.policies(), vec![self.input()], vec![self.change()], vec![]);
        tx.into_checked_basic(1u32.into(), &self.chain).map(CTx::Upload).map_err(|e| format!("{e:?}"))
    }
    pub fn upload_raw(&self, root: Bytes32, idx: u16, total: u16, bytes: &[u8], proof: Vec<Bytes32>) -> Result<CTx, String> {
        let body = UploadBody { root, witness_index: 0, subsection_index: idx, subsections_number: total, proof_set: proof };
        let tx = Transaction::upload(body, self.policies(), vec![self.input()], vec![self.change()], vec![Witness::from(bytes.to_vec())]);
        tx.into_checked_basic(1u32.into(), &self.chain).map(CTx::Upload).map_err(|e| format!("{e:?}"))
    }
    pub fn upgrade_cp(&self, cp: &ConsensusParameters) -> Result<CTx, String> {
        let tx = Transaction::upgrade_consensus_parameters(cp, self.policies(), vec![self.input()], vec![self.change()], vec![])
            .map_err(|e| format!("{e:?}"))?;
        tx.into_checked_basic(1u32.into(), &self.chain).map(CTx::Upgrade).map_err(|e| format!("{e:?}"))
    }
    pub fn upgrade_st(&self, root: Bytes32) -> Result<CTx, String> {
        let tx = Transaction::upgrade(UpgradePurpose::StateTransition { root }, self.policies(), vec![self.input()], vec![self.change()], vec![]);
        tx.into_checked_basic(1u32.into(), &self.chain).map(CTx::Upgrade).map_err(|e| format!("{e:?}"))
    }
}

/// the consensus parameter values the upgrades install, by label ("P1", "P2", ...)
pub fn cp_value(k: u64) -> ConsensusParameters {
    let mut cp = ConsensusParameters::standard();
    cp.set_block_gas_limit(30_000_000 + k);
    cp
}

// ------------------------------------------------------------------------------------------
// executing
// ------------------------------------------------------------------------------------------
#[derive(Clone, Copy, PartialEq, Eq, Debug)]
pub enum Via { Client, Transact }
impl Via { fn name(&self) -> &'static str { match self { Via::Client => "client", Via::Transact => "transact" } } }

pub struct Exec {
    client: MemoryClient<MemoryInstance>,
    ic: Interpreter<MemoryInstance, MemoryStorage, Create>,
    ib: Interpreter<MemoryInstance, MemoryStorage, Blob>,
    iu: Interpreter<MemoryInstance, MemoryStorage, Upload>,
    ig: Interpreter<MemoryInstance, MemoryStorage, Upgrade>,
}

pub struct Outcome { ok: bool, err: String, post: MemoryStorage }

impl Exec {
    pub fn new() -> Self {
        Exec {
            client: MemoryClient::new(MemoryInstance::new(), MemoryStorage::default(), InterpreterParams::default()),
            ic: Interpreter::with_storage(MemoryInstance::new(), MemoryStorage::default(), InterpreterParams::default()),
            ib: Interpreter::with_storage(MemoryInstance::new(), MemoryStorage::default(), InterpreterParams::default()),
            iu: Interpreter::with_storage(MemoryInstance::new(), MemoryStorage::default(), InterpreterParams::default()),
            ig: Interpreter::with_storage(MemoryInstance::new(), MemoryStorage::default(), InterpreterParams::default()),
        }
    }
    /// run one checked transaction on a copy of `pre`; the storage after it (whatever the result) is returned
    pub fn run(&mut self, via: Via, pre: &MemoryStorage, tx: &CTx) -> Outcome {
        macro_rules! transact {
            ($i:expr, $t:expr) => {{
                *$i.as_mut() = pre.clone();
                let (gp, gc, fp) = ($i.gas_price(), $i.gas_costs().clone(), *$i.fee_params());
                let r = match $t.clone().into_ready(gp, &gc, &fp, None) {
                    Ok(ready) => $i.transact(ready).map(|_| ()).map_err(|e| format!("{e:?}")),
                    Err(e) => Err(format!("ready: {e:?}")),
                };
                (r, $i.as_ref().clone())
            }};
        }
        let r = catch(AssertUnwindSafe(|| match via {
            Via::Client => {
                *self.client.as_mut() = pre.clone();
                let r = match tx {
                    CTx::Create(t) => self.client.deploy(t.clone()).map(|_| ()).map_err(|e| format!("{e:?}")),
                    CTx::Blob(t) => self.client.blob(t.clone()).map(|_| ()).ok_or_else(|| "None".to_string()),
                    CTx::Upload(t) => self.client.upload(t.clone()).map(|_| ()).ok_or_else(|| "None".to_string()),
                    CTx::Upgrade(t) => self.client.upgrade(t.clone()).map(|_| ()).map_err(|e| format!("{e:?}")),
                };
                (r, self.client.as_ref().clone())
            }
            Via::Transact => match tx {
                CTx::Create(t) => transact!(self.ic, t),
                CTx::Blob(t) => transact!(self.ib, t),
                CTx::Upload(t) => transact!(self.iu, t),
                CTx::Upgrade(t) => transact!(self.ig, t),
            },
        }));
        match r {
            Ok((Ok(()), post)) => Outcome { ok: true, err: String::new(), post },
            Ok((Err(e), post)) => Outcome { ok: false, err: e, post },
            Err(msg) => { *self = Exec::new(); Outcome { ok: false, err: format!("HOSTPANIC: {msg}"), post: pre.clone() } }
        }
    }
}

// ------------------------------------------------------------------------------------------
// projecting the storage tables (public accessors only)
// ------------------------------------------------------------------------------------------
#[derive(Default, Clone)]
pub struct Names {
    contracts: Vec<(String, ContractId)>,
    blobs: Vec<(String, BlobId)>,
    params: Vec<(String, ConsensusParameters)>,
}

pub fn project(st: &MemoryStorage, names: &Names) -> Value {
    let mut st = st.clone(); // the table accessors of MemoryStorage take &mut self
    let mut contracts = Map::new();
    for (name, id) in &names.contracts {
        if let Some(code) = StorageInspect::<ContractsRawCode>::get(&st, id).expect("infallible") {
            let mut slots = Map::new();
            for (k, v) in st.all_contract_state() {
                if k.contract_id() == id { slots.insert(hx(k.state_key()), json!(hx(v.as_ref()))); }
            }
            contracts.insert(name.clone(), json!({"code": hx(code.as_ref().as_ref()), "slots": Value::Object(slots)}));
        }
    }
    let nstate = st.all_contract_state().count();
    let mut blobs = Map::new();
    for (name, id) in &names.blobs {
        if let Some(d) = StorageInspect::<BlobData>::get(&st, id).expect("infallible") {
            blobs.insert(name.clone(), json!(hx(d.as_ref().as_ref())));
        }
    }
    let mut uploads = Map::new();
    for (root, e) in st.state_transition_bytecodes_mut().iter() {
        let v = match e {
            UploadedBytecode::Uncompleted { bytecode, uploaded_subsections_number } =>
                json!({"st": "U", "bytes": hx(bytecode), "n": *uploaded_subsections_number}),
            UploadedBytecode::Completed(bytecode) => json!({"st": "C", "bytes": hx(bytecode)}),
        };
        uploads.insert(hx(root), v);
    }
    let mut cpv = Map::new();
    for (ver, cp) in st.consensus_parameters_versions_mut().iter() {
        let label = names.params.iter().find(|(_, p)| p == cp).map(|(n, _)| n.clone()).unwrap_or_else(|| "unknown".into());
        cpv.insert(ver.to_string(), json!(label));
    }
    let mut stv = Map::new();
    for (ver, root) in st.state_transition_bytecodes_versions_mut().iter() {
        stv.insert(ver.to_string(), json!(hx(root)));
    }
    json!({
        "contracts": contracts, "blobs": blobs, "uploads": uploads, "cpv": cpv, "stv": stv,
        "curCP": st.consensus_parameters_version().expect("infallible").to_string(),
        "curST": st.state_transition_version().expect("infallible").to_string(),
        "nstate": nstate,
    })
}

/// everything MemoryStorage holds (incl. tables the projection does not name), for "did anything change"
fn fingerprint(st: &MemoryStorage) -> String { format!("{st:?}") }

/// TLC prints an empty function as [] and a non-empty string-keyed one as {..}
fn norm(v: &Value) -> Value {
    match v {
        Value::Array(a) if a.is_empty() => Value::Object(Map::new()),
        Value::Array(a) => Value::Array(a.iter().map(norm).collect()),
        Value::Object(m) => Value::Object(m.iter().map(|(k, x)| (k.clone(), norm(x))).collect()),
        x => x.clone(),
    }
}

// ------------------------------------------------------------------------------------------
// Leg R: replay
// ------------------------------------------------------------------------------------------
enum Def {
    Tx { kind: String, built: Result<CTx, String> },
    Env { kind: String, v: u32 },
}

struct Universe { defs: Vec<Def>, descr: Vec<Value>, names: Names }

fn slots_of(v: &Value) -> Vec<(Bytes32, Bytes32)> {
    match norm(v) {
        Value::Object(m) => m.iter().map(|(k, x)| (b32(k), b32(x.as_str().expect("slot value")))).collect(),
        _ => vec![],
    }
}

fn build_universe(cfg: &Value, w: &World, mism: &mut Agg) -> Universe {
    let txs = cfg["txs"].as_array().expect("txs");
    let mut names = Names::default();
    names.params = (1..=9).map(|k| (format!("P{k}"), cp_value(k))).collect();
    let mut defs = vec![];
    let mut splits: BTreeMap<(String, u64), Vec<UploadSubsection>> = BTreeMap::new();
    for (i, t) in txs.iter().enumerate() {
        let kind = jstr(t, "k");
        let d = match kind.as_str() {
            "Create" => {
                let (id, built) = w.create(&unhx32(&jstr(t, "salt")), &unhx(&jstr(t, "code")), &slots_of(&t["slots"]));
                names.contracts.push((jstr(t, "id"), id));
                Def::Tx { kind, built }
            }
            "Blob" => {
                let id = BlobId::from(unhx32(&jstr(t, "id")));
                if !names.blobs.iter().any(|(_, x)| *x == id) { names.blobs.push((jstr(t, "id"), id)); }
                Def::Tx { kind, built: w.blob(id, &unhx(&jstr(t, "data"))) }
            }
            "Upload" => {
                // the subsection comes from UploadSubsection::split_bytecode of the declared byte code; the
                // claimed index / total / proof / root are rewritten as the model says
                let code = jstr(t, "code");
                let size = ju64(t, "size");
                let subs = splits.entry((code.clone(), size)).or_insert_with(|| {
                    UploadSubsection::split_bytecode(&unhx(&code), size as usize).expect("split")
                });
                let part = ju64(t, "part") as usize - 1;
                let pof = ju64(t, "proofOf") as usize - 1;
                let mut s = subs[part].clone();
                s.proof_set = subs[pof].proof_set.clone();
                s.subsection_index = ju64(t, "idx") as u16;
                s.subsections_number = ju64(t, "total") as u16;
                s.root = b32(&jstr(t, "root"));
                // what split_bytecode produced must be what the RFC 6962 oracle of the model computed
                let exp_proof: Vec<String> = t["proof"].as_array().map(|a| a.iter().map(|x| x.as_str().unwrap().to_string()).collect()).unwrap_or_default();
                let got_proof: Vec<String> = s.proof_set.iter().map(hx).collect();
                if hx(&s.subsection) != jstr(t, "bytes") {
                    mism.add("split-bytecode/subsection/differs", json!({"tx": i, "expected": t["bytes"], "observed": hx(&s.subsection)}));
                }
                if got_proof != exp_proof {
                    mism.add("split-bytecode/proof/differs", json!({"tx": i, "expected": exp_proof, "observed": got_proof}));
                }
                Def::Tx { kind, built: w.upload(s) }
            }
            "UpgradeConsensusParameters" => {
                let label = jstr(t, "value");
                let cp = names.params.iter().find(|(n, _)| *n == label).expect("label").1.clone();
                Def::Tx { kind, built: w.upgrade_cp(&cp) }
            }
            "UpgradeStateTransition" => Def::Tx { kind, built: w.upgrade_st(b32(&jstr(t, "root"))) },
            "SetCurCP" | "SetCurST" => Def::Env { kind, v: ju64(t, "v") as u32 },
            k => panic!("unknown tx kind {k}"),
        };
        defs.push(d);
    }
    // the root of every declared byte code as split_bytecode computes it
    if let Value::Object(m) = norm(&cfg["roots"]) {
        for (root, code) in m.iter() {
            let subs = UploadSubsection::split_bytecode(&unhx(code["code"].as_str().unwrap()), code["size"].as_u64().unwrap() as usize).expect("split");
            if hx(subs[0].root) != *root {
                mism.add("split-bytecode/root/differs", json!({"expected": root, "observed": hx(subs[0].root)}));
            }
            if subs.len() as u64 != code["n"].as_u64().unwrap() {
                mism.add("split-bytecode/count/differs", json!({"expected": code["n"], "observed": subs.len()}));
            }
        }
    }
    Universe { defs, descr: txs.clone(), names }
}

#[derive(Default)]
struct Agg { m: BTreeMap<String, (u64, Value)> }
impl Agg {
    fn add(&mut self, class: &str, example: Value) {
        let e = self.m.entry(class.to_string()).or_insert((0, example));
        e.0 += 1;
    }
    fn merge(&mut self, o: Agg) {
        for (k, (n, ex)) in o.m {
            let e = self.m.entry(k).or_insert((0, ex));
            e.0 += n;
        }
    }
}

fn apply_env(st: &mut MemoryStorage, kind: &str, v: u32) {
    if kind == "SetCurCP" { st.set_consensus_parameters_version(v) } else { st.set_state_transition_version(v) }
}

/// observed outcome vs predicted outcome -> None | Some(what)
fn verdict(exp_ok: bool, obs_ok: bool, tables_as_predicted: bool, changed: bool) -> Option<&'static str> {
    if exp_ok && !obs_ok { return Some("rejected"); }
    if !exp_ok && obs_ok { return Some("accepted"); }
    if exp_ok && !tables_as_predicted { return Some("table-differs"); }
    if !exp_ok && (!tables_as_predicted || changed) { return Some("table-changed"); }
    if exp_ok && !changed { return Some("nothing-changed"); }
    None
}

fn merged(pre: &Value, delta: &Value) -> Value {
    let mut m = pre.as_object().expect("pre").clone();
    if let Value::Object(d) = norm(delta) {
        for (k, v) in d { m.insert(k, v); }
    }
    Value::Object(m)
}

struct Stats { lines: u64, path_steps: u64, evals: u64, pairs: u64, diverged_paths: u64 }

fn replay_lines(lines: &[Value], u: &Universe) -> (Agg, Stats) {
    let mut agg = Agg::default();
    let mut st = Stats { lines: 0, path_steps: 0, evals: 0, pairs: 0, diverged_paths: 0 };
    let mut ex = Exec::new();
    for line in lines {
        st.lines += 1;
        // --- the witness history ---
        let mut cur = MemoryStorage::default();
        let path: Vec<usize> = line["path"].as_array().map(|a| a.iter().map(|x| x.as_u64().unwrap() as usize - 1).collect()).unwrap_or_default();
        for &i in &path {
            st.path_steps += 1;
            match &u.defs[i] {
                Def::Env { kind, v } => apply_env(&mut cur, kind, *v),
                Def::Tx { built: Ok(tx), .. } => { cur = ex.run(Via::Client, &cur, tx).post; }
                Def::Tx { .. } => {}
            }
        }
        let pre = norm(&line["pre"]);
        let got = project(&cur, &u.names);
        if got != pre {
            // the step that went wrong was reported from the fan of the parent state; do not cascade
            st.diverged_paths += 1;
            agg.add("path/diverged", json!({"path": path.iter().map(|&i| u.descr[i].clone()).collect::<Vec<_>>(), "expected": pre, "observed": got}));
            continue;
        }
        let fp_pre = fingerprint(&cur);
        // --- every transaction of the universe from this state ---
        let mut fan: Vec<(usize, bool, String, Value)> = vec![];
        for f in line["ok"].as_array().map(|a| a.as_slice()).unwrap_or(&[]) {
            fan.push((f["i"].as_u64().unwrap() as usize - 1, true, "ok".to_string(), merged(&pre, &f["d"])));
        }
        if let Value::Object(m) = norm(&line["fail"]) {
            for (why, idxs) in m.iter() {
                for x in idxs.as_array().expect("fail idx") { fan.push((x.as_u64().unwrap() as usize - 1, false, why.clone(), pre.clone())); }
            }
        }
        for (i, exp_ok, why, exp_tables) in fan.iter() {
            let (i, exp_ok, why) = (*i, *exp_ok, why.as_str());
            st.pairs += 1;
            let mut report = |via: &str, what: &str, obs_ok: bool, err: &str, obs: &Value, agg: &mut Agg| {
                let kind = u.descr[i]["k"].as_str().unwrap_or("?");
                agg.add(&format!("{kind}/{why}/{what}"), json!({
                    "via": via, "history": path.iter().map(|&j| u.descr[j].clone()).collect::<Vec<_>>(), "tx": u.descr[i],
                    "expected": {"ok": exp_ok, "why": why, "tables": exp_tables}, "observed": {"ok": obs_ok, "err": err, "tables": obs}}));
            };
            match &u.defs[i] {
                Def::Env { kind, v } => {
                    st.evals += 1;
                    let mut s = cur.clone();
                    apply_env(&mut s, kind, *v);
                    let obs = project(&s, &u.names);
                    if obs != *exp_tables { report("env", "table-differs", true, "", &obs, &mut agg); }
                }
                Def::Tx { built: Err(e), .. } => {
                    // rejected before execution: nothing ran, the storage is untouched
                    st.evals += 1;
                    if let Some(what) = verdict(exp_ok, false, true, false) { report("check", what, false, e, &pre, &mut agg); }
                }
                Def::Tx { built: Ok(tx), .. } => {
                    for via in [Via::Client, Via::Transact] {
                        st.evals += 1;
                        let o = ex.run(via, &cur, tx);
                        let obs = project(&o.post, &u.names);
                        let changed = fingerprint(&o.post) != fp_pre;
                        if o.err.starts_with("HOSTPANIC") { report(via.name(), "host-panic", o.ok, &o.err, &obs, &mut agg); continue; }
                        if let Some(what) = verdict(exp_ok, o.ok, obs == *exp_tables, changed) {
                            report(via.name(), what, o.ok, &o.err, &obs, &mut agg);
                        }
                    }
                }
            }
        }
    }
    (agg, st)
}

pub fn replay(o: &Opts) -> Res<()> {
    let all = read_lines(o.input.as_ref().expect("input"))?;
    let mut out = Out::open(&o.out)?;
    let cfg = all.first().ok_or("empty behaviour file")?["cfg"].clone();
    if cfg.is_null() { return Err("first line must be {\"cfg\": ...}".into()); }
    let w = World::new();
    let mut agg = Agg::default();
    let u = build_universe(&cfg, &w, &mut agg);
    // transactions the model calls invalid must be refused by the checker, valid ones must pass it
    let valid = cfg["valid"].as_array().expect("valid");
    let mut invalid_checked = 0u64;
    for (i, d) in u.defs.iter().enumerate() {
        if let Def::Tx { kind, built } = d {
            let v = valid[i].as_bool().unwrap();
            if !v { invalid_checked += 1; }
            match (v, built) {
                (false, Ok(_)) => agg.add(&format!("{kind}/invalid/check-accepted"), json!({"tx": u.descr[i]})),
                (true, Err(e)) => agg.add(&format!("{kind}/valid/check-rejected"), json!({"tx": u.descr[i], "err": e})),
                _ => {}
            }
        }
    }
    let lines = &all[1..];
    let nthreads: usize = o.opt("--threads").and_then(|s| s.parse().ok()).unwrap_or(4).max(1);
    let chunk = (lines.len() + nthreads - 1) / nthreads.max(1);
    let mut tot = Stats { lines: 0, path_steps: 0, evals: 0, pairs: 0, diverged_paths: 0 };
    if !lines.is_empty() {
        let results: Vec<(Agg, Stats)> = std::thread::scope(|s| {
            let hs: Vec<_> = lines.chunks(chunk.max(1)).map(|c| { let u = &u; s.spawn(move || replay_lines(c, u)) }).collect();
            hs.into_iter().map(|h| h.join().expect("replay thread")).collect()
        });
        for (a, s) in results {
            agg.merge(a);
            tot.lines += s.lines; tot.path_steps += s.path_steps; tot.evals += s.evals; tot.pairs += s.pairs; tot.diverged_paths += s.diverged_paths;
        }
    }
    for (class, (n, ex)) in &agg.m {
        out.ev(json!({"mismatch": class, "count": n, "example": ex}));
    }
    out.ev(json!({"summary": {"behaviours": tot.lines, "steps": tot.path_steps, "pairs": tot.pairs, "evaluations": tot.evals,
                              "diverged_paths": tot.diverged_paths, "universe": u.defs.len(), "invalid_checked": invalid_checked}}));
    out.finish();
    Ok(())
}

// ------------------------------------------------------------------------------------------
// Leg T: seeded histories of real transactions, logged with arguments and results
// ------------------------------------------------------------------------------------------
struct RootDef { root: Bytes32, subs: Vec<UploadSubsection> }
struct ContractDef { salt: [u8; 32], code: Vec<u8>, slots: Vec<(Bytes32, Bytes32)>, id: ContractId }

fn boundary_version(rng: &mut StdRng) -> u32 {
    *[0u32, 0, 0, 1, 2, 7, 0x7fff_fffe, 0x7fff_ffff, 0x8000_0000, u32::MAX - 2].choose(rng).unwrap()
}

fn rand_bytes(rng: &mut StdRng, n: usize) -> Vec<u8> { (0..n).map(|_| rng.gen::<u8>()).collect() }

pub fn record(o: &Opts) -> Res<()> {
    let mut out = Out::open(&o.out)?;
    let mut rng = o.rng(35);
    let w = World::new();
    let mut ex = Exec::new();
    let segments = if o.thorough() { 1200 } else { 60 };
    let max_sub = w.chain.tx_params().max_bytecode_subsections();
    for seg in 0..segments {
        // ---- the universe of this segment ----
        let nroots = rng.gen_range(1..=3);
        let mut roots: Vec<RootDef> = vec![];
        let mut shared: Option<Vec<u8>> = None;
        for _ in 0..nroots {
            let size = *[1usize, 2, 3, 5, 8, 32].choose(&mut rng).unwrap();
            let nparts = *[1usize, 2, 2, 3, 3, 3, 4, 5, 6, 7, 8, 9].choose(&mut rng).unwrap();
            let tail = rng.gen_range(1..=size);
            let mut code = rand_bytes(&mut rng, size * (nparts - 1) + tail);
            // sometimes two byte codes start with the same subsection, or repeat a subsection
            if let Some(p) = &shared { if rng.gen_bool(0.5) && p.len() == size.min(code.len()) { code[..p.len()].copy_from_slice(p); } }
            if nparts >= 3 && rng.gen_bool(0.3) { let (a, b) = code.split_at_mut(size); b[..size].copy_from_slice(a); }
            shared = Some(code[..size.min(code.len())].to_vec());
            let subs = UploadSubsection::split_bytecode(&code, size).expect("split");
            if roots.iter().any(|r| r.root == subs[0].root) { continue; }
            roots.push(RootDef { root: subs[0].root, subs });
        }
        let ncontracts = rng.gen_range(1..=3);
        let base_len = *[1usize, 4, 8, 24, 100].choose(&mut rng).unwrap();
        let base_code = rand_bytes(&mut rng, base_len);
        let mut contracts: Vec<ContractDef> = vec![];
        for c in 0..ncontracts {
            let mut salt = [0u8; 32];
            salt[31] = c as u8;
            salt[0] = rng.gen();
            let code = if rng.gen_bool(0.6) { base_code.clone() } else { let n = rng.gen_range(1..40); rand_bytes(&mut rng, n) };
            let nslots = *[0usize, 0, 1, 2, 3].choose(&mut rng).unwrap();
            let mut slots: Vec<(Bytes32, Bytes32)> = vec![];
            for s in 0..nslots {
                let mut k = [0u8; 32];
                k[31] = s as u8;
                k[0] = rng.gen_range(0..3);
                let mut v = [0u8; 32];
                if rng.gen_bool(0.7) { v[rng.gen_range(0..32)] = rng.gen(); }
                if !slots.iter().any(|(kk, _)| kk.as_ref() == &k[..]) { slots.push((Bytes32::from(k), Bytes32::from(v))); }
            }
            let (id, _, _) = World::contract_id(&salt, &code, &slots);
            contracts.push(ContractDef { salt, code, slots, id });
        }
        let nblobs = rng.gen_range(1..=3);
        let blobs: Vec<Vec<u8>> = (0..nblobs).map(|_| { let n = *[0usize, 1, 7, 8, 40].choose(&mut rng).unwrap(); rand_bytes(&mut rng, n) }).collect();
        let mut names = Names::default();
        names.params = (1..=3).map(|k| (format!("P{k}"), cp_value(k))).collect();
        names.contracts = contracts.iter().map(|c| (hx(c.id), c.id)).collect();
        for b in &blobs {
            let id = BlobId::from(*fuel_crypto::Hasher::hash(b));
            if !names.blobs.iter().any(|(_, x)| *x == id) { names.blobs.push((hx(id), id)); }
        }
        let mut st = MemoryStorage::default();
        let (c0, s0) = (boundary_version(&mut rng), boundary_version(&mut rng));
        st.set_consensus_parameters_version(c0);
        st.set_state_transition_version(s0);
        let mut decl = Map::new();
        for r in &roots { decl.insert(hx(r.root), Value::Array(r.subs.iter().map(|s| json!(hx(&s.subsection))).collect())); }
        out.ev(json!({"ev": "Seg", "seg": seg, "roots": decl, "maxSubsections": max_sub, "curCP": c0.to_string(), "curST": s0.to_string(),
                      "tables": project(&st, &names)}));
        // ---- the history ----
        let steps = rng.gen_range(12..if o.thorough() { 50 } else { 36 });
        for _ in 0..steps {
            let via = if rng.gen_bool(0.5) { Via::Client } else { Via::Transact };
            let fp = fingerprint(&st);
            let mut ev = Map::new();
            ev.insert("ev".into(), json!("Tx"));
            let built: Option<Result<CTx, String>>;
            match rng.gen_range(0..100) {
                0..=44 if !roots.is_empty() => {
                    // an Upload transaction: usually the next subsection, else any subsection, possibly with rewritten claims
                    let r = roots.choose(&mut rng).unwrap();
                    let n = r.subs.len();
                    let next = match st.clone().state_transition_bytecodes_mut().get(&r.root) {
                        Some(UploadedBytecode::Uncompleted { uploaded_subsections_number, .. }) => *uploaded_subsections_number as usize,
                        Some(UploadedBytecode::Completed(_)) => n,
                        None => 0,
                    };
                    let k = match rng.gen_range(0..10) { 0..=5 => next.min(n - 1), 6 => next.saturating_sub(1).min(n - 1), 7 => (next + 1).min(n - 1), _ => rng.gen_range(0..n) };
                    let mut s = r.subs[k].clone();
                    if rng.gen_range(0..8) == 0 {
                        // hunt: any claim (part, index, total) other than the genuine one that the real checker still lets through
                        // (the checker is only used to pick interesting inputs; TLC judges what happens to them)
                        let mut cands: Vec<UploadSubsection> = vec![];
                        for p in 0..n { for idx in 0..=n { for tot in 1..=(n + 2) {
                            if idx == p && tot == n { continue; }
                            let mut c = r.subs[p].clone();
                            c.subsection_index = idx as u16;
                            c.subsections_number = tot as u16;
                            if w.upload(c.clone()).is_ok() { cands.push(c); }
                        } } }
                        let at_next: Vec<UploadSubsection> = cands.iter().filter(|c| c.subsection_index as usize == next).cloned().collect();
                        if !at_next.is_empty() && rng.gen_bool(0.7) { s = at_next.choose(&mut rng).unwrap().clone(); }
                        else if let Some(c) = cands.choose(&mut rng) { s = c.clone(); }
                    } else {
                    match rng.gen_range(0..20) {
                        0 | 1 => { s.subsections_number = (n as i64 + *[-1i64, 1, 1, 2].choose(&mut rng).unwrap()).max(0) as u16; }
                        2 | 3 => { s.subsection_index = (k as i64 + *[-1i64, 1].choose(&mut rng).unwrap()).max(0) as u16; }
                        4 | 5 => {
                            // a claim about (index, total) at another place of a tree of another size
                            s.subsection_index = rng.gen_range(0..=n as u16);
                            s.subsections_number = rng.gen_range(1..=(n as u16 + 2));
                        }
                        6 => { let j = rng.gen_range(0..n); s.proof_set = r.subs[j].proof_set.clone(); }
                        7 => { let j = rng.gen_range(0..n); s.subsection = r.subs[j].subsection.clone(); }
                        8 => { if let Some(o2) = roots.choose(&mut rng) { s.root = o2.root; } }
                        9 => { if !s.subsection.is_empty() { let i = rng.gen_range(0..s.subsection.len()); s.subsection[i] ^= 1 << rng.gen_range(0..8); } }
                        10 => { s.subsections_number = *[0u16, 255, 256, u16::MAX].choose(&mut rng).unwrap(); }
                        _ => {}
                    }
                    }
                    ev.insert("k".into(), json!("Upload"));
                    ev.insert("root".into(), json!(hx(s.root)));
                    ev.insert("idx".into(), json!(s.subsection_index));
                    ev.insert("total".into(), json!(s.subsections_number));
                    ev.insert("bytes".into(), json!(hx(&s.subsection)));
                    ev.insert("proof".into(), Value::Array(s.proof_set.iter().map(|p| json!(hx(p))).collect()));
                    built = Some(w.upload(s));
                }
                45..=56 => {
                    let c = contracts.choose(&mut rng).unwrap();
                    let (id, b) = w.create(&c.salt, &c.code, &c.slots);
                    ev.insert("k".into(), json!("Create"));
                    ev.insert("id".into(), json!(hx(id)));
                    ev.insert("code".into(), json!(hx(&c.code)));
                    let mut m = Map::new();
                    for (k, v) in &c.slots { m.insert(hx(k), json!(hx(v))); }
                    ev.insert("slots".into(), Value::Object(m));
                    built = Some(b);
                }
                57..=66 => {
                    let d = blobs.choose(&mut rng).unwrap();
                    let mut id = BlobId::from(*fuel_crypto::Hasher::hash(d));
                    if rng.gen_range(0..12) == 0 { let mut raw: [u8; 32] = id.into(); raw[5] ^= 4; id = BlobId::from(raw); }
                    ev.insert("k".into(), json!("Blob"));
                    ev.insert("id".into(), json!(hx(id)));
                    ev.insert("data".into(), json!(hx(d)));
                    built = Some(w.blob(id, d));
                }
                67..=78 => {
                    let (label, cp) = names.params.choose(&mut rng).unwrap().clone();
                    ev.insert("k".into(), json!("UpgradeConsensusParameters"));
                    ev.insert("value".into(), json!(label));
                    built = Some(w.upgrade_cp(&cp));
                }
                79..=88 => {
                    // usually a declared root (half of the time one that is completely uploaded, if any), sometimes an unknown one
                    let complete: Vec<Bytes32> = st.clone().state_transition_bytecodes_mut().iter()
                        .filter(|(_, e)| matches!(e, UploadedBytecode::Completed(_))).map(|(r, _)| *r).collect();
                    let root = if roots.is_empty() || rng.gen_range(0..8) == 0 { Bytes32::from(rng.gen::<[u8; 32]>()) }
                               else if !complete.is_empty() && rng.gen_bool(0.5) { *complete.choose(&mut rng).unwrap() }
                               else { roots.choose(&mut rng).unwrap().root };
                    ev.insert("k".into(), json!("UpgradeStateTransition"));
                    ev.insert("root".into(), json!(hx(root)));
                    built = Some(w.upgrade_st(root));
                }
                _ => {
                    // the environment moves a current version: usually forward by one, sometimes anywhere
                    let cp = rng.gen_bool(0.5);
                    let cur = if cp { st.consensus_parameters_version().unwrap() } else { st.state_transition_version().unwrap() };
                    let v = match rng.gen_range(0..10) { 0..=5 => cur.saturating_add(1).min(u32::MAX - 1), 6 => cur.saturating_sub(1), 7 => cur, _ => boundary_version(&mut rng) };
                    let kind = if cp { "SetCurCP" } else { "SetCurST" };
                    apply_env(&mut st, kind, v);
                    ev.insert("k".into(), json!(kind));
                    ev.insert("v".into(), json!(v.to_string()));
                    built = None;
                }
            }
            match built {
                None => { ev.insert("via".into(), json!("env")); ev.insert("checked".into(), json!(true)); ev.insert("ok".into(), json!(true)); ev.insert("err".into(), json!("")); }
                Some(Err(e)) => { ev.insert("via".into(), json!("check")); ev.insert("checked".into(), json!(false)); ev.insert("ok".into(), json!(false)); ev.insert("err".into(), json!(e)); }
                Some(Ok(tx)) => {
                    let o2 = ex.run(via, &st, &tx);
                    if o2.err.starts_with("HOSTPANIC") {
                        out.ev(json!({"ev": "HostPanic", "where": ev.get("k").cloned().unwrap_or(Value::Null), "msg": o2.err}));
                    }
                    st = o2.post;
                    ev.insert("via".into(), json!(via.name())); ev.insert("checked".into(), json!(true)); ev.insert("ok".into(), json!(o2.ok)); ev.insert("err".into(), json!(o2.err));
                }
            }
            ev.insert("changed".into(), json!(fingerprint(&st) != fp));
            ev.insert("tables".into(), project(&st, &names));
            out.ev(Value::Object(ev));
        }
    }
    let n = out.finish();
    eprintln!("lifecycle: {n} events");
    Ok(())
}
