//! 256-bit modular arithmetic used ONLY to construct inputs (witnesses of a signature class) and
//! certificates for them (a square root proving "r is an x-coordinate").  Nothing here is an
//! oracle: the TLA+ trace specifications re-derive every class label from the raw bytes and
//! re-check every construction equation (s*k = z + r*d mod n) with exact BigNat arithmetic.
#![allow(dead_code)]

use std::cmp::Ordering;

#[derive(Clone, Copy, PartialEq, Eq, Debug)]
pub struct U256(pub [u64; 4]); // little-endian limbs

impl U256 {
    pub const ZERO: U256 = U256([0, 0, 0, 0]);
    pub const ONE: U256 = U256([1, 0, 0, 0]);

    pub fn from_be(b: &[u8; 32]) -> U256 {
        let mut l = [0u64; 4];
        for i in 0..4 {
            let mut w = [0u8; 8];
            w.copy_from_slice(&b[i * 8..i * 8 + 8]);
            l[3 - i] = u64::from_be_bytes(w);
        }
        U256(l)
    }
    pub fn from_hex(h: &str) -> U256 {
        let v = hex::decode(h).expect("hex");
        let mut a = [0u8; 32];
        a[32 - v.len()..].copy_from_slice(&v);
        U256::from_be(&a)
    }
    pub fn from_u64(x: u64) -> U256 { U256([x, 0, 0, 0]) }
    pub fn to_be(&self) -> [u8; 32] {
        let mut b = [0u8; 32];
        for i in 0..4 {
            b[i * 8..i * 8 + 8].copy_from_slice(&self.0[3 - i].to_be_bytes());
        }
        b
    }
    pub fn from_le(b: &[u8; 32]) -> U256 {
        let mut r = *b;
        r.reverse();
        U256::from_be(&r)
    }
    pub fn to_le(&self) -> [u8; 32] {
        let mut b = self.to_be();
        b.reverse();
        b
    }
    pub fn is_zero(&self) -> bool { self.0 == [0, 0, 0, 0] }
    pub fn is_odd(&self) -> bool { self.0[0] & 1 == 1 }
    pub fn bit(&self, i: usize) -> bool { (self.0[i / 64] >> (i % 64)) & 1 == 1 }
    pub fn cmp(&self, o: &U256) -> Ordering {
        for i in (0..4).rev() {
            match self.0[i].cmp(&o.0[i]) {
                Ordering::Equal => continue,
                x => return x,
            }
        }
        Ordering::Equal
    }
    pub fn lt(&self, o: &U256) -> bool { self.cmp(o) == Ordering::Less }
    pub fn le(&self, o: &U256) -> bool { self.cmp(o) != Ordering::Greater }
    /// (self + o) mod 2^256, carry
    pub fn add(&self, o: &U256) -> (U256, bool) {
        let mut r = [0u64; 4];
        let mut c = false;
        for i in 0..4 {
            let (x, c1) = self.0[i].overflowing_add(o.0[i]);
            let (y, c2) = x.overflowing_add(c as u64);
            r[i] = y;
            c = c1 || c2;
        }
        (U256(r), c)
    }
    /// (self - o) mod 2^256, borrow
    pub fn sub(&self, o: &U256) -> (U256, bool) {
        let mut r = [0u64; 4];
        let mut b = false;
        for i in 0..4 {
            let (x, b1) = self.0[i].overflowing_sub(o.0[i]);
            let (y, b2) = x.overflowing_sub(b as u64);
            r[i] = y;
            b = b1 || b2;
        }
        (U256(r), b)
    }
    pub fn shr1(&self) -> U256 {
        let mut r = [0u64; 4];
        for i in 0..4 {
            r[i] = self.0[i] >> 1;
            if i < 3 { r[i] |= self.0[i + 1] << 63; }
        }
        U256(r)
    }
    /// self mod m for m > 2^255 (at most one subtraction)
    pub fn reduce_once(&self, m: &U256) -> U256 {
        if self.lt(m) { *self } else { self.sub(m).0 }
    }
    pub fn addmod(&self, o: &U256, m: &U256) -> U256 {
        let (s, c) = self.add(o);
        if c || !s.lt(m) { s.sub(m).0 } else { s }
    }
    pub fn submod(&self, o: &U256, m: &U256) -> U256 {
        let (d, b) = self.sub(o);
        if b { d.add(m).0 } else { d }
    }
    pub fn negmod(&self, m: &U256) -> U256 { if self.is_zero() { *self } else { m.sub(self).0 } }
    /// double-and-add; operands must be < m
    pub fn mulmod(&self, o: &U256, m: &U256) -> U256 {
        let mut acc = U256::ZERO;
        for i in (0..256).rev() {
            acc = acc.addmod(&acc, m);
            if o.bit(i) { acc = acc.addmod(self, m); }
        }
        acc
    }
    pub fn powmod(&self, e: &U256, m: &U256) -> U256 {
        let mut acc = U256::ONE;
        for i in (0..256).rev() {
            acc = acc.mulmod(&acc, m);
            if e.bit(i) { acc = acc.mulmod(self, m); }
        }
        acc
    }
    pub fn hex(&self) -> String { hex::encode(self.to_be()) }
}

pub const K1_N: &str = "fffffffffffffffffffffffffffffffebaaedce6af48a03bbfd25e8cd0364141";
pub const K1_P: &str = "fffffffffffffffffffffffffffffffffffffffffffffffffffffffefffffc2f";
pub const R1_N: &str = "ffffffff00000000ffffffffffffffffbce6faada7179e84f3b9cac2fc632551";
pub const ED_L: &str = "1000000000000000000000000000000014def9dea2f79cd65812631a5cf5d3ed";

/// Certificate for "x is / is not the x-coordinate of a secp256k1 point" (x < p): with c = x^3 + 7 and
/// y = c^((p+1)/4) (p = 3 mod 4) either y^2 = c (x is an x-coordinate) or y^2 = -c (then c is a
/// non-residue because -1 is one).  Returns (is_x, y); the trace specification checks the square.
pub fn k1_cert(x: &U256) -> Option<(bool, U256)> {
    let p = U256::from_hex(K1_P);
    if !x.lt(&p) { return None; }
    let c = x.mulmod(x, &p).mulmod(x, &p).addmod(&U256::from_u64(7), &p);
    let e = p.add(&U256::ONE).0.shr1().shr1(); // (p+1)/4 ; p+1 does not overflow
    let y = c.powmod(&e, &p);
    let y2 = y.mulmod(&y, &p);
    if y2 == c { Some((true, y)) } else if y2 == c.negmod(&p) { Some((false, y)) } else { None }
}
