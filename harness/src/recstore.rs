//! A *recording* storage backend for the FuelVM interpreter.
//!
//! `RecStorage` wraps `fuel_vm::storage::MemoryStorage`, delegates every storage-trait
//! operation to it unchanged, and appends one `Access` record per operation to a shared log.
//! It implements `InterpreterStorage` (and every trait that requires), so it can be plugged
//! into `Interpreter::with_storage(..)` / `Transactor::new(..)`.
//!
//! `RecPredicateStorage` is the counterpart for predicate execution: predicates are run by
//! fuel-vm over `PredicateStorage<&D>` where `D: PredicateStorageRequirements`
//! (= `StorageRead<BlobData>` only).  Every non-blob operation is refused by the
//! `PredicateStorage` wrapper itself *before* it could reach `D`, so the only thing that can be
//! observed (and the only thing that can possibly happen) is blob reads; those are logged.
//!
//! Include with `#[path = "../recstore.rs"] mod recstore;`.
#![allow(dead_code)]

use std::borrow::Cow;
use std::cell::RefCell;
use std::convert::Infallible;
use std::rc::Rc;
use std::sync::{Arc, Mutex};

use fuel_storage::{
    Mappable, StorageInspect, StorageMutate, StorageRead, StorageReadError, StorageSize,
    StorageWrite,
};
use fuel_tx::ConsensusParameters;
use fuel_types::{BlockHeight, Bytes32, ContractId, Word};
use fuel_vm::storage::predicate::{PredicateStorageProvider, PredicateStorageRequirements};
use fuel_vm::storage::{
    BlobData, ContractsAssets, ContractsAssetsStorage, ContractsRawCode, ContractsState,
    InterpreterStorage, MemoryStorage, UploadedBytecode, UploadedBytecodes,
};

// ------------------------------------------------------------------------------------------
// the record
// ------------------------------------------------------------------------------------------

/// One storage operation.
///
/// `table`: "code" | "state" | "assets" | "blob" | "uploaded" | "cpv" | "stv" | "meta"
///
/// `op` (by trait method):
///   StorageInspect : "get", "contains"
///   StorageSize    : "size"
///   StorageRead    : "read" (= read_exact), "read_zerofill", "read_alloc"
///   StorageMutate  : "insert", "replace", "remove", "take"
///   StorageWrite   : "write" (= write_bytes), "replace_bytes", "take_bytes"
///   InterpreterStorage::contract_state_remove_range : "range_remove" (table "state")
///   InterpreterStorage::set_consensus_parameters    : "replace" (table "cpv")
///   InterpreterStorage::set_state_transition_bytecode : "replace" (table "stv")
///   table "meta": "block_height", "timestamp", "block_hash", "coinbase",
///                 "consensus_parameters_version", "state_transition_version"
#[derive(Clone, Debug, PartialEq, Eq)]
pub struct Access {
    pub table: &'static str,
    pub op: &'static str,
    /// the contract the access concerns, when the table is keyed by contract
    /// (code: the key itself; state/assets: key.contract_id())
    pub contract: Option<[u8; 32]>,
    /// full storage key bytes.  code: contract id (32); state: contract id ++ slot key (64);
    /// assets: contract id ++ asset id (64); blob: blob id (32); uploaded: root (32);
    /// cpv/stv: version as 4 BE bytes; meta timestamp/block_hash: height as 4 BE bytes;
    /// other meta: empty.
    pub key: Vec<u8>,
    /// write ops: length of the value written.  read/read_zerofill: length of the caller's
    /// buffer.  get/read_alloc/size/take/take_bytes (and the previous value of
    /// replace/replace_bytes is NOT reported here): length of the stored value, if found.
    /// range_remove: the number of slots in the range.
    pub len: Option<usize>,
    /// read/read_zerofill only: the offset into the stored value
    pub offset: Option<usize>,
    /// whether a value was present under the key at the time of the operation, when the
    /// operation reveals it (get, contains, size, read*, replace*, take*; for cpv/stv: whether
    /// a previous entry was replaced).  For read/read_zerofill `Some(false)` also covers the
    /// OutOfBounds outcome (the inner `Err`), see `Access::oob`.
    pub hit: Option<bool>,
    /// read/read_zerofill only: the operation answered `Err(StorageReadError::OutOfBounds)`
    pub oob: bool,
}

impl Access {
    /// `true` for operations that (may) change the stored data.
    pub fn is_write(&self) -> bool {
        matches!(
            self.op,
            "insert" | "replace" | "remove" | "take" | "write" | "replace_bytes" | "take_bytes"
                | "range_remove"
        )
    }

    /// `true` for operations that only observe stored data (meta getters included).
    pub fn is_read(&self) -> bool {
        !self.is_write()
    }

    /// One JSON object: byte strings as lower-case hex, absent values as null.
    pub fn to_json(&self) -> serde_json::Value {
        serde_json::json!({
            "table": self.table,
            "op": self.op,
            "contract": self.contract.map(hex::encode),
            "key": hex::encode(&self.key),
            "len": self.len,
            "offset": self.offset,
            "hit": self.hit,
            "oob": self.oob,
        })
    }
}

// ------------------------------------------------------------------------------------------
// per-table description
// ------------------------------------------------------------------------------------------

/// Describes how to label accesses to a storage table.
pub trait Table: Mappable {
    const NAME: &'static str;
    fn contract(key: &Self::Key) -> Option<[u8; 32]>;
    fn key_bytes(key: &Self::Key) -> Vec<u8>;
    fn value_len(value: &Self::Value) -> usize;
    fn owned_len(value: &Self::OwnedValue) -> usize;
}

impl Table for ContractsRawCode {
    const NAME: &'static str = "code";
    fn contract(key: &ContractId) -> Option<[u8; 32]> { Some(**key) }
    fn key_bytes(key: &ContractId) -> Vec<u8> { key.as_ref().to_vec() }
    fn value_len(value: &[u8]) -> usize { value.len() }
    fn owned_len(value: &fuel_tx::Contract) -> usize { AsRef::<[u8]>::as_ref(value).len() }
}

impl Table for ContractsState {
    const NAME: &'static str = "state";
    fn contract(key: &Self::Key) -> Option<[u8; 32]> { Some(**key.contract_id()) }
    fn key_bytes(key: &Self::Key) -> Vec<u8> { AsRef::<[u8]>::as_ref(key).to_vec() }
    fn value_len(value: &[u8]) -> usize { value.len() }
    fn owned_len(value: &Self::OwnedValue) -> usize { AsRef::<[u8]>::as_ref(value).len() }
}

impl Table for ContractsAssets {
    const NAME: &'static str = "assets";
    fn contract(key: &Self::Key) -> Option<[u8; 32]> { Some(**key.contract_id()) }
    fn key_bytes(key: &Self::Key) -> Vec<u8> { AsRef::<[u8]>::as_ref(key).to_vec() }
    fn value_len(_: &Word) -> usize { core::mem::size_of::<Word>() }
    fn owned_len(_: &Word) -> usize { core::mem::size_of::<Word>() }
}

impl Table for BlobData {
    const NAME: &'static str = "blob";
    fn contract(_: &Self::Key) -> Option<[u8; 32]> { None }
    fn key_bytes(key: &Self::Key) -> Vec<u8> { key.as_ref().to_vec() }
    fn value_len(value: &[u8]) -> usize { value.len() }
    fn owned_len(value: &Self::OwnedValue) -> usize { AsRef::<[u8]>::as_ref(value).len() }
}

fn uploaded_len(value: &UploadedBytecode) -> usize {
    match value {
        UploadedBytecode::Uncompleted { bytecode, .. } => bytecode.len(),
        UploadedBytecode::Completed(bytecode) => bytecode.len(),
    }
}

impl Table for UploadedBytecodes {
    const NAME: &'static str = "uploaded";
    fn contract(_: &Bytes32) -> Option<[u8; 32]> { None }
    fn key_bytes(key: &Bytes32) -> Vec<u8> { key.as_ref().to_vec() }
    fn value_len(value: &UploadedBytecode) -> usize { uploaded_len(value) }
    fn owned_len(value: &UploadedBytecode) -> usize { uploaded_len(value) }
}

fn access<T: Table>(
    op: &'static str,
    key: &T::Key,
    len: Option<usize>,
    offset: Option<usize>,
    hit: Option<bool>,
) -> Access {
    Access {
        table: T::NAME,
        op,
        contract: T::contract(key),
        key: T::key_bytes(key),
        len,
        offset,
        hit,
        oob: false,
    }
}

fn meta(table: &'static str, op: &'static str, key: Vec<u8>, len: Option<usize>, hit: Option<bool>) -> Access {
    Access { table, op, contract: None, key, len, offset: None, hit, oob: false }
}

/// Somewhere `Access` records can be appended through a shared reference.
pub trait Sink {
    fn rec(&self, a: Access);
}

// ------------------------------------------------------------------------------------------
// RecStorage
// ------------------------------------------------------------------------------------------

/// Recording wrapper around `MemoryStorage`.  `Clone` yields an independent copy of the data
/// that keeps appending to the *same* log.
#[derive(Clone, Debug)]
pub struct RecStorage {
    pub inner: MemoryStorage,
    pub log: Rc<RefCell<Vec<Access>>>,
}

impl RecStorage {
    pub fn new(inner: MemoryStorage) -> Self {
        RecStorage { inner, log: Rc::new(RefCell::new(Vec::new())) }
    }

    /// Wrap `inner`, appending to an existing log.
    pub fn with_log(inner: MemoryStorage, log: Rc<RefCell<Vec<Access>>>) -> Self {
        RecStorage { inner, log }
    }

    /// Drain the log.
    pub fn take_log(&self) -> Vec<Access> {
        std::mem::take(&mut *self.log.borrow_mut())
    }

    /// Copy of the log, which keeps its contents.
    pub fn peek_log(&self) -> Vec<Access> {
        self.log.borrow().clone()
    }

    pub fn inner(&self) -> &MemoryStorage {
        &self.inner
    }

    /// Unrecorded mutable access to the wrapped storage (for test setup).
    pub fn inner_mut(&mut self) -> &mut MemoryStorage {
        &mut self.inner
    }

    pub fn into_inner(self) -> MemoryStorage {
        self.inner
    }
}

impl Sink for RecStorage {
    fn rec(&self, a: Access) {
        self.log.borrow_mut().push(a);
    }
}

impl AsRef<MemoryStorage> for RecStorage {
    fn as_ref(&self) -> &MemoryStorage {
        &self.inner
    }
}

impl AsMut<MemoryStorage> for RecStorage {
    fn as_mut(&mut self) -> &mut MemoryStorage {
        &mut self.inner
    }
}

// ---- the five storage traits, generically over every table MemoryStorage supports ----------

macro_rules! impl_read_side {
    ($ty:ty) => {
        impl<T> StorageInspect<T> for $ty
        where
            T: Table,
            MemoryStorage: StorageInspect<T, Error = Infallible>,
        {
            type Error = Infallible;

            fn get(&self, key: &T::Key) -> Result<Option<Cow<'_, T::OwnedValue>>, Infallible> {
                let r = <MemoryStorage as StorageInspect<T>>::get(&self.inner, key);
                let len = match &r {
                    Ok(Some(v)) => Some(T::owned_len(&**v)),
                    _ => None,
                };
                self.rec(access::<T>("get", key, len, None, Some(len.is_some())));
                r
            }

            fn contains_key(&self, key: &T::Key) -> Result<bool, Infallible> {
                let r = <MemoryStorage as StorageInspect<T>>::contains_key(&self.inner, key);
                self.rec(access::<T>("contains", key, None, None, r.as_ref().ok().copied()));
                r
            }
        }

        impl<T> StorageSize<T> for $ty
        where
            T: Table,
            MemoryStorage: StorageSize<T, Error = Infallible>,
        {
            fn size_of_value(&self, key: &T::Key) -> Result<Option<usize>, Infallible> {
                let r = <MemoryStorage as StorageSize<T>>::size_of_value(&self.inner, key);
                let len = r.as_ref().ok().copied().flatten();
                self.rec(access::<T>("size", key, len, None, Some(len.is_some())));
                r
            }
        }

        impl<T> StorageRead<T> for $ty
        where
            T: Table,
            MemoryStorage: StorageRead<T, Error = Infallible>,
        {
            fn read_exact(
                &self,
                key: &T::Key,
                offset: usize,
                buf: &mut [u8],
            ) -> Result<Result<usize, StorageReadError>, Infallible> {
                let blen = buf.len();
                let r = <MemoryStorage as StorageRead<T>>::read_exact(&self.inner, key, offset, buf);
                let mut a = access::<T>("read", key, Some(blen), Some(offset), Some(matches!(r, Ok(Ok(_)))));
                a.oob = matches!(r, Ok(Err(StorageReadError::OutOfBounds)));
                self.rec(a);
                r
            }

            fn read_zerofill(
                &self,
                key: &T::Key,
                offset: usize,
                buf: &mut [u8],
            ) -> Result<Result<usize, StorageReadError>, Infallible> {
                let blen = buf.len();
                let r = <MemoryStorage as StorageRead<T>>::read_zerofill(&self.inner, key, offset, buf);
                let mut a =
                    access::<T>("read_zerofill", key, Some(blen), Some(offset), Some(matches!(r, Ok(Ok(_)))));
                a.oob = matches!(r, Ok(Err(StorageReadError::OutOfBounds)));
                self.rec(a);
                r
            }

            fn read_alloc(&self, key: &T::Key) -> Result<Option<Vec<u8>>, Infallible> {
                let r = <MemoryStorage as StorageRead<T>>::read_alloc(&self.inner, key);
                let len = match &r {
                    Ok(Some(v)) => Some(v.len()),
                    _ => None,
                };
                self.rec(access::<T>("read_alloc", key, len, None, Some(len.is_some())));
                r
            }
        }
    };
}

impl_read_side!(RecStorage);

impl<T> StorageMutate<T> for RecStorage
where
    T: Table,
    MemoryStorage: StorageMutate<T, Error = Infallible>,
{
    fn insert(&mut self, key: &T::Key, value: &T::Value) -> Result<(), Infallible> {
        self.rec(access::<T>("insert", key, Some(T::value_len(value)), None, None));
        <MemoryStorage as StorageMutate<T>>::insert(&mut self.inner, key, value)
    }

    fn replace(&mut self, key: &T::Key, value: &T::Value) -> Result<Option<T::OwnedValue>, Infallible> {
        let r = <MemoryStorage as StorageMutate<T>>::replace(&mut self.inner, key, value);
        let hit = matches!(r, Ok(Some(_)));
        self.rec(access::<T>("replace", key, Some(T::value_len(value)), None, Some(hit)));
        r
    }

    fn remove(&mut self, key: &T::Key) -> Result<(), Infallible> {
        self.rec(access::<T>("remove", key, None, None, None));
        <MemoryStorage as StorageMutate<T>>::remove(&mut self.inner, key)
    }

    fn take(&mut self, key: &T::Key) -> Result<Option<T::OwnedValue>, Infallible> {
        let r = <MemoryStorage as StorageMutate<T>>::take(&mut self.inner, key);
        let len = match &r {
            Ok(Some(v)) => Some(T::owned_len(v)),
            _ => None,
        };
        self.rec(access::<T>("take", key, len, None, Some(len.is_some())));
        r
    }
}

impl<T> StorageWrite<T> for RecStorage
where
    T: Table,
    MemoryStorage: StorageWrite<T, Error = Infallible>,
{
    fn write_bytes(&mut self, key: &T::Key, buf: &[u8]) -> Result<(), Infallible> {
        self.rec(access::<T>("write", key, Some(buf.len()), None, None));
        <MemoryStorage as StorageWrite<T>>::write_bytes(&mut self.inner, key, buf)
    }

    fn replace_bytes(&mut self, key: &T::Key, buf: &[u8]) -> Result<Option<Vec<u8>>, Infallible> {
        let r = <MemoryStorage as StorageWrite<T>>::replace_bytes(&mut self.inner, key, buf);
        let hit = matches!(r, Ok(Some(_)));
        self.rec(access::<T>("replace_bytes", key, Some(buf.len()), None, Some(hit)));
        r
    }

    fn take_bytes(&mut self, key: &T::Key) -> Result<Option<Vec<u8>>, Infallible> {
        let r = <MemoryStorage as StorageWrite<T>>::take_bytes(&mut self.inner, key);
        let len = match &r {
            Ok(Some(v)) => Some(v.len()),
            _ => None,
        };
        self.rec(access::<T>("take_bytes", key, len, None, Some(len.is_some())));
        r
    }
}

// ---- ContractsAssetsStorage / InterpreterStorage -------------------------------------------

// The provided methods (contract_asset_id_balance, .._insert, .._replace) go through
// StorageInspect/StorageMutate<ContractsAssets> on `self`, hence are recorded as
// assets/get, assets/insert, assets/replace.
impl ContractsAssetsStorage for RecStorage {}

impl InterpreterStorage for RecStorage {
    type DataError = Infallible;

    fn block_height(&self) -> Result<BlockHeight, Infallible> {
        self.rec(meta("meta", "block_height", vec![], None, None));
        self.inner.block_height()
    }

    fn consensus_parameters_version(&self) -> Result<u32, Infallible> {
        self.rec(meta("meta", "consensus_parameters_version", vec![], None, None));
        self.inner.consensus_parameters_version()
    }

    fn state_transition_version(&self) -> Result<u32, Infallible> {
        self.rec(meta("meta", "state_transition_version", vec![], None, None));
        self.inner.state_transition_version()
    }

    fn timestamp(&self, height: BlockHeight) -> Result<Word, Infallible> {
        self.rec(meta("meta", "timestamp", height.to_be_bytes().to_vec(), None, None));
        self.inner.timestamp(height)
    }

    fn block_hash(&self, block_height: BlockHeight) -> Result<Bytes32, Infallible> {
        self.rec(meta("meta", "block_hash", block_height.to_be_bytes().to_vec(), None, None));
        self.inner.block_hash(block_height)
    }

    fn coinbase(&self) -> Result<ContractId, Infallible> {
        self.rec(meta("meta", "coinbase", vec![], None, None));
        self.inner.coinbase()
    }

    fn set_consensus_parameters(
        &mut self,
        version: u32,
        consensus_parameters: &ConsensusParameters,
    ) -> Result<Option<ConsensusParameters>, Infallible> {
        let r = self.inner.set_consensus_parameters(version, consensus_parameters);
        let hit = matches!(r, Ok(Some(_)));
        self.rec(meta("cpv", "replace", version.to_be_bytes().to_vec(), None, Some(hit)));
        r
    }

    fn set_state_transition_bytecode(
        &mut self,
        version: u32,
        hash: &Bytes32,
    ) -> Result<Option<Bytes32>, Infallible> {
        let r = self.inner.set_state_transition_bytecode(version, hash);
        let hit = matches!(r, Ok(Some(_)));
        self.rec(meta("stv", "replace", version.to_be_bytes().to_vec(), Some(Bytes32::LEN), Some(hit)));
        r
    }

    // All other provided methods (contains_state_transition_bytecode_root,
    // deploy_contract_with_id, storage_contract*, contract_state, contract_state_insert) are
    // left at their defaults: they call the storage traits on `self` and so are recorded.

    fn contract_state_remove_range(
        &mut self,
        contract: &ContractId,
        start_key: &Bytes32,
        range: usize,
    ) -> Result<(), Infallible> {
        let mut key = contract.as_ref().to_vec();
        key.extend_from_slice(start_key.as_ref());
        self.rec(Access {
            table: "state",
            op: "range_remove",
            contract: Some(**contract),
            key,
            len: Some(range),
            offset: None,
            hit: None,
            oob: false,
        });
        // one record for the whole range: the per-slot removes happen inside MemoryStorage
        self.inner.contract_state_remove_range(contract, start_key, range)
    }
}

/// Lets a `RecStorage` be handed to `check_predicates(.., &storage, ..)`,
/// `into_checked`-with-storage builders etc.; blob reads land in the same log.
impl PredicateStorageRequirements for RecStorage {
    fn storage_error_to_string(error: Infallible) -> String {
        match error {}
    }
}

// ------------------------------------------------------------------------------------------
// RecPredicateStorage
// ------------------------------------------------------------------------------------------

/// Storage handed to predicate verification/estimation.  Only implements what predicates may
/// use (`StorageRead<BlobData>` and its supertraits), is `Send + Sync + Clone` so that it also
/// serves as a `PredicateStorageProvider` for the `*_async` entry points.  Clones share the
/// data and the log.
#[derive(Clone, Debug)]
pub struct RecPredicateStorage {
    pub inner: Arc<MemoryStorage>,
    pub log: Arc<Mutex<Vec<Access>>>,
}

impl RecPredicateStorage {
    pub fn new(inner: MemoryStorage) -> Self {
        RecPredicateStorage { inner: Arc::new(inner), log: Arc::new(Mutex::new(Vec::new())) }
    }

    pub fn take_log(&self) -> Vec<Access> {
        std::mem::take(&mut *self.log.lock().unwrap_or_else(|e| e.into_inner()))
    }

    pub fn peek_log(&self) -> Vec<Access> {
        self.log.lock().unwrap_or_else(|e| e.into_inner()).clone()
    }

    pub fn inner(&self) -> &MemoryStorage {
        &self.inner
    }
}

impl Sink for RecPredicateStorage {
    fn rec(&self, a: Access) {
        self.log.lock().unwrap_or_else(|e| e.into_inner()).push(a);
    }
}

impl AsRef<MemoryStorage> for RecPredicateStorage {
    fn as_ref(&self) -> &MemoryStorage {
        &self.inner
    }
}

// StorageInspect / StorageSize / StorageRead for every table MemoryStorage can read; only the
// BlobData instances are reachable from predicate execution.
impl_read_side!(RecPredicateStorage);

impl PredicateStorageRequirements for RecPredicateStorage {
    fn storage_error_to_string(error: Infallible) -> String {
        match error {}
    }
}

impl PredicateStorageProvider for RecPredicateStorage {
    type Storage = Self;

    fn storage(&self) -> Self {
        self.clone()
    }
}
