//! C07 — DA compression round trip (fuel-compression, derive(Compress/Decompress), compress(skip)).
//!
//! The registry context is the harness's (the repo ships only the traits, the derive macros and
//! `RegistryKey`); it follows /repo/fuel-tx/src/tests/da_compression.rs with a per-keyspace temporal registry
//! whose key arithmetic is entirely the repo's (`RegistryKey::next / as_u32 / try_from / DEFAULT_VALUE`).
//!
//!   replay compress <histories.ndjson> -o out [--trace t.ndjson]   TLC histories -> real compress/decompress (Leg R)
//!   record compress [--tier T] -o trace                            seeded sequences for Compression_Trace.tla (Leg T)
use crate::util::*;
use fuel_compression::{Compressible, CompressibleBy, ContextError, DecompressibleBy, RegistryKey};
use fuel_tx::input::coin::{Coin, CoinSpecification};
use fuel_tx::input::message::{Message, MessageSpecification};
use fuel_tx::input::{AsField, PredicateCode};
use fuel_tx::test_helper::TransactionFactory;
use fuel_tx::{
    field, Blob, BlobBody, CompressedUtxoId, Create, Input, Mint, Output, Script, ScriptCode, StorageSlot, Transaction, TxPointer,
    UniqueIdentifier, Upgrade, UpgradePurpose, Upload, UploadBody, UtxoId, Witness,
};
use fuel_types::bytes::Bytes;
use fuel_types::canonical::Serialize as _;
use fuel_types::{Address, AssetId, BlobId, Bytes32, ChainId, ContractId, Nonce, Salt, Word};
use futures::executor::block_on;
use rand::rngs::StdRng;
use rand::Rng;
use serde_json::{json, Map, Value};
use sha2::{Digest, Sha256};
use std::cell::RefCell;
use std::collections::{BTreeMap, HashMap, HashSet};

const KEYSPACES: [&str; 5] = ["Address", "AssetId", "ContractId", "ScriptCode", "PredicateCode"];

/// bytes as a string: hex when short, "#len:digest" when long (plumbing; compared for equality only)
fn hv(b: &[u8]) -> String {
    if b.len() <= 40 { hx(b) } else { format!("#{}:{}", b.len(), hx(Sha256::digest(b))) }
}

// ------------------------------------------------------------------------------------------
// the context
// ------------------------------------------------------------------------------------------
struct Table {
    map: BTreeMap<u32, Vec<u8>>,
    rev: HashMap<Vec<u8>, u32>,
    next: RegistryKey,
    touched: HashSet<u32>,
}

pub struct Ctx {
    tables: BTreeMap<&'static str, Table>,
    utxo_fwd: HashMap<UtxoId, CompressedUtxoId>,
    utxo_back: HashMap<CompressedUtxoId, UtxoId>,
    coins: HashMap<UtxoId, (Address, Word, AssetId)>,
    msgs: HashMap<Nonce, (Address, Address, Word, Vec<u8>)>,
    tx_pointer: Option<TxPointer>,
    calls: Vec<Value>,
    lookups: RefCell<u64>,
}

impl ContextError for Ctx {
    type Error = String;
}

fn ks_static(ks: &str) -> &'static str { KEYSPACES.iter().find(|k| **k == ks).copied().expect("keyspace") }
fn default_raw(ks: &str) -> Vec<u8> { if matches!(ks, "ScriptCode" | "PredicateCode") { vec![] } else { vec![0u8; 32] } }

impl Ctx {
    fn new(next: &BTreeMap<String, u32>, seed: &BTreeMap<String, Vec<(u32, Vec<u8>)>>) -> Result<Ctx, String> {
        let mut tables = BTreeMap::new();
        for ks in KEYSPACES {
            let n = *next.get(ks).unwrap_or(&0);
            let mut t = Table { map: BTreeMap::new(), rev: HashMap::new(), next: RegistryKey::try_from(n)?, touched: HashSet::new() };
            for (k, v) in seed.get(ks).cloned().unwrap_or_default() {
                t.map.insert(k, v.clone());
                t.rev.insert(v, k);
            }
            tables.insert(ks, t);
        }
        Ok(Ctx { tables, utxo_fwd: HashMap::new(), utxo_back: HashMap::new(), coins: HashMap::new(), msgs: HashMap::new(),
                 tx_pointer: None, calls: vec![], lookups: RefCell::new(0) })
    }

    fn begin_tx(&mut self) {
        for t in self.tables.values_mut() { t.touched.clear(); }
        self.calls.clear();
    }

    /// what the chain knows about the coins / messages a transaction spends (as the repo's test context does)
    fn store_tx_info(&mut self, tx: &Transaction) {
        let inputs: &[Input] = match tx {
            Transaction::Script(t) => field::Inputs::inputs(t),
            Transaction::Create(t) => field::Inputs::inputs(t),
            Transaction::Upgrade(t) => field::Inputs::inputs(t),
            Transaction::Upload(t) => field::Inputs::inputs(t),
            Transaction::Blob(t) => field::Inputs::inputs(t),
            Transaction::Mint(m) => { self.tx_pointer = Some(*field::TxPointer::tx_pointer(m)); &[] }
        };
        for i in inputs {
            if i.is_coin() {
                self.coins.insert(*i.utxo_id().unwrap(), (*i.input_owner().unwrap(), i.amount().unwrap(), *i.asset_id(&AssetId::default()).unwrap()));
            } else if i.is_message() {
                self.msgs.insert(*i.nonce().unwrap(), (*i.sender().unwrap(), *i.recipient().unwrap(), i.amount().unwrap(),
                                                      i.input_data().unwrap_or_default().to_vec()));
            }
        }
    }

    fn reg_compress(&mut self, ks: &'static str, raw: Vec<u8>) -> Result<RegistryKey, String> {
        let key = if raw == default_raw(ks) {
            RegistryKey::DEFAULT_VALUE
        } else {
            let t = self.tables.get_mut(ks).unwrap();
            if let Some(k) = t.rev.get(&raw).copied() {
                t.touched.insert(k);
                RegistryKey::try_from(k)?
            } else {
                let mut k = t.next;
                let mut guard = 0;
                while t.touched.contains(&k.as_u32()) {
                    k = k.next();
                    guard += 1;
                    if guard > 1000 { return Err("registry full".into()); }
                }
                if let Some(old) = t.map.insert(k.as_u32(), raw.clone()) { t.rev.remove(&old); }
                t.rev.insert(raw.clone(), k.as_u32());
                t.touched.insert(k.as_u32());
                t.next = k.next();
                k
            }
        };
        self.calls.push(json!({"ks": ks, "v": hv(&raw), "k": key.as_u32()}));
        Ok(key)
    }

    fn reg_resolve(&self, ks: &'static str, key: RegistryKey) -> Result<Vec<u8>, String> {
        *self.lookups.borrow_mut() += 1;
        if key == RegistryKey::DEFAULT_VALUE { return Ok(default_raw(ks)); }
        self.tables[ks].map.get(&key.as_u32()).cloned().ok_or_else(|| format!("{ks}: key {} not in registry", key.as_u32()))
    }

    fn proj_small(&self) -> Value {
        let mut m = Map::new();
        for ks in KEYSPACES { m.insert(ks.into(), json!({"next": self.tables[ks].next.as_u32(), "size": self.tables[ks].map.len()})); }
        Value::Object(m)
    }
    fn proj_full(&self) -> Value {
        let mut m = Map::new();
        for ks in KEYSPACES {
            let e: Vec<Value> = self.tables[ks].map.iter().map(|(k, v)| json!([k, hv(v)])).collect();
            m.insert(ks.into(), json!({"next": self.tables[ks].next.as_u32(), "entries": e}));
        }
        Value::Object(m)
    }
    fn ctx_event(&self) -> Value {
        let (mut next, mut seed) = (Map::new(), Map::new());
        for ks in KEYSPACES {
            next.insert(ks.into(), json!(self.tables[ks].next.as_u32()));
            seed.insert(ks.into(), Value::Array(self.tables[ks].map.iter().map(|(k, v)| json!([k, hv(v)])).collect()));
        }
        json!({"ev": "Ctx", "next": next, "seed": seed})
    }
}

macro_rules! registry_type {
    ($t:ty, $ks:expr, $raw:expr, $back:expr) => {
        impl CompressibleBy<Ctx> for $t {
            async fn compress_with(&self, ctx: &mut Ctx) -> Result<RegistryKey, String> {
                let f: fn(&$t) -> Vec<u8> = $raw;
                ctx.reg_compress($ks, f(self))
            }
        }
        impl DecompressibleBy<Ctx> for $t {
            async fn decompress_with(key: RegistryKey, ctx: &Ctx) -> Result<$t, String> {
                let raw = ctx.reg_resolve($ks, key)?;
                let f: fn(Vec<u8>) -> Result<$t, String> = $back;
                f(raw)
            }
        }
    };
}
fn arr32(v: Vec<u8>) -> Result<[u8; 32], String> { <[u8; 32]>::try_from(v.as_slice()).map_err(|_| "registry value is not 32 bytes".to_string()) }
registry_type!(Address, "Address", |a| a.to_vec(), |v| arr32(v).map(Address::new));
registry_type!(AssetId, "AssetId", |a| a.to_vec(), |v| arr32(v).map(AssetId::new));
registry_type!(ContractId, "ContractId", |a| a.to_vec(), |v| arr32(v).map(ContractId::new));
registry_type!(ScriptCode, "ScriptCode", |c| c.bytes.to_vec(), |v| Ok(ScriptCode::from(v)));
registry_type!(PredicateCode, "PredicateCode", |c| c.bytes.to_vec(), |v| Ok(PredicateCode::from(v)));

impl CompressibleBy<Ctx> for UtxoId {
    async fn compress_with(&self, ctx: &mut Ctx) -> Result<CompressedUtxoId, String> {
        if let Some(k) = ctx.utxo_fwd.get(self) { return Ok(*k); }
        let n = ctx.utxo_fwd.len() as u32;
        let key = CompressedUtxoId { tx_pointer: TxPointer::new((n / 7).into(), (n % 7) as u16), output_index: (n % 5) as u16 };
        let key = if ctx.utxo_back.contains_key(&key) { CompressedUtxoId { tx_pointer: TxPointer::new(n.into(), 9), output_index: 0 } } else { key };
        ctx.utxo_fwd.insert(*self, key);
        ctx.utxo_back.insert(key, *self);
        Ok(key)
    }
}
impl DecompressibleBy<Ctx> for UtxoId {
    async fn decompress_with(key: CompressedUtxoId, ctx: &Ctx) -> Result<UtxoId, String> {
        ctx.utxo_back.get(&key).copied().ok_or_else(|| "utxo key not found".to_string())
    }
}

impl<S> DecompressibleBy<Ctx> for Coin<S>
where
    S: CoinSpecification,
    S::Predicate: DecompressibleBy<Ctx>,
    S::PredicateData: DecompressibleBy<Ctx>,
    S::PredicateGasUsed: DecompressibleBy<Ctx>,
    S::Witness: DecompressibleBy<Ctx>,
{
    async fn decompress_with(c: <Coin<S> as Compressible>::Compressed, ctx: &Ctx) -> Result<Coin<S>, String> {
        let utxo_id = UtxoId::decompress_with(c.utxo_id, ctx).await?;
        let info = ctx.coins.get(&utxo_id).ok_or("coin not found")?;
        Ok(Coin {
            utxo_id,
            owner: info.0,
            amount: info.1,
            asset_id: info.2,
            tx_pointer: Default::default(),
            witness_index: <S::Witness as DecompressibleBy<Ctx>>::decompress_with(c.witness_index, ctx).await?,
            predicate_gas_used: <S::PredicateGasUsed as DecompressibleBy<Ctx>>::decompress_with(c.predicate_gas_used, ctx).await?,
            predicate: <S::Predicate as DecompressibleBy<Ctx>>::decompress_with(c.predicate, ctx).await?,
            predicate_data: <S::PredicateData as DecompressibleBy<Ctx>>::decompress_with(c.predicate_data, ctx).await?,
        })
    }
}

impl<S> DecompressibleBy<Ctx> for Message<S>
where
    S: MessageSpecification,
    S::Data: DecompressibleBy<Ctx> + Default,
    S::Predicate: DecompressibleBy<Ctx>,
    S::PredicateData: DecompressibleBy<Ctx>,
    S::PredicateGasUsed: DecompressibleBy<Ctx>,
    S::Witness: DecompressibleBy<Ctx>,
{
    async fn decompress_with(c: <Message<S> as Compressible>::Compressed, ctx: &Ctx) -> Result<Message<S>, String> {
        let m = ctx.msgs.get(&c.nonce).ok_or("message not found")?;
        let mut message: Message<S> = Message {
            sender: m.0,
            recipient: m.1,
            amount: m.2,
            nonce: c.nonce,
            witness_index: <S::Witness as DecompressibleBy<Ctx>>::decompress_with(c.witness_index, ctx).await?,
            predicate_gas_used: <S::PredicateGasUsed as DecompressibleBy<Ctx>>::decompress_with(c.predicate_gas_used, ctx).await?,
            data: Default::default(),
            predicate: <S::Predicate as DecompressibleBy<Ctx>>::decompress_with(c.predicate, ctx).await?,
            predicate_data: <S::PredicateData as DecompressibleBy<Ctx>>::decompress_with(c.predicate_data, ctx).await?,
        };
        if let Some(d) = message.data.as_mut_field() { *d = Bytes::new(m.3.clone()); }
        Ok(message)
    }
}

impl DecompressibleBy<Ctx> for Mint {
    async fn decompress_with(c: <Mint as Compressible>::Compressed, ctx: &Ctx) -> Result<Mint, String> {
        Ok(Transaction::mint(
            ctx.tx_pointer.ok_or("no tx pointer in the context")?,
            <fuel_tx::input::contract::Contract as DecompressibleBy<Ctx>>::decompress_with(c.input_contract, ctx).await?,
            <fuel_tx::output::contract::Contract as DecompressibleBy<Ctx>>::decompress_with(c.output_contract, ctx).await?,
            <Word as DecompressibleBy<Ctx>>::decompress_with(c.mint_amount, ctx).await?,
            <AssetId as DecompressibleBy<Ctx>>::decompress_with(c.mint_asset_id, ctx).await?,
            <Word as DecompressibleBy<Ctx>>::decompress_with(c.gas_price, ctx).await?,
        ))
    }
}

// ------------------------------------------------------------------------------------------
// projection of a transaction into a field map (strings only)
// ------------------------------------------------------------------------------------------
fn n(x: impl ToString) -> Value { Value::String(x.to_string()) }
fn h(b: impl AsRef<[u8]>) -> Value { Value::String(hx(b.as_ref())) }
fn v(b: impl AsRef<[u8]>) -> Value { Value::String(hv(b.as_ref())) }

fn input_fm(i: &Input) -> Value {
    match i {
        Input::CoinSigned(c) => json!({"v": "CoinSigned", "f": {"utxo_id": h(c.utxo_id.to_bytes()), "owner": h(c.owner), "amount": n(c.amount),
            "asset_id": h(c.asset_id), "tx_pointer": h(c.tx_pointer.to_bytes()), "witness_index": n(c.witness_index)}}),
        Input::CoinPredicate(c) => json!({"v": "CoinPredicate", "f": {"utxo_id": h(c.utxo_id.to_bytes()), "owner": h(c.owner), "amount": n(c.amount),
            "asset_id": h(c.asset_id), "tx_pointer": h(c.tx_pointer.to_bytes()), "predicate_gas_used": n(c.predicate_gas_used),
            "predicate": v(&*c.predicate), "predicate_data": v(&*c.predicate_data)}}),
        Input::Contract(c) => json!({"v": "Contract", "f": contract_in_fm(c)}),
        Input::MessageCoinSigned(m) => json!({"v": "MessageCoinSigned", "f": {"sender": h(m.sender), "recipient": h(m.recipient), "amount": n(m.amount),
            "nonce": h(m.nonce), "witness_index": n(m.witness_index)}}),
        Input::MessageCoinPredicate(m) => json!({"v": "MessageCoinPredicate", "f": {"sender": h(m.sender), "recipient": h(m.recipient), "amount": n(m.amount),
            "nonce": h(m.nonce), "predicate_gas_used": n(m.predicate_gas_used), "predicate": v(&*m.predicate), "predicate_data": v(&*m.predicate_data)}}),
        Input::MessageDataSigned(m) => json!({"v": "MessageDataSigned", "f": {"sender": h(m.sender), "recipient": h(m.recipient), "amount": n(m.amount),
            "nonce": h(m.nonce), "witness_index": n(m.witness_index), "data": v(&*m.data)}}),
        Input::MessageDataPredicate(m) => json!({"v": "MessageDataPredicate", "f": {"sender": h(m.sender), "recipient": h(m.recipient), "amount": n(m.amount),
            "nonce": h(m.nonce), "predicate_gas_used": n(m.predicate_gas_used), "data": v(&*m.data), "predicate": v(&*m.predicate),
            "predicate_data": v(&*m.predicate_data)}}),
    }
}
fn contract_in_fm(c: &fuel_tx::input::contract::Contract) -> Value {
    json!({"utxo_id": h(c.utxo_id.to_bytes()), "balance_root": h(c.balance_root), "state_root": h(c.state_root),
           "tx_pointer": h(c.tx_pointer.to_bytes()), "contract_id": h(c.contract_id)})
}
fn contract_out_fm(c: &fuel_tx::output::contract::Contract) -> Value {
    json!({"input_index": n(c.input_index), "balance_root": h(c.balance_root), "state_root": h(c.state_root)})
}
fn output_fm(o: &Output) -> Value {
    match o {
        Output::Coin { to, amount, asset_id } => json!({"v": "Coin", "f": {"to": h(to), "amount": n(amount), "asset_id": h(asset_id)}}),
        Output::Contract(c) => json!({"v": "Contract", "f": contract_out_fm(c)}),
        Output::Change { to, amount, asset_id } => json!({"v": "Change", "f": {"to": h(to), "amount": n(amount), "asset_id": h(asset_id)}}),
        Output::Variable { to, amount, asset_id } => json!({"v": "Variable", "f": {"to": h(to), "amount": n(amount), "asset_id": h(asset_id)}}),
        Output::ContractCreated { contract_id, state_root } => json!({"v": "ContractCreated", "f": {"contract_id": h(contract_id), "state_root": h(state_root)}}),
    }
}

fn chargeable_fm<T>(kind: &str, t: &T, body: Value) -> Value
where
    T: field::Inputs + field::Outputs + field::Witnesses + field::Policies + UniqueIdentifier,
{
    json!({
        "kind": kind,
        "top": {"policies": h(t.policies().to_bytes()), "witnesses": t.witnesses().iter().map(|w| v(w.as_vec())).collect::<Vec<_>>(),
                "metadata": n(if t.cached_id().is_some() { 1 } else { 0 })},
        "body": body,
        "inputs": t.inputs().iter().map(input_fm).collect::<Vec<_>>(),
        "outputs": t.outputs().iter().map(output_fm).collect::<Vec<_>>(),
    })
}

pub fn fm(tx: &Transaction) -> Value {
    match tx {
        Transaction::Script(t) => chargeable_fm("Script", t, json!({"script_gas_limit": n(field::ScriptGasLimit::script_gas_limit(t)),
            "receipts_root": h(field::ReceiptsRoot::receipts_root(t)), "script": v(field::Script::script(t)), "script_data": v(field::ScriptData::script_data(t))})),
        Transaction::Create(t) => chargeable_fm("Create", t, json!({"bytecode_witness_index": n(field::BytecodeWitnessIndex::bytecode_witness_index(t)),
            "salt": h(field::Salt::salt(t)),
            "storage_slots": v(field::StorageSlots::storage_slots(t).iter().flat_map(|s| s.to_bytes()).collect::<Vec<u8>>())})),
        Transaction::Upgrade(t) => chargeable_fm("Upgrade", t, json!({"purpose": h(field::UpgradePurpose::upgrade_purpose(t).to_bytes())})),
        Transaction::Upload(t) => {
            let b = <Upload as field::ChargeableBody<UploadBody>>::body(t);
            chargeable_fm("Upload", t, json!({"root": h(b.root), "witness_index": n(b.witness_index), "subsection_index": n(b.subsection_index),
                "subsections_number": n(b.subsections_number), "proof_set": v(b.proof_set.iter().flat_map(|p| p.to_vec()).collect::<Vec<u8>>())}))
        }
        Transaction::Blob(t) => {
            let b = <Blob as field::ChargeableBody<BlobBody>>::body(t);
            chargeable_fm("Blob", t, json!({"id": h(b.id), "witness_index": n(b.witness_index)}))
        }
        Transaction::Mint(m) => json!({
            "kind": "Mint",
            "top": {"metadata": n(if m.cached_id().is_some() { 1 } else { 0 })},
            "body": {"tx_pointer": h(field::TxPointer::tx_pointer(m).to_bytes()), "mint_amount": n(field::MintAmount::mint_amount(m)),
                     "mint_asset_id": h(field::MintAssetId::mint_asset_id(m)), "gas_price": n(field::MintGasPrice::gas_price(m))},
            "inputs": [{"v": "Contract", "f": contract_in_fm(field::InputContract::input_contract(m))}],
            "outputs": [{"v": "Contract", "f": contract_out_fm(field::OutputContract::output_contract(m))}],
        }),
    }
}

// ------------------------------------------------------------------------------------------
// building transactions from (partial) field maps
// ------------------------------------------------------------------------------------------
fn fget(f: &Value, name: &str) -> Option<Vec<u8>> { f.get(name).and_then(|x| x.as_str()).map(unhx) }
fn id32<T: From<[u8; 32]>>(f: &Value, name: &str, rng: &mut StdRng) -> T {
    match fget(f, name) {
        Some(b) => { let mut a = [0u8; 32]; a.copy_from_slice(&b); a.into() }
        None => rng.gen::<[u8; 32]>().into(),
    }
}
fn code(f: &Value, name: &str, rng: &mut StdRng) -> Vec<u8> {
    fget(f, name).unwrap_or_else(|| (0..rng.gen_range(1..60)).map(|_| rng.gen::<u8>()).collect())
}
fn rbytes_small(rng: &mut StdRng) -> Vec<u8> {
    let len = match rng.gen_range(0..6) { 0 => 0, 1 => 1, 2 => 40, 3 => 41, _ => rng.gen_range(0..90) };
    (0..len).map(|_| rng.gen::<u8>()).collect()
}
fn rword(rng: &mut StdRng) -> Word { match rng.gen_range(0..5) { 0 => 1, 1 => u64::MAX, _ => rng.gen() } }
fn rptr(rng: &mut StdRng) -> TxPointer { TxPointer::new(rng.gen::<u32>().into(), rng.gen()) }
fn rutxo(rng: &mut StdRng) -> UtxoId { UtxoId::new(rng.gen::<[u8; 32]>().into(), rng.gen()) }

fn build_input(a: &Value, rng: &mut StdRng) -> Result<Input, String> {
    let f = &a["f"];
    Ok(match a["v"].as_str().unwrap_or("") {
        "CoinSigned" => Input::coin_signed(rutxo(rng), id32(f, "owner", rng), rword(rng), id32(f, "asset_id", rng), rptr(rng), rng.gen()),
        "CoinPredicate" => Input::coin_predicate(rutxo(rng), id32(f, "owner", rng), rword(rng), id32(f, "asset_id", rng), rptr(rng), rword(rng),
                                                 code(f, "predicate", rng), rbytes_small(rng)),
        "Contract" => Input::contract(rutxo(rng), rng.gen::<[u8; 32]>().into(), rng.gen::<[u8; 32]>().into(), rptr(rng), id32(f, "contract_id", rng)),
        "MessageCoinSigned" => Input::message_coin_signed(id32(f, "sender", rng), id32(f, "recipient", rng), rword(rng), rng.gen::<[u8; 32]>().into(), rng.gen()),
        "MessageCoinPredicate" => Input::message_coin_predicate(id32(f, "sender", rng), id32(f, "recipient", rng), rword(rng), rng.gen::<[u8; 32]>().into(),
                                                                rword(rng), code(f, "predicate", rng), rbytes_small(rng)),
        "MessageDataSigned" => Input::message_data_signed(id32(f, "sender", rng), id32(f, "recipient", rng), rword(rng), rng.gen::<[u8; 32]>().into(), rng.gen(),
                                                          { let mut d = rbytes_small(rng); d.push(7); d }),
        "MessageDataPredicate" => Input::message_data_predicate(id32(f, "sender", rng), id32(f, "recipient", rng), rword(rng), rng.gen::<[u8; 32]>().into(),
                                                                rword(rng), { let mut d = rbytes_small(rng); d.push(7); d }, code(f, "predicate", rng), rbytes_small(rng)),
        other => return Err(format!("unknown input variant {other}")),
    })
}
fn build_output(a: &Value, rng: &mut StdRng) -> Result<Output, String> {
    let f = &a["f"];
    Ok(match a["v"].as_str().unwrap_or("") {
        "Coin" => Output::coin(id32(f, "to", rng), rword(rng), id32(f, "asset_id", rng)),
        "Contract" => Output::contract(rng.gen(), rng.gen::<[u8; 32]>().into(), rng.gen::<[u8; 32]>().into()),
        "Change" => Output::change(id32(f, "to", rng), rword(rng), id32(f, "asset_id", rng)),
        "Variable" => Output::variable(id32(f, "to", rng), rword(rng), id32(f, "asset_id", rng)),
        "ContractCreated" => Output::contract_created(id32(f, "contract_id", rng), rng.gen::<[u8; 32]>().into()),
        other => return Err(format!("unknown output variant {other}")),
    })
}
fn rpolicies(rng: &mut StdRng) -> fuel_tx::policies::Policies {
    use fuel_tx::policies::PolicyType::*;
    let mut p = fuel_tx::policies::Policies::new();
    for t in [Tip, WitnessLimit, Maturity, MaxFee, Expiration, Owner] {
        if rng.gen_bool(0.5) { p.set(t, Some(if matches!(t, Maturity | Expiration | Owner) { rng.gen::<u32>() as u64 } else { rword(rng) })); }
    }
    p
}

pub fn build_tx(a: &Value, rng: &mut StdRng) -> Result<Transaction, String> {
    let empty = vec![];
    let inputs: Vec<Input> = a["inputs"].as_array().unwrap_or(&empty).iter().map(|i| build_input(i, rng)).collect::<Result<_, _>>()?;
    let outputs: Vec<Output> = a["outputs"].as_array().unwrap_or(&empty).iter().map(|o| build_output(o, rng)).collect::<Result<_, _>>()?;
    let witnesses: Vec<Witness> = (0..rng.gen_range(0..4)).map(|_| rbytes_small(rng).into()).collect();
    let pol = rpolicies(rng);
    let body = &a["body"];
    Ok(match a["kind"].as_str().unwrap_or("") {
        "Script" => {
            let mut t = Transaction::script(rword(rng), code(body, "script", rng), rbytes_small(rng), pol, inputs, outputs, witnesses);
            *field::ReceiptsRoot::receipts_root_mut(&mut t) = rng.gen::<[u8; 32]>().into();
            t.into()
        }
        "Create" => {
            let slots: Vec<StorageSlot> = (0..rng.gen_range(0..3)).map(|_| StorageSlot::new(rng.gen::<[u8; 32]>().into(), rng.gen::<[u8; 32]>().into())).collect();
            Transaction::create(rng.gen(), pol, Salt::new(rng.gen()), slots, inputs, outputs, witnesses).into()
        }
        "Upgrade" => {
            let purpose = if rng.gen_bool(0.5) { UpgradePurpose::StateTransition { root: rng.gen::<[u8; 32]>().into() } }
                          else { UpgradePurpose::ConsensusParameters { witness_index: rng.gen(), checksum: rng.gen::<[u8; 32]>().into() } };
            Transaction::upgrade(purpose, pol, inputs, outputs, witnesses).into()
        }
        "Upload" => {
            let proof: Vec<Bytes32> = (0..rng.gen_range(0..4)).map(|_| rng.gen::<[u8; 32]>().into()).collect();
            Transaction::upload(UploadBody { root: rng.gen::<[u8; 32]>().into(), witness_index: rng.gen(), subsection_index: rng.gen(),
                                             subsections_number: rng.gen(), proof_set: proof }, pol, inputs, outputs, witnesses).into()
        }
        "Blob" => Transaction::blob(BlobBody { id: BlobId::new(rng.gen()), witness_index: rng.gen() }, pol, inputs, outputs, witnesses).into(),
        "Mint" => {
            let ic = match inputs.first() { Some(Input::Contract(c)) => c.clone(), _ => return Err("mint needs one contract input".into()) };
            let oc = match outputs.first() { Some(Output::Contract(c)) => *c, _ => return Err("mint needs one contract output".into()) };
            Transaction::mint(rptr(rng), ic, oc, rword(rng), id32(body, "mint_asset_id", rng), rword(rng)).into()
        }
        other => return Err(format!("unknown kind {other}")),
    })
}

// ------------------------------------------------------------------------------------------
// one round trip
// ------------------------------------------------------------------------------------------
struct Trip { event: Value, calls: Vec<Value> }

fn round_trip(ctx: &mut Ctx, tx: &Transaction, chain: &ChainId, src: &str) -> Trip {
    ctx.begin_tx();
    ctx.store_tx_info(tx);
    let r = catch(std::panic::AssertUnwindSafe(|| -> Result<(Vec<u8>, Vec<u8>, Transaction), String> {
        let compressed = block_on(tx.compress_with(ctx)).map_err(|e| format!("compress: {e}"))?;
        let bytes = postcard::to_allocvec(&compressed).map_err(|e| format!("postcard: {e}"))?;
        let back: <Transaction as Compressible>::Compressed = postcard::from_bytes(&bytes).map_err(|e| format!("postcard de: {e}"))?;
        let bytes2 = postcard::to_allocvec(&back).map_err(|e| format!("postcard: {e}"))?;
        let dec = block_on(<Transaction as DecompressibleBy<Ctx>>::decompress_with(back, ctx)).map_err(|e| format!("decompress: {e}"))?;
        Ok((bytes, bytes2, dec))
    }));
    let calls = ctx.calls.clone();
    let kind = fm(tx)["kind"].clone();
    let event = match r {
        Ok(Ok((b1, b2, dec))) => {
            let ids = catch(std::panic::AssertUnwindSafe(|| (tx.id(chain), dec.id(chain))));
            match ids {
                Ok((i1, i2)) => json!({"ev": "Tx", "kind": kind, "src": src, "orig": fm(tx), "dec": fm(&dec), "id_orig": hx(i1), "id_dec": hx(i2),
                                       "calls": calls, "reg": ctx.proj_small(), "cpost": hv(&b1), "cpost2": hv(&b2), "clen": b1.len()}),
                Err(p) => json!({"ev": "HostPanic", "kind": kind, "where": "id", "error": p}),
            }
        }
        Ok(Err(e)) => json!({"ev": "TxError", "kind": kind, "src": src, "error": e, "orig": fm(tx), "calls": calls}),
        Err(p) => json!({"ev": "HostPanic", "kind": kind, "where": "compress/decompress", "error": p, "orig": fm(tx)}),
    };
    Trip { event, calls }
}

fn parse_entries(v: &Value) -> Vec<(u32, Vec<u8>)> {
    v.as_array().map(|a| a.iter().map(|p| (p[0].as_u64().unwrap() as u32, unhx(p[1].as_str().unwrap()))).collect()).unwrap_or_default()
}
fn sorted_entries(v: &Value) -> Vec<(u64, String)> {
    let mut e: Vec<(u64, String)> = v.as_array().map(|a| a.iter().map(|p| (p[0].as_u64().unwrap(), p[1].as_str().unwrap().to_string())).collect()).unwrap_or_default();
    e.sort();
    e
}

// ------------------------------------------------------------------------------------------
// Leg R
// ------------------------------------------------------------------------------------------
pub fn replay(o: &Opts) -> Res<()> {
    // histories are streamed (the thorough tier emits > 100 MB of them)
    use std::io::BufRead;
    let behs = std::io::BufReader::new(std::fs::File::open(o.input.as_ref().expect("input"))?);
    let mut nbeh = 0usize;
    let mut out = Out::open(&o.out)?;
    let mut trace = match o.opt("--trace") { Some(p) => Some(Out::open(&Some(p))?), None => None };
    let every: usize = o.opt("--trace-every").and_then(|x| x.parse().ok()).unwrap_or(1);
    let mut steps_total = 0u64;
    let mut reported: HashMap<String, u32> = HashMap::new();   // at most 20 mismatch records per kind
    let chain = ChainId::new(o.seed.wrapping_mul(31) ^ 0x5eed);
    for (bi, line) in behs.lines().enumerate() {
        let line = line?;
        if line.trim().is_empty() { continue; }
        let beh: Value = serde_json::from_str(&line)?;
        let beh = &beh;
        nbeh += 1;
        let mut rng = o.rng(7000 + bi as u64);
        let (mut next, mut seed) = (BTreeMap::new(), BTreeMap::new());
        for ks in KEYSPACES {
            next.insert(ks.to_string(), beh["init"][ks]["next"].as_u64().unwrap() as u32);
            seed.insert(ks.to_string(), parse_entries(&beh["init"][ks]["entries"]));
        }
        let mut ctx = Ctx::new(&next, &seed)?;
        let traced = ((bi as u64).wrapping_mul(2654435761) >> 7) % (every as u64) == 0;
        if let (true, Some(t)) = (traced, trace.as_mut()) {
            t.ev(json!({"ev": "Seg", "beh": bi}));
            t.ev(ctx.ctx_event());
        }
        for (j, s) in beh["steps"].as_array().unwrap().iter().enumerate() {
            steps_total += 1;
            let mut mism = |what: &str, exp: Value, obs: Value, out: &mut Out| {
                let c = reported.entry(what.to_string()).or_insert(0);
                *c += 1;
                if *c <= 20 { out.ev(json!({"mismatch": what, "beh": bi, "step": j, "expected": exp, "observed": obs, "behaviour": beh})); }
            };
            let tx = match build_tx(&s["tx"], &mut rng) {
                Ok(t) => t,
                Err(e) => return Err(format!("cannot build model transaction: {e}").into()),
            };
            let trip = round_trip(&mut ctx, &tx, &chain, "model");
            if trip.calls != *s["calls"].as_array().unwrap() {
                let kind = s["tx"]["kind"].as_str().unwrap_or("");
                mism(&format!("registry-calls/{kind}"), s["calls"].clone(), json!(trip.calls), &mut out);
            }
            let full = ctx.proj_full();
            for ks in KEYSPACES {
                if full[ks]["next"] != s["reg"][ks]["next"] {
                    mism(&format!("registry-next/{ks}"), s["reg"][ks]["next"].clone(), full[ks]["next"].clone(), &mut out);
                }
                if sorted_entries(&full[ks]["entries"]) != sorted_entries(&s["reg"][ks]["entries"]) {
                    mism(&format!("registry-entries/{ks}"), s["reg"][ks]["entries"].clone(), full[ks]["entries"].clone(), &mut out);
                }
            }
            match trip.event["ev"].as_str() {
                Some("Tx") => {}
                Some(k) => mism(&format!("round-trip-{k}"), json!("Tx"), trip.event.clone(), &mut out),
                None => {}
            }
            if let (true, Some(t)) = (traced, trace.as_mut()) { t.ev(trip.event); }
        }
    }
    out.ev(json!({"summary": {"behaviours": nbeh, "steps": steps_total}}));
    out.finish();
    if let Some(t) = trace { t.finish(); }
    Ok(())
}

// ------------------------------------------------------------------------------------------
// Leg T
// ------------------------------------------------------------------------------------------
struct Pools { addr: Vec<[u8; 32]>, asset: Vec<[u8; 32]>, contract: Vec<[u8; 32]>, code: Vec<Vec<u8>> }

fn gen_abstract(rng: &mut StdRng, p: &Pools) -> Value {
    let pick32 = |rng: &mut StdRng, pool: &Vec<[u8; 32]>| -> Option<String> {
        if rng.gen_bool(0.75) { Some(hx(pool[rng.gen_range(0..pool.len())])) } else { None }
    };
    let pickc = |rng: &mut StdRng| -> Option<String> { if rng.gen_bool(0.75) { Some(hx(&p.code[rng.gen_range(0..p.code.len())])) } else { None } };
    let put = |m: &mut Map<String, Value>, k: &str, v: Option<String>| { if let Some(x) = v { m.insert(k.into(), json!(x)); } };
    let kind = ["Script", "Create", "Upgrade", "Upload", "Blob", "Mint", "Script"][rng.gen_range(0..7)];
    if kind == "Mint" {
        let (mut b, mut c) = (Map::new(), Map::new());
        put(&mut b, "mint_asset_id", pick32(rng, &p.asset));
        put(&mut c, "contract_id", pick32(rng, &p.contract));
        return json!({"kind": "Mint", "body": b, "inputs": [{"v": "Contract", "f": c}], "outputs": [{"v": "Contract", "f": {}}]});
    }
    let mut body = Map::new();
    if kind == "Script" { put(&mut body, "script", pickc(rng)); }
    let ivars = ["CoinSigned", "CoinPredicate", "Contract", "MessageCoinSigned", "MessageCoinPredicate", "MessageDataSigned", "MessageDataPredicate"];
    let ovars = ["Coin", "Contract", "Change", "Variable", "ContractCreated"];
    let mut inputs = vec![];
    for _ in 0..rng.gen_range(0..5) {
        let vname = ivars[rng.gen_range(0..ivars.len())];
        let mut f = Map::new();
        match vname {
            "CoinSigned" => { put(&mut f, "owner", pick32(rng, &p.addr)); put(&mut f, "asset_id", pick32(rng, &p.asset)); }
            "CoinPredicate" => { put(&mut f, "owner", pick32(rng, &p.addr)); put(&mut f, "asset_id", pick32(rng, &p.asset)); put(&mut f, "predicate", pickc(rng)); }
            "Contract" => put(&mut f, "contract_id", pick32(rng, &p.contract)),
            "MessageCoinSigned" | "MessageDataSigned" => { put(&mut f, "sender", pick32(rng, &p.addr)); put(&mut f, "recipient", pick32(rng, &p.addr)); }
            _ => { put(&mut f, "sender", pick32(rng, &p.addr)); put(&mut f, "recipient", pick32(rng, &p.addr)); put(&mut f, "predicate", pickc(rng)); }
        }
        inputs.push(json!({"v": vname, "f": f}));
    }
    let mut outputs = vec![];
    for _ in 0..rng.gen_range(0..5) {
        let vname = ovars[rng.gen_range(0..ovars.len())];
        let mut f = Map::new();
        match vname {
            "Coin" | "Change" | "Variable" => { put(&mut f, "to", pick32(rng, &p.addr)); put(&mut f, "asset_id", pick32(rng, &p.asset)); }
            "ContractCreated" => put(&mut f, "contract_id", pick32(rng, &p.contract)),
            _ => {}
        }
        outputs.push(json!({"v": vname, "f": f}));
    }
    json!({"kind": kind, "body": body, "inputs": inputs, "outputs": outputs})
}

pub fn record(o: &Opts) -> Res<()> {
    let mut out = Out::open(&o.out)?;
    let thorough = o.thorough();
    let mut rng = o.rng(701);
    let chain = ChainId::new(rng.gen());
    let max_w = RegistryKey::MAX_WRITABLE.as_u32();
    let pools = |rng: &mut StdRng| -> Pools {
        let mk = |rng: &mut StdRng, n: usize| -> Vec<[u8; 32]> { let mut v = vec![[0u8; 32]]; for _ in 0..n { v.push(rng.gen()); } v };
        Pools { addr: mk(rng, 5), asset: mk(rng, 3), contract: mk(rng, 3),
                code: vec![vec![], vec![0x24, 0, 0, 0], (0..40).map(|_| rng.gen::<u8>()).collect(), (0..41).map(|_| rng.gen::<u8>()).collect(), (0..200).map(|_| rng.gen::<u8>()).collect()] }
    };
    // (a) generated sequences sharing one context; next key at 0 / just below the wrap-around; optionally older entries
    //     sitting on the keys that are written next
    let nctx = if thorough { 40 } else { 8 };
    let ntx = if thorough { 40 } else { 18 };
    for c in 0..nctx {
        let p = pools(&mut rng);
        let start: u32 = match c % 4 { 0 => 0, 1 => max_w - 1, 2 => max_w - rng.gen_range(0..4), _ => rng.gen_range(0..3) };
        let seeded = c % 2 == 1 || c % 4 == 2;
        let (mut next, mut seed) = (BTreeMap::new(), BTreeMap::new());
        for ks in KEYSPACES {
            next.insert(ks.to_string(), if rng.gen_bool(0.8) { start } else { 0 });
            if seeded {
                let pool: Vec<Vec<u8>> = match ks {
                    "Address" => p.addr[1..].iter().map(|a| a.to_vec()).collect(),
                    "AssetId" => p.asset[1..].iter().map(|a| a.to_vec()).collect(),
                    "ContractId" => p.contract[1..].iter().map(|a| a.to_vec()).collect(),
                    _ => p.code[1..].to_vec(),
                };
                let mut e = vec![];
                for (i, val) in pool.iter().enumerate().take(3) {
                    if rng.gen_bool(0.7) { e.push((i as u32, val.clone())); }
                }
                seed.insert(ks.to_string(), e);
            }
        }
        let mut ctx = Ctx::new(&next, &seed)?;
        out.ev(json!({"ev": "Seg", "part": "gen", "ctx": c}));
        out.ev(ctx.ctx_event());
        let mut done: Vec<Transaction> = vec![];
        for _ in 0..ntx {
            let tx = if !done.is_empty() && rng.gen_bool(0.15) { done[rng.gen_range(0..done.len())].clone() }
                     else { build_tx(&gen_abstract(&mut rng, &p), &mut rng)? };
            let trip = round_trip(&mut ctx, &tx, &chain, "gen");
            out.ev(trip.event);
            done.push(tx);
        }
    }
    // (b) the repo's own factory transactions (signed, metadata precomputed), all kinds interleaved in one context,
    //     then every one of them once more (the registry must not move)
    let nfac = if thorough { 30 } else { 6 };
    let seed_f: u64 = rng.gen();
    let mut txs: Vec<Transaction> = vec![];
    let mut fs = TransactionFactory::<_, Script>::from_seed(seed_f);
    let mut fc = TransactionFactory::<_, Create>::from_seed(seed_f + 1);
    let mut fu = TransactionFactory::<_, Upgrade>::from_seed(seed_f + 2);
    let mut fl = TransactionFactory::<_, Upload>::from_seed(seed_f + 3);
    let mut fb = TransactionFactory::<_, Blob>::from_seed(seed_f + 4);
    let mut fmint = TransactionFactory::<_, Mint>::from_seed(seed_f + 5);
    for _ in 0..nfac {
        txs.push(fs.next().unwrap().0.into());
        txs.push(fc.next().unwrap().0.into());
        txs.push(fmint.next().unwrap().into());
        txs.push(fu.next().unwrap().0.into());
        txs.push(fl.next().unwrap().0.into());
        txs.push(fb.next().unwrap().0.into());
    }
    let mut next = BTreeMap::new();
    for ks in KEYSPACES { next.insert(ks.to_string(), max_w - 2); }
    let mut ctx = Ctx::new(&next, &BTreeMap::new())?;
    out.ev(json!({"ev": "Seg", "part": "factory"}));
    out.ev(ctx.ctx_event());
    for pass in 0..2 {
        for tx in &txs {
            // factory transactions carry the id cached by the builder for the builder's (default) chain id
            let trip = round_trip(&mut ctx, tx, &ChainId::default(), if pass == 0 { "factory" } else { "factory-again" });
            out.ev(trip.event);
        }
    }
    out.finish();
    Ok(())
}
