//! vh_lifecycle — conformance harness of C35 (upload / blob / deployment / upgrade tables).
//!
//!   vh_lifecycle replay lifecycle <behaviours.ndjson> -o <result.ndjson>   (spec -> impl, Leg R)
//!   vh_lifecycle record lifecycle [--tier quick|thorough] -o <trace.ndjson> (impl -> spec, Leg T)
//!
//! Deliberately dumb: builds REAL transactions from JSON, runs them through fuel_vm's MemoryClient
//! and Interpreter::transact over MemoryStorage, dumps the storage tables, compares with what the
//! TLA+ specification printed (replay) or logs them for TLC to judge (record).  No semantics here.
#[path = "../util.rs"]
mod util;
#[path = "../lifecycle.rs"]
mod lifecycle;

use std::process::exit;

fn main() {
    if std::env::var("VH_PANIC_TRACE").is_err() { std::panic::set_hook(Box::new(|_| {})); }
    let args: Vec<String> = std::env::args().collect();
    if args.len() < 3 {
        eprintln!("usage: vh_lifecycle record|replay lifecycle ...");
        exit(64);
    }
    let opts = util::Opts::parse(&args[3..]);
    let r = match (args[1].as_str(), args[2].as_str()) {
        ("replay", "lifecycle") => lifecycle::replay(&opts),
        ("record", "lifecycle") => lifecycle::record(&opts),
        (m, d) => {
            eprintln!("unknown mode/domain {m}/{d}");
            exit(64);
        }
    };
    if let Err(e) = r {
        eprintln!("vh_lifecycle error: {e}");
        exit(3);
    }
}
