//! vh_serde — conformance harness for C06 (serde formats) and C07 (DA compression).
//!   vh_serde record serde|compress [--tier quick|thorough] [--cases f] [--part p] -o <trace.ndjson>   (Leg T)
//!   vh_serde replay serde|compress <behaviours.ndjson> -o <result.ndjson> [--trace t.ndjson]          (Leg R)
#[path = "../util.rs"]
mod util;
#[path = "../serde_gasgen.rs"]
mod serde_gasgen;
#[path = "../serde_c06.rs"]
mod serde_c06;
#[path = "../compress_c07.rs"]
mod compress_c07;

use std::process::exit;

fn main() {
    if std::env::var("VH_PANIC_TRACE").is_err() { std::panic::set_hook(Box::new(|_| {})); }
    let args: Vec<String> = std::env::args().collect();
    if args.len() < 3 {
        eprintln!("usage: vh_serde record|replay serde|compress ...");
        exit(64);
    }
    let opts = util::Opts::parse(&args[3..]);
    let r = match (args[1].as_str(), args[2].as_str()) {
        ("record", "serde") => serde_c06::record(&opts),
        ("replay", "serde") => serde_c06::replay(&opts),
        ("record", "compress") => compress_c07::record(&opts),
        ("replay", "compress") => compress_c07::replay(&opts),
        (m, d) => {
            eprintln!("unknown mode/domain {m}/{d}");
            exit(64);
        }
    };
    if let Err(e) = r {
        eprintln!("vh_serde error: {e}");
        exit(3);
    }
}
