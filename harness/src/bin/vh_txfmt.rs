//! vh_txfmt — conformance harness for the wire format (C01 C02 C03 C04): binds spec/tx/{Canonical,TxFormat,TxId}.tla
//! to fuel-tx / fuel-types.  Dumb by design: builds values from abstract JSON with the public constructors, calls
//! the public API under util::catch, and compares with what TLC printed (Leg R) or records what it saw (Leg T).
//!
//!   vh_txfmt replay txfmt <lines.ndjson> -o <result.ndjson>
//!   vh_txfmt record txfmt --part enc|off|id|dec [--mutants <file>] [--tier quick|thorough] -o <trace.ndjson>
#[path = "../util.rs"]
mod util;
#[path = "../txfmt/build.rs"]
mod build;
#[path = "../txfmt/proj.rs"]
mod proj;
#[path = "../txfmt/vals.rs"]
mod vals;
#[path = "../txfmt/replay.rs"]
mod replay;
#[path = "../txfmt/record.rs"]
mod record;

use std::process::exit;

fn main() {
    if std::env::var("VH_PANIC_TRACE").is_err() { std::panic::set_hook(Box::new(|_| {})); }
    let args: Vec<String> = std::env::args().collect();
    if args.len() < 3 {
        eprintln!("usage: vh_txfmt record|replay txfmt ...");
        exit(64);
    }
    let opts = util::Opts::parse(&args[3..]);
    let r = match (args[1].as_str(), args[2].as_str()) {
        ("replay", "txfmt") => replay::replay(&opts),
        ("record", "txfmt") => record::record(&opts),
        (m, d) => {
            eprintln!("unknown mode/domain {m}/{d}");
            exit(64);
        }
    };
    if let Err(e) = r {
        eprintln!("vh_txfmt error: {e}");
        exit(3);
    }
}
