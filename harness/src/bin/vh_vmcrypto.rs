//! vh_vmcrypto — recorder for the cryptographic and block / environment instructions of the FuelVM interpreter
//! (S256 K256 ECK1 ECR1 ED19 ECOP EPAR BHEI BHSH CB TIME).
//!   vh_vmcrypto record vmcrypto [--part hash,sig,ed,ecop,epar,block,frame,blockbig] [--tier T] -o trace.ndjson
//!
//! Exec mode (see vmcore.rs): a VM initialised with a trivial script gets a stack frame and a heap allocation through
//! REAL `CFEI` / `CFSI` / `ALOC` instructions (part `frame`: the script really CALLs a contract and the session
//! continues inside the callee's frame, with a caller-owned heap above it); operand bytes are placed in memory with
//! `write_noownerchecks` (logged as `MemPoke` events — an environment action in the trace specification), registers are
//! preset and one instruction is executed through `Interpreter::instruction`.
//!
//! The driver chooses WHAT to run (seeded, boundary-biased).  It contains no instruction semantics.  For signatures it
//! generates the key pairs itself and logs what it knows independently of the code under test as `exp` in the Step event
//! (the signer's public key for a signature it made, "must not be the signer's key" for a signature / message it
//! corrupted, the verdict of a pairing product whose value follows from bilinearity): the trace specification requires
//! the recorded result to agree.  The chain oracle (block height, coinbase, block hashes and timestamps as the storage
//! backend answers them) is logged in the Init event as `chain`.
#![allow(dead_code)]
#[path = "../util.rs"]
mod util;
#[path = "../vmcore.rs"]
mod vmcore;
// copies of the few helpers of ../vm/drivers.rs this binary needs (that file is edited concurrently by other builders)
mod drivers {
    use crate::vmcore::*;
    use fuel_tx::{ConsensusParameters, GasCosts, Script, TransactionBuilder, TxParameters};
    use fuel_vm::prelude::*;
    use fuel_vm::{checked_transaction::Checked, interpreter::MemoryInstance, storage::MemoryStorage};
    use rand::{rngs::StdRng, Rng};
    use serde_json::json;

    pub fn small_params(max_inputs: u16) -> ConsensusParameters {
        let mut p = ConsensusParameters::standard();
        let tx = TxParameters::DEFAULT.with_max_inputs(max_inputs);
        p.set_tx_params(tx);
        p
    }
    pub fn new_vm(w: &World) -> Vm<MemoryStorage> {
        Vm::<MemoryStorage>::with_storage(MemoryInstance::new(), w.storage.clone(), w.iparams())
    }
    pub fn simple_script(w: &World, code: Vec<u8>, data: Vec<u8>, gas_limit: u64) -> Result<Checked<Script>, String> {
        let tx = TransactionBuilder::script(code, data)
            .script_gas_limit(gas_limit)
            .max_fee_limit(0)
            .with_params(w.params.clone())
            .add_fee_input()
            .finalize();
        checked_script(tx, w)
    }
    /// a gas schedule whose every number is drawn from 1..=hi (same shape/version as the default one)
    pub fn random_gas(rng: &mut StdRng, hi: u64) -> GasCosts {
        fn walk(v: &mut serde_json::Value, rng: &mut StdRng, hi: u64) {
            match v {
                serde_json::Value::Number(_) => { *v = json!(rng.gen_range(1..=hi)); }
                serde_json::Value::Array(a) => a.iter_mut().for_each(|x| walk(x, rng, hi)),
                serde_json::Value::Object(o) => o.values_mut().for_each(|x| walk(x, rng, hi)),
                _ => {}
            }
        }
        let mut v = serde_json::to_value(GasCosts::default()).expect("ser");
        walk(&mut v, rng, hi);
        serde_json::from_value(v).expect("de")
    }
}

use fuel_asm::{op, GTFArgs, Instruction, RegId};
use fuel_crypto::{Message, SecretKey, Signature};
use fuel_tx::{ConsensusParameters, Receipt};
use fuel_types::{canonical::Serialize as _, ContractId};
use fuel_vm::{
    call::Call,
    interpreter::MemoryInstance,
    state::ExecuteState,
    storage::{ContractsRawCode, InterpreterStorage, MemoryStorage},
    util::test_helpers::TestBuilder,
};
use rand::{rngs::StdRng, seq::SliceRandom, Rng};
use serde_json::{json, Map, Value};
use std::process::exit;
use util::*;
use vmcore::*;

fn main() {
    if std::env::var("VH_PANIC_TRACE").is_err() { std::panic::set_hook(Box::new(|_| {})); }
    let args: Vec<String> = std::env::args().collect();
    if args.len() < 3 { eprintln!("usage: vh_vmcrypto record vmcrypto [--part p,..] [--tier T] -o trace.ndjson"); exit(64); }
    let opts = util::Opts::parse(&args[3..]);
    let r = match (args[1].as_str(), args[2].as_str()) {
        ("record", "vmcrypto") => record(&opts),
        _ => { eprintln!("unknown"); exit(64); }
    };
    if let Err(e) = r { eprintln!("vh_vmcrypto error: {e}"); exit(3); }
}

const PARTS: [&str; 7] = ["hash", "sig", "ed", "ecop", "epar", "block", "frame"];

fn record(o: &Opts) -> Res<()> {
    let mut out = Out::open(&o.out)?;
    let part = o.opt("--part").unwrap_or_else(|| "all".into());
    // "all" = every part except `blockbig` (BHSH with a height operand >= 2^32, see docs/NOTES_vmcrypto.md, findings)
    let want = |p: &str| (part == "all" && p != "blockbig") || part.split(',').any(|x| x == p);
    let mut run = 0u64;
    for p in PARTS { if want(p) { family(o, &mut out, &mut run, p); } }
    if want("blockbig") { blockbig(o, &mut out, &mut run); }
    let n = out.finish();
    eprintln!("vmcrypto: {n} events");
    Ok(())
}

// ---- instruction words (layout only) ----
fn enc4(op: u8, a: u8, b: u8, c: u8, d: u8) -> u32 {
    ((op as u32) << 24) | ((a as u32 & 63) << 18) | ((b as u32 & 63) << 12) | ((c as u32 & 63) << 6) | (d as u32 & 63)
}
fn raw_of(i: Instruction) -> u32 { u32::from_be_bytes(i.to_bytes()) }

const RZERO: usize = 0;
const RONE: usize = 1;
const ROF: usize = 2;
const RPC: usize = 3;
const RSSP: usize = 4;
const RSP: usize = 5;
const RFP: usize = 6;
const RHP: usize = 7;
const RERR: usize = 8;
const RGGAS: usize = 9;
const RCGAS: usize = 10;
const RFLAG: usize = 15;
const RA_: u8 = 0x10;
const RB_: u8 = 0x11;
const RC_: u8 = 0x12;
const RD_: u8 = 0x13;
const RT_: u8 = 0x14;

const OP_BHSH: u8 = 0x2a;
const OP_BHEI: u8 = 0x2b;
const OP_CB: u8 = 0x31;
const OP_ECK1: u8 = 0x3e;
const OP_ECR1: u8 = 0x3f;
const OP_ED19: u8 = 0x40;
const OP_K256: u8 = 0x41;
const OP_S256: u8 = 0x42;
const OP_TIME: u8 = 0x43;
const OP_ECOP: u8 = 0xbc;
const OP_EPAR: u8 = 0xbe;

// ---- 256-bit numbers as 32 big-endian bytes (only to BUILD inputs: negated points, twin signatures, shifted messages) ----
type B32 = [u8; 32];
fn h32(s: &str) -> B32 { let v = hex::decode(s).expect("hex"); let mut a = [0u8; 32]; a.copy_from_slice(&v); a }
fn be_add(a: &B32, b: &B32) -> (B32, bool) {
    let mut r = [0u8; 32];
    let mut c = 0u16;
    for i in (0..32).rev() { let t = a[i] as u16 + b[i] as u16 + c; r[i] = t as u8; c = t >> 8; }
    (r, c != 0)
}
fn be_sub(a: &B32, b: &B32) -> (B32, bool) {
    let mut r = [0u8; 32];
    let mut br = 0i16;
    for i in (0..32).rev() { let t = a[i] as i16 - b[i] as i16 - br; if t < 0 { r[i] = (t + 256) as u8; br = 1; } else { r[i] = t as u8; br = 0; } }
    (r, br != 0)
}
fn be_u64(x: u64) -> B32 { let mut r = [0u8; 32]; r[24..].copy_from_slice(&x.to_be_bytes()); r }
fn rand32(rng: &mut StdRng) -> B32 { let mut b = [0u8; 32]; rng.fill(&mut b[..]); b }
fn k1_n() -> B32 { h32("fffffffffffffffffffffffffffffffebaaedce6af48a03bbfd25e8cd0364141") }
fn r1_n() -> B32 { h32("ffffffff00000000ffffffffffffffffbce6faada7179e84f3b9cac2fc632551") }
fn bn_p() -> B32 { h32("30644e72e131a029b85045b68181585d97816a916871ca8d3c208c16d87cfd47") }
fn bn_r() -> B32 { h32("30644e72e131a029b85045b68181585d2833e84879b9709143e1f593f0000001") }
fn ed_l_le() -> B32 { let mut l = h32("1000000000000000000000000000000014def9dea2f79cd65812631a5cf5d3ed"); l.reverse(); l }
/// the generator of G2 in the EIP-197 encoding (x imaginary, x real, y imaginary, y real)
fn g2_gen() -> [u8; 128] {
    let mut v = [0u8; 128];
    v[..32].copy_from_slice(&h32("198e9393920d483a7260bfb731fb5d25f1aa493335a9e71297e485b7aef312c2"));
    v[32..64].copy_from_slice(&h32("1800deef121f1e76426a00665e5c4479674322d4f75edadd46debd5cd992f6ed"));
    v[64..96].copy_from_slice(&h32("090689d0585ff075ec9e99ad690c3395bc4b313370b38ef355acdadcd122975b"));
    v[96..].copy_from_slice(&h32("12c85ea5db8c6deb4aab71808dcb408fe3d1e7690c43d37b4ce6cc0166fa7daa"));
    v
}
/// a point of the twist that is not in the order-r subgroup (found by solving the curve equation for x = 1 + u)
fn g2_off_subgroup() -> [u8; 128] {
    let v = hex::decode(OFF_SUBGROUP).expect("hex");
    let mut a = [0u8; 128];
    a.copy_from_slice(&v);
    a
}
const OFF_SUBGROUP: &str = "000000000000000000000000000000000000000000000000000000000000000100000000000000000000000000000000000000000000000000000000000000022b76c179599bb92a963dac85546a005a777f7c13f6a7b75d5918b6b5808f5fde101f7278419308b95099eca02dcee0c5381f4d26d1d62313f057167f064101ce";
fn g2_neg(q: &[u8; 128]) -> [u8; 128] {
    let mut v = *q;
    for k in [64usize, 96] {
        let mut c = [0u8; 32];
        c.copy_from_slice(&q[k..k + 32]);
        if c != [0u8; 32] { v[k..k + 32].copy_from_slice(&be_sub(&bn_p(), &c).0); }
    }
    v
}
fn g1_neg(p: &[u8; 64]) -> [u8; 64] {
    let mut v = *p;
    let mut y = [0u8; 32];
    y.copy_from_slice(&p[32..]);
    if y != [0u8; 32] { v[32..].copy_from_slice(&be_sub(&bn_p(), &y).0); }
    v
}

// ---- sessions ----
#[derive(Clone, Copy)]
struct Lay { ssp: u64, sp: u64, slen: u64, hp: u64, prev_hp: u64 }
fn lay_of(vm: &Vm<MemoryStorage>, prev_hp: u64) -> Lay {
    let r = vm.registers();
    Lay { ssp: r[RSSP], sp: r[RSP], slen: vm.memory().stack_raw().len() as u64, hp: r[RHP], prev_hp }
}

struct Sess { vm: Vm<MemoryStorage>, pc0: u64, prev_hp: u64, run: u64, i: u64, heights: Vec<u64>, cur_height: u32 }

fn heights_of_interest(rng: &mut StdRng, cur: u32) -> Vec<u64> {
    let c = cur as u64;
    let mut v: Vec<u64> = vec![0, 1, 2, c.saturating_sub(2), c.saturating_sub(1), c, c + 1, c + 2, u32::MAX as u64 - 1, u32::MAX as u64, 1000, 65536];
    for _ in 0..3 { v.push(rng.gen_range(0..=(c + 3)).min(u32::MAX as u64)); }
    v.retain(|h| *h <= u32::MAX as u64);
    v.sort();
    v.dedup();
    v
}

/// what the chain oracle (the storage backend) answers, asked directly
fn chain_json(st: &MemoryStorage, heights: &[u64]) -> Value {
    let mut blocks = Map::new();
    for h in heights {
        let bh = (*h as u32).into();
        blocks.insert(h.to_string(), json!({"hash": hx(st.block_hash(bh).expect("hash")), "time": st.timestamp(bh).expect("time").to_string()}));
    }
    json!({"height": u32::from(st.block_height().expect("height")).to_string(), "coinbase": hx(st.coinbase().expect("coinbase")), "blocks": Value::Object(blocks)})
}

fn pick_height(rng: &mut StdRng) -> u32 {
    match rng.gen_range(0..9) { 0 => 0, 1 => 1, 2 => 2, 3 => 5, 4 => 1000, 5 => u32::MAX, 6 => u32::MAX - 1, _ => rng.gen_range(3..1_000_000) }
}

/// exec-mode session in the script context: frame + heap through real instructions
fn session(out: &mut Out, run: u64, rng: &mut StdRng, random_schedule: bool, driver: &str) -> Option<Sess> {
    let mut params = drivers::small_params(2);
    if random_schedule { params.set_gas_costs(drivers::random_gas(rng, 60)); }
    let cur = pick_height(rng);
    let coinbase = ContractId::new(rand32(rng));
    let storage = MemoryStorage::new(cur.into(), coinbase);
    let w = World { params, gas_price: 0, storage, block_height: 0 };
    let checked = drivers::simple_script(&w, vec![op::ret(RegId::ONE)].into_iter().collect(), vec![], 1_000_000).ok()?;
    let ready = checked.into_ready(w.gas_price, w.params.gas_costs(), w.params.fee_params(), Some(w.block_height.into())).ok()?;
    let mut vm = drivers::new_vm(&w);
    vm.init_script(ready).ok()?;
    let s0 = snap(&vm);
    let heights = heights_of_interest(rng, cur);
    out.ev(json!({"ev": "Seg"}));
    out.ev(json!({"ev": "Init", "run": run, "kind": "exec", "env": env_json(&vm, &w), "regs": regs_json(&s0.regs),
                  "stack": hx(&s0.stack), "hp": s0.hp, "early": false, "driver": driver, "chain": chain_json(vm.as_ref(), &heights)}));
    let pc0 = vm.registers()[RPC];
    let mut s = Sess { vm, pc0, prev_hp: MEM, run, i: 0, heights, cur_height: cur };
    if !frame_and_heap(out, &mut s, rng) { return None; }
    Some(s)
}

fn frame_and_heap(out: &mut Out, s: &mut Sess, rng: &mut StdRng) -> bool {
    let big = 100_000_000u64;
    let pc = s.vm.registers()[RPC];
    let gas = [(RPC, pc), (RCGAS, big), (RGGAS, big)];
    let ext: u32 = *[512u32, 1024, 2048, 4096].choose(rng).unwrap();
    let shrink: u32 = *[0u32, 64, 256].choose(rng).unwrap();
    let heap: u64 = *[256u64, 1024, 1000, 4096, 70_000].choose(rng).unwrap();
    if !exec_x(out, s, &gas, raw_of(op::cfei(ext)), Value::Null) { return false; }
    if shrink > 0 && !exec_x(out, s, &gas, raw_of(op::cfsi(shrink)), Value::Null) { return false; }
    let mut sets = gas.to_vec();
    sets.push((RT_ as usize, heap));
    exec_x(out, s, &sets, raw_of(op::aloc(RegId::new(RT_))), Value::Null)
}

fn contracts_json(st: &MemoryStorage, ids: &[ContractId]) -> Value {
    use fuel_storage::StorageAsRef;
    let mut o = Map::new();
    for id in ids {
        let code: Vec<u8> = st.storage::<ContractsRawCode>().get(id).ok().flatten().map(|c| c.as_ref().as_ref().to_vec()).unwrap_or_default();
        o.insert(hx(id), json!({"code": hx(&code), "bal": {}}));
    }
    Value::Object(o)
}

/// exec-mode session INSIDE a contract frame: the script allocates heap, really CALLs a contract (every instruction through
/// `Interpreter::instruction`), and the session continues in the callee, whose heap ends where the caller's begins
fn session_in_call(out: &mut Out, run: u64, rng: &mut StdRng, random_schedule: bool, driver: &str) -> Option<Sess> {
    let mut tb = TestBuilder::new(rng.gen());
    let mut params = ConsensusParameters::standard();
    if random_schedule { let g = drivers::random_gas(rng, 40); tb.with_gas_costs(g.clone()); params.set_gas_costs(g); }
    let cur = pick_height(rng);
    let coinbase = ContractId::new(rand32(rng));
    tb.storage(MemoryStorage::new(cur.into(), coinbase));
    let a = tb.setup_contract(vec![op::ret(RegId::ONE)], None, None).contract_id;
    let caller_heap: u32 = *[64u32, 640, 4096].choose(rng).unwrap();
    let sc: Vec<Instruction> = vec![
        op::gtf_args(0x20, RegId::ZERO, GTFArgs::ScriptData), op::movi(0x24, caller_heap), op::aloc(0x24), op::addi(0x21, 0x20, 48),
        op::call(0x20, RegId::ZERO, 0x21, RegId::CGAS), op::ret(RegId::ONE),
    ];
    let mut data = Call::new(a, 0, 0).to_bytes();
    data.extend([0u8; 32]);
    tb.start_script(sc, data).gas_price(0).script_gas_limit(10_000_000).contract_input(a).fee_input().contract_output(&a);
    let checked = tb.build();
    let mut storage = tb.get_storage().clone();
    storage.commit();
    let w = World { params, gas_price: 0, storage, block_height: u32::from(tb.get_block_height()) };
    let ready = checked.into_ready(w.gas_price, w.params.gas_costs(), w.params.fee_params(), Some(w.block_height.into())).ok()?;
    let mut vm = Vm::<MemoryStorage>::with_storage(MemoryInstance::new(), w.storage.clone(), w.iparams());
    vm.init_script(ready).ok()?;
    let s0 = snap(&vm);
    let heights = heights_of_interest(rng, cur);
    out.ev(json!({"ev": "Seg"}));
    out.ev(json!({"ev": "Init", "run": run, "kind": "exec", "env": env_json(&vm, &w), "regs": regs_json(&s0.regs),
                  "stack": hx(&s0.stack), "hp": s0.hp, "tx": hx(vm.transaction().to_bytes()), "early": false, "driver": driver,
                  "contracts": contracts_json(vm.as_ref(), &[a]), "inputs": [hx(a)], "chain": chain_json(vm.as_ref(), &heights)}));
    let mut s = Sess { vm, pc0: 0, prev_hp: MEM, run, i: 0, heights, cur_height: cur };
    // the script's own instructions, one by one, until the CALL has entered the callee
    for _ in 0..16 {
        let pre = snap(&s.vm);
        let word = read_word(&pre, pre.regs[RPC])?;
        if !exec_x(out, &mut s, &[], word, Value::Null) { return None; }
        if word >> 24 == 0x2d && s.vm.registers()[RFP] != pre.regs[RFP] {
            s.prev_hp = pre.regs[RHP];
            s.pc0 = s.vm.registers()[RPC];
            if !frame_and_heap(out, &mut s, rng) { return None; }
            return Some(s);
        }
    }
    None
}

fn merge(mut a: Value, b: Value) -> Value {
    if let Some(o) = b.as_object() { for (k, v) in o { a[k] = v.clone(); } }
    a
}

/// vmcore::exec_one with driver-specific extra fields in the Step event
fn exec_x(out: &mut Out, s: &mut Sess, sets: &[(usize, u64)], raw: u32, extra: Value) -> bool {
    let mut po = Map::new();
    for (i, v) in sets { s.vm.registers_mut()[*i] = *v; po.insert(i.to_string(), Value::String(v.to_string())); }
    let pre = snap(&s.vm);
    let vm = &mut s.vm;
    let r = catch(std::panic::AssertUnwindSafe(|| vm.instruction::<u32, false>(raw)));
    let i = s.i;
    s.i += 1;
    match r {
        Ok(res) => {
            let post = snap(&s.vm);
            let rc: Vec<Receipt> = s.vm.receipts().to_vec();
            let mut ev = merge(step_event(s.run, i, "exec", &pre, &post, Some(raw), &rc), out_of_execute(&res));
            ev["poke"] = Value::Object(po);
            let ev = merge(ev, extra);
            out.ev(ev);
            matches!(res, Ok(ExecuteState::Proceed))
        }
        Err(m) => { out.ev(json!({"ev": "HostPanic", "run": s.run, "where": "instruction", "i": i, "msg": m, "word": format!("{:08x}", raw), "poke": Value::Object(po)})); false }
    }
}

fn mem_poke(out: &mut Out, s: &mut Sess, addr: u64, bytes: &[u8]) -> bool {
    if bytes.is_empty() { return true; }
    match s.vm.memory_mut().write_noownerchecks(addr, bytes.len()) {
        Ok(sl) => {
            sl.copy_from_slice(bytes);
            out.ev(json!({"ev": "MemPoke", "run": s.run, "addr": addr, "bytes": hx(bytes)}));
            true
        }
        Err(_) => false,
    }
}

fn mem_get(s: &Sess, addr: u64, n: usize) -> Option<Vec<u8>> { s.vm.memory().read(addr, n).ok().map(|x| x.to_vec()) }

// ---- addresses ----
/// an address at which `w` bytes are accessible AND owned; boundary-biased (ending exactly at $sp, starting exactly at $hp /
/// $ssp, ending exactly where the owned heap ends)
fn owned_addr(rng: &mut StdRng, l: &Lay, w: u64) -> u64 {
    let heap_end = l.prev_hp;
    let stack_ok = l.sp - l.ssp >= w && w > 0;
    let heap_ok = heap_end - l.hp >= w && heap_end > l.hp;
    let c = rng.gen_range(0..12);
    let a = match c {
        0 if stack_ok => l.sp - w,
        1 if stack_ok => l.ssp,
        2 if heap_ok => l.hp,
        3 if heap_ok => heap_end - w,
        4 | 5 | 6 if stack_ok => { let room = l.sp - l.ssp - w; l.ssp + if room == 0 { 0 } else { rng.gen_range(0..=room) } }
        7 if stack_ok => { let room = (l.sp - l.ssp - w) / 8; l.ssp + 8 * if room == 0 { 0 } else { rng.gen_range(0..=room) } }
        _ if heap_ok => { let room = (heap_end - l.hp - w).min(8192); l.hp + if room == 0 { 0 } else { rng.gen_range(0..=room) } }
        _ if stack_ok => l.ssp,
        _ => l.hp,
    };
    a
}
/// an address at which `w` bytes are readable; boundary-biased (ending at the stack extent, starting at $hp, ending at 2^26, 0)
fn readable_addr(rng: &mut StdRng, l: &Lay, w: u64) -> u64 {
    let stack_ok = l.slen >= w;
    let heap_ok = MEM - l.hp >= w;
    match rng.gen_range(0..12) {
        0 if stack_ok => l.slen - w,
        1 if heap_ok => l.hp,
        2 if heap_ok => MEM - w,
        3 if stack_ok => 0,
        4 | 5 if stack_ok => rng.gen_range(0..=(l.slen - w)),
        6 | 7 | 8 if stack_ok && l.slen - w >= l.ssp => rng.gen_range(l.ssp..=(l.slen - w)),
        _ if heap_ok => l.hp + rng.gen_range(0..=((MEM - l.hp - w).min(8192))),
        _ if stack_ok => 0,
        _ => l.hp,
    }
}
/// an address chosen to be wrong, or at least unusual, for a `w`-byte access (w >= 1)
fn odd_addr(rng: &mut StdRng, l: &Lay, w: u64) -> u64 {
    let w = w.max(1).min(1 << 20);
    let gap_mid = (l.slen + l.hp) / 2;
    match rng.gen_range(0..34) {
        0 => 0,
        1 => rng.gen_range(0..l.ssp.saturating_sub(w).max(1)),
        2 => l.ssp.saturating_sub(w),               // last bytes below the frame: readable, not owned
        3 => l.ssp.saturating_sub(1),               // straddles $ssp
        4 => l.sp.saturating_sub(w) + 1,            // straddles $sp
        5 => l.sp.saturating_sub(w),                // last owned bytes of the frame
        6 => l.sp,                                  // first byte after the frame
        7 => l.slen.saturating_sub(w),              // last accessible stack bytes
        8 => l.slen.saturating_sub(w) + 1,          // straddles the stack extent
        9 => l.slen,
        10 => l.slen + 100,
        11 => gap_mid,
        12 => l.hp.saturating_sub(w),               // just below the heap
        13 => l.hp - 1,                             // straddles $hp
        14 => l.hp.saturating_sub(w / 2 + 1),
        15 => l.hp,
        16 => l.prev_hp.saturating_sub(w),          // last owned heap bytes
        17 => l.prev_hp.saturating_sub(w) + 1,      // straddles the end of the owned heap (caller's heap / end of memory)
        18 => l.prev_hp.min(MEM - 1),               // the caller's heap: readable, not owned
        19 => MEM - w,
        20 => MEM - w + 1,                          // crosses the end of memory
        21 => MEM - 1,
        22 => MEM,
        23 => MEM + 1,
        24 => u64::MAX,
        25 => u64::MAX - w,
        26 => u64::MAX - w + 1,                     // wraps 2^64
        27 => 1 << 32,
        28 => 1 << 63,
        29 => (l.prev_hp + (MEM - l.prev_hp) / 2).min(MEM - 1),
        _ => rng.gen_range(0..MEM),
    }
}

struct Gas { cgas: u64, ggas: u64 }
fn pick_gas(rng: &mut StdRng) -> Gas {
    let cgas = match rng.gen_range(0..16) { 0 => rng.gen_range(0..6), 1 => rng.gen_range(0..120), 2 => rng.gen_range(0..4000), _ => 50_000_000 };
    Gas { cgas, ggas: cgas + [0u64, 0, 1, 1000][rng.gen_range(0..4)] }
}

/// one operand: a memory range the instruction reads / writes
#[derive(Clone)]
struct Role { size: u64, owned: bool, data: Option<Vec<u8>> }

/// choose addresses for the roles (at most one aimed badly, rarely two), place the data, return the addresses
fn place(out: &mut Out, s: &mut Sess, rng: &mut StdRng, roles: &[Role]) -> Vec<u64> {
    let l = lay_of(&s.vm, s.prev_hp);
    let odd: Option<usize> = if rng.gen_range(0..100) < 24 { Some(rng.gen_range(0..roles.len())) } else { None };
    let two = rng.gen_range(0..100) < 3;
    let mut addr = vec![0u64; roles.len()];
    // sources first, destinations last (a destination may deliberately overlap a source)
    for (k, r) in roles.iter().enumerate() {
        let bad = odd == Some(k) || (two && rng.gen_bool(0.5));
        addr[k] = if bad { odd_addr(rng, &l, r.size) }
                  else if r.owned { owned_addr(rng, &l, r.size) }
                  else if rng.gen_range(0..10) == 0 && k > 0 { addr[rng.gen_range(0..k)] }      // aliasing another operand
                  else { readable_addr(rng, &l, r.size) };
    }
    for (k, r) in roles.iter().enumerate() {
        if let Some(d) = &r.data { if rng.gen_range(0..100) < 96 { mem_poke(out, s, addr[k], d); } }
    }
    addr
}

/// register fields: usually the scratch registers; sometimes system registers as sources, reserved / aliased destinations
fn reg_fields(rng: &mut StdRng, dest_is_reg: bool) -> (u8, u8, u8, u8) {
    let mut ra = RA_;
    let (mut rb, mut rc, mut rd) = (RB_, RC_, RD_);
    if dest_is_reg {
        ra = match rng.gen_range(0..14) { 0 => rng.gen_range(0..16), 1 => RB_, 2 => RC_, 3 => 63, 4 => RD_, _ => RA_ };
    } else {
        match rng.gen_range(0..40) { 0 => ra = RHP as u8, 1 => ra = RSSP as u8, 2 => ra = RZERO as u8, 3 => ra = RSP as u8, 4 => ra = RB_, 5 => ra = RCGAS as u8, _ => {} }
    }
    match rng.gen_range(0..40) { 0 => rb = RZERO as u8, 1 => rb = RONE as u8, 2 => rb = RHP as u8, 3 => rb = RSSP as u8, 4 => rb = RC_, 5 => rb = RCGAS as u8, _ => {} }
    match rng.gen_range(0..40) { 0 => rc = RZERO as u8, 1 => rc = RONE as u8, 2 => rc = RHP as u8, 3 => rc = RSSP as u8, 4 => rc = RB_, 5 => rc = RGGAS as u8, _ => {} }
    match rng.gen_range(0..40) { 0 => rd = RZERO as u8, 1 => rd = RONE as u8, 2 => rd = RHP as u8, 3 => rd = RB_, _ => {} }
    (ra, rb, rc, rd)
}

/// execute one prepared case; afterwards sometimes repeat it with exactly the gas it used and with one unit less
fn run_case(out: &mut Out, s: &mut Sess, rng: &mut StdRng, opc: u8, vals: [u64; 4], dest_is_reg: bool, nregs: usize, exp: Value) -> bool {
    run_case_gas(out, s, rng, opc, vals, dest_is_reg, nregs, exp, None)
}
#[allow(clippy::too_many_arguments)]
fn run_case_gas(out: &mut Out, s: &mut Sess, rng: &mut StdRng, opc: u8, vals: [u64; 4], dest_is_reg: bool, nregs: usize, exp: Value, gas: Option<Gas>) -> bool {
    let (ra, rb, rc, rd) = reg_fields(rng, dest_is_reg);
    let g = match gas { Some(g) => g, None => pick_gas(rng) };
    let mut sets: Vec<(usize, u64)> = vec![(RA_ as usize, vals[0]), (RB_ as usize, vals[1]), (RC_ as usize, vals[2]), (RD_ as usize, vals[3]),
        (RPC, s.pc0), (RCGAS, g.cgas), (RGGAS, g.ggas), (ROF, rng.gen_range(0..3)), (RERR, rng.gen_range(0..3)), (RFLAG, rng.gen_range(0..4))];
    let f = [ra, rb, rc, rd];
    let raw = enc4(opc, f[0], if nregs > 1 { f[1] } else { 0 }, if nregs > 2 { f[2] } else { 0 }, if nregs > 3 { f[3] } else { 0 });
    // the expectation refers to the scratch registers' contents: drop it when a register field was redirected
    let plain = ra == RA_ && (nregs < 2 || rb == RB_) && (nregs < 3 || rc == RC_) && (nregs < 4 || rd == RD_);
    let x = if plain && !exp.is_null() { json!({"exp": exp}) } else { Value::Null };
    let ok = exec_x(out, s, &sets, raw, x.clone());
    if ok && g.cgas >= 1_000_000 && rng.gen_range(0..100) < 12 {
        // (an instruction with a memory destination may have overwritten its own operands: the expectation about the first
        //  execution does not carry over)
        let x = if matches!(opc, OP_ED19 | OP_EPAR) { x } else { Value::Null };
        let used = g.cgas - s.vm.registers()[RCGAS];
        for c in [used, used.wrapping_sub(1)] {
            if c > used { continue; }
            for e in sets.iter_mut() { if e.0 == RCGAS { e.1 = c; } if e.0 == RGGAS { e.1 = c + 5; } }
            exec_x(out, s, &sets, raw, x.clone());
        }
    }
    ok
}

// ---- S256 / K256 ----
fn hash_case(out: &mut Out, s: &mut Sess, rng: &mut StdRng) {
    let l = lay_of(&s.vm, s.prev_hp);
    let opc = if rng.gen_bool(0.5) { OP_S256 } else { OP_K256 };
    let heap = MEM - l.hp;
    let len: u64 = match rng.gen_range(0..40) {
        0..=15 => *[0u64, 1, 2, 31, 32, 33, 55, 56, 57, 63, 64, 65, 100, 111, 112, 119, 120, 127, 128, 135, 136, 137, 200, 271, 272, 273, 1000].choose(rng).unwrap(),
        16..=25 => rng.gen_range(0..600),
        26 | 27 => heap,
        28 => heap + 1,
        29 => l.slen,
        30 => l.slen + 1,
        31 => MEM,
        32 => MEM + 1,
        33 => u64::MAX,
        34 => 1 << 32,
        35 => MEM - 1,
        _ => rng.gen_range(0..5000),
    };
    let data: Vec<u8> = (0..len.min(600)).map(|_| rng.gen::<u8>()).collect();
    let addr = place(out, s, rng, &[Role { size: len, owned: false, data: Some(data) }, Role { size: 32, owned: true, data: None }]);
    run_case(out, s, rng, opc, [addr[1], addr[0], len, 0], false, 3, Value::Null);
}

// ---- ECK1 / ECR1 ----
fn r1_pk(secret: &B32) -> Option<[u8; 64]> {
    let sk = *secret;
    catch(move || {
        let m = Message::from_bytes([7u8; 32]);
        let key = TryFrom::try_from(&sk[..]).ok()?;
        let _ = fuel_crypto::secp256r1::sign_prehashed(&key, &m); // fixes the key type
        Some(fuel_crypto::secp256r1::encode_pubkey(*key.verifying_key()))
    }).ok().flatten()
}
fn r1_sign(secret: &B32, m: &B32) -> Option<[u8; 64]> {
    let (sk, mm) = (*secret, *m);
    catch(move || {
        let key = TryFrom::try_from(&sk[..]).ok()?;
        fuel_crypto::secp256r1::sign_prehashed(&key, &Message::from_bytes(mm)).ok().map(|b| *b)
    }).ok().flatten()
}
fn k1_pk(secret: &B32) -> Option<[u8; 64]> { SecretKey::try_from(&secret[..]).ok().map(|s| *s.public_key()) }
fn k1_sign(secret: &B32, m: &B32) -> Option<[u8; 64]> {
    let sk = SecretKey::try_from(&secret[..]).ok()?;
    let mm = *m;
    catch(move || *Signature::sign(&sk, &Message::from_bytes(mm))).ok()
}

fn sig_case(out: &mut Out, s: &mut Sess, rng: &mut StdRng) {
    let k1 = rng.gen_bool(0.5);
    let n = if k1 { k1_n() } else { r1_n() };
    // the signer
    let secret: B32 = match rng.gen_range(0..10) { 0 => be_u64(1), 1 => be_u64(3), 2 => be_sub(&n, &be_u64(2)).0, _ => rand32(rng) };
    let pk = if k1 { k1_pk(&secret) } else { r1_pk(&secret) };
    let msg: B32 = match rng.gen_range(0..14) {
        0 => [0u8; 32], 1 => be_u64(1), 2 => n, 3 => be_add(&n, &be_u64(1)).0, 4 => [0xff; 32], 5 => be_sub(&n, &be_u64(1)).0,
        6 => { let mut m = [0u8; 32]; rng.fill(&mut m[16..]); m }       // small: m + n still fits 256 bits
        _ => rand32(rng),
    };
    let sig = if k1 { k1_sign(&secret, &msg) } else { r1_sign(&secret, &msg) };
    let (mut sg, mut mg, mut exp) = match (pk, sig) {
        (Some(pk), Some(sig)) => (sig, msg, json!({"k": "key", "key": hx(pk)})),
        _ => { let mut x = [0u8; 64]; rng.fill(&mut x[..]); (x, msg, Value::Null) }
    };
    let keyhex = pk.map(|p| hx(p));
    let notkey = |kh: &Option<String>| match kh { Some(k) => json!({"k": "notkey", "key": k}), None => Value::Null };
    let signed = !exp.is_null();
    match rng.gen_range(0..34) {
        0..=11 => {}                                                                              // as signed
        12 => { let i = rng.gen_range(0..256); sg[i / 8] ^= 1 << (i % 8); if signed { exp = notkey(&keyhex); } }            // a bit of r
        13 => { let i = rng.gen_range(257..512); sg[i / 8] ^= 0x80 >> (i % 8); if signed { exp = notkey(&keyhex); } }       // a bit of s
        14 => { sg[32] ^= 0x80; if signed { exp = notkey(&keyhex); } }                                                      // the recovery bit
        15 => { let i = rng.gen_range(0..256); mg[i / 8] ^= 1 << (i % 8); if signed { exp = notkey(&keyhex); } }            // a bit of the message
        16 => { mg = rand32(rng); if signed { exp = notkey(&keyhex); } }
        17 | 18 => {                                                                              // s in the window n/2 < s < 2^255 ("high s")
            let v = sg[32] & 0x80;
            let mut half = n;                                                                     // floor(n / 2)
            let mut carry = 0u8;
            for b in half.iter_mut() { let t = *b; *b = (t >> 1) | (carry << 7); carry = t & 1; }
            let sv = if rng.gen_bool(0.5) { be_add(&half, &be_u64(rng.gen_range(1..u64::MAX))).0 }
                     else { let mut t = [0xffu8; 32]; t[0] = 0x7f; be_sub(&t, &be_u64(rng.gen_range(0..u64::MAX))).0 };
            if sv[0] & 0x80 == 0 { sg[32..].copy_from_slice(&sv); sg[32] |= v; exp = Value::Null; }
        }
        19 => { sg[..32].copy_from_slice(&[0u8; 32]); exp = json!({"k": "fail"}); }              // r = 0
        20 => { let v = sg[32] & 0x80; sg[32..].copy_from_slice(&[0u8; 32]); sg[32] |= v; exp = json!({"k": "fail"}); }   // s = 0
        21 => { sg[..32].copy_from_slice(&n); exp = json!({"k": "fail"}); }                      // r = n
        22 => { sg[..32].copy_from_slice(&[0xff; 32]); exp = json!({"k": "fail"}); }
        23 => { let v = sg[32] & 0x80; for b in sg[33..].iter_mut() { *b = 0xff; } sg[32] = 0x7f | v; exp = Value::Null; }   // s = 2^255 - 1
        24 => { sg[..32].copy_from_slice(&be_sub(&n, &be_u64(1)).0); exp = Value::Null; }        // r = n - 1
        25 => { sg[..32].copy_from_slice(&be_u64(rng.gen_range(1..9))); exp = Value::Null; }     // tiny r
        26 => { sg = [0u8; 64]; exp = json!({"k": "fail"}); }
        27 => { rng.fill(&mut sg[..]); exp = Value::Null; }
        28 => { let (m2, c) = be_add(&mg, &n); if !c { mg = m2; } }                               // the same scalar z mod n: still the signer
        29 => { sg[32..].copy_from_slice(&{ let mut t = n; t[0] &= 0x7f; t }); exp = Value::Null; }
        30 => { if !k1 { if let Some(x) = k1_sign(&secret, &msg) { sg = x; exp = Value::Null; } } else if let Some(x) = r1_sign(&secret, &msg) { sg = x; exp = Value::Null; } }   // a signature of the other curve
        _ => {}
    }
    let junk: Option<Vec<u8>> = if rng.gen_bool(0.3) { Some((0..64).map(|_| rng.gen::<u8>()).collect()) } else { None };
    let addr = place(out, s, rng, &[Role { size: 64, owned: false, data: Some(sg.to_vec()) }, Role { size: 32, owned: false, data: Some(mg.to_vec()) },
                                    Role { size: 64, owned: true, data: junk }]);
    // the expectation is about the bytes the instruction actually reads: keep it only if both operands are in place
    let ok = mem_get(s, addr[0], 64).map(|x| x == sg.to_vec()).unwrap_or(false) && mem_get(s, addr[1], 32).map(|x| x == mg.to_vec()).unwrap_or(false);
    run_case(out, s, rng, if k1 { OP_ECK1 } else { OP_ECR1 }, [addr[2], addr[0], addr[1], 0], false, 3, if ok { exp } else { Value::Null });
}

// ---- ED19 ----
fn ed_case(out: &mut Out, s: &mut Sess, rng: &mut StdRng) {
    use ed25519_dalek::Signer;
    let seed: B32 = match rng.gen_range(0..8) { 0 => [0u8; 32], 1 => [0xff; 32], _ => rand32(rng) };
    let sk = ed25519_dalek::SigningKey::from_bytes(&seed);
    let mut pk = sk.verifying_key().to_bytes();
    let len: usize = match rng.gen_range(0..12) { 0 => 0, 1 => 1, 2 => 31, 3 | 4 => 32, 5 => 33, 6 => 64, 7 => 200, 8 => 1000, _ => rng.gen_range(0..300) };
    let mut m: Vec<u8> = (0..len).map(|_| rng.gen::<u8>()).collect();
    let mut sig = sk.sign(&m).to_bytes();
    let mut verdict = Some("0");
    let mut rd = len as u64;
    match rng.gen_range(0..30) {
        0..=11 => {}
        12 => { let i = rng.gen_range(0..256); sig[i / 8] ^= 1 << (i % 8); verdict = Some("1"); }            // R
        13 => { let i = rng.gen_range(256..512); sig[i / 8] ^= 1 << (i % 8); verdict = Some("1"); }          // S
        14 => { if !m.is_empty() { let i = rng.gen_range(0..8 * m.len()); m[i / 8] ^= 1 << (i % 8); verdict = Some("1"); } }
        15 => { let i = rng.gen_range(0..256); pk[i / 8] ^= 1 << (i % 8); verdict = Some("1"); }
        16 => {                                                                                              // S + L (the same scalar, not canonical)
            let mut sle = [0u8; 32]; sle.copy_from_slice(&sig[32..]); sle.reverse();
            let mut l = ed_l_le(); l.reverse();
            let (t, c) = be_add(&sle, &l);
            if !c { let mut t = t; t.reverse(); sig[32..].copy_from_slice(&t); verdict = Some("1"); }
        }
        17 => { sig = [0u8; 64]; verdict = None; }
        18 => { pk = [0u8; 32]; verdict = None; }
        19 => { pk = { let mut p = [0u8; 32]; p[0] = 1; p }; verdict = None; }                              // the neutral element as key
        20 => { rng.fill(&mut sig[..]); verdict = None; }
        21 => { rd = len as u64 + 1; verdict = Some("1"); }                                                  // one byte more than signed
        22 => { if len > 1 { rd = len as u64 - 1; verdict = Some("1"); } }
        23 => { rd = [MEM, u64::MAX, 1 << 32, MEM + 1][rng.gen_range(0..4)]; verdict = None; }
        24 => { let other = ed25519_dalek::SigningKey::from_bytes(&rand32(rng)); pk = other.verifying_key().to_bytes(); verdict = Some("1"); }
        _ => {}
    }
    // $rD = 0 stands for 32: a 32-byte message given with length 0 is verified as such; a signature of the empty message is
    // then checked against 32 bytes it was not made for
    if rd == 0 && verdict.is_some() { verdict = Some("1"); }
    if len == 32 && rd == 32 && rng.gen_bool(0.5) { rd = 0; }
    let roles = [Role { size: 32, owned: false, data: Some(pk.to_vec()) }, Role { size: 64, owned: false, data: Some(sig.to_vec()) },
                 Role { size: if rd == 0 { 32 } else { rd }, owned: false, data: Some(m.clone()) }];
    let addr = place(out, s, rng, &roles);
    let (a, b, c) = (addr[0], addr[1], addr[2]);
    // the expectation is about the bytes the instruction actually reads: keep it only if all three operands are in place
    let ok = mem_get(s, a, 32).map(|x| x == pk.to_vec()).unwrap_or(false) && mem_get(s, b, 64).map(|x| x == sig.to_vec()).unwrap_or(false)
        && (m.is_empty() || mem_get(s, c, m.len()).map(|x| x == m).unwrap_or(false));
    let exp = match (ok, verdict) { (true, Some(v)) => json!({"k": "err", "v": v}), _ => Value::Null };
    run_case(out, s, rng, OP_ED19, [a, b, c, rd], false, 4, exp);
}

// ---- ECOP ----
/// known-valid G1 points of a session: the generator and whatever earlier ECOP steps of this session wrote
struct Pool { g1: Vec<[u8; 64]> }
fn g1_gen() -> [u8; 64] { let mut g = [0u8; 64]; g[31] = 1; g[63] = 2; g }
fn g1_pick(rng: &mut StdRng, pool: &Pool) -> [u8; 64] {
    match rng.gen_range(0..12) { 0 => [0u8; 64], 1 => g1_gen(), _ => *pool.g1.choose(rng).unwrap() }
}
fn g1_bad(rng: &mut StdRng, pool: &Pool) -> [u8; 64] {
    let mut p = g1_pick(rng, pool);
    let p_mod = bn_p();
    match rng.gen_range(0..9) {
        0 => { let mut x = [0u8; 32]; x.copy_from_slice(&p[..32]); p[..32].copy_from_slice(&be_add(&x, &p_mod).0); }      // x + p (the same residue, not reduced)
        1 => { let mut y = [0u8; 32]; y.copy_from_slice(&p[32..]); p[32..].copy_from_slice(&be_add(&y, &p_mod).0); }
        2 => { p[63] ^= 1; }                                                                                                // off the curve
        3 => { p[..32].copy_from_slice(&p_mod); }
        4 => { p[32..].copy_from_slice(&p_mod); }
        5 => { p = [0u8; 64]; p[63] = 1; }                                                                                  // (0, 1)
        6 => { p = [0u8; 64]; p[31] = 1; }                                                                                  // (1, 0)
        7 => { p = [0xff; 64]; }
        _ => { rng.fill(&mut p[..]); }
    }
    p
}
fn ecop_case(out: &mut Out, s: &mut Sess, rng: &mut StdRng, pool: &mut Pool) {
    let add = rng.gen_bool(0.45);
    let mut exp = Value::Null;
    let p1 = if rng.gen_range(0..100) < 10 { g1_bad(rng, pool) } else { g1_pick(rng, pool) };
    let mut operand: Vec<u8> = p1.to_vec();
    if add {
        let p2 = match rng.gen_range(0..12) {
            0 => p1,                                                                      // doubling
            1 => { if p1 != [0u8; 64] { exp = json!({"k": "mem", "bytes": hx([0u8; 64])}); } g1_neg(&p1) }   // P + (-P) = O
            2 => { exp = json!({"k": "mem", "bytes": hx(p1)}); [0u8; 64] }              // P + O = P
            3 => g1_bad(rng, pool),
            _ => g1_pick(rng, pool),
        };
        operand.extend(p2);
    } else {
        let r = bn_r();
        let k: B32 = match rng.gen_range(0..16) {
            0 => { exp = json!({"k": "mem", "bytes": hx([0u8; 64])}); [0u8; 32] }
            1 => { exp = json!({"k": "mem", "bytes": hx(p1)}); be_u64(1) }
            2 => be_u64(2),
            3 => { exp = json!({"k": "mem", "bytes": hx([0u8; 64])}); r }
            4 => { exp = json!({"k": "mem", "bytes": hx(p1)}); be_add(&r, &be_u64(1)).0 }
            5 => { exp = json!({"k": "mem", "bytes": hx(g1_neg(&p1))}); be_sub(&r, &be_u64(1)).0 }
            6 => [0xff; 32],
            7 => be_u64(rng.gen_range(0..1000)),
            8 => be_u64(rng.gen()),
            _ => rand32(rng),
        };
        operand.extend(k);
    }
    // an expectation only makes sense for a valid first point; the specification decides validity, so the driver keeps the
    // expectation only for points it took from the pool
    if !pool.g1.contains(&p1) && p1 != [0u8; 64] && p1 != g1_gen() { exp = Value::Null; }
    let curve: u64 = if rng.gen_range(0..100) < 6 { [1u64, 2, 1 << 32, u64::MAX][rng.gen_range(0..4)] } else { 0 };
    let optype: u64 = if rng.gen_range(0..100) < 6 { [2u64, 3, 1 << 32, u64::MAX][rng.gen_range(0..4)] } else if add { 0 } else { 1 };
    let size = operand.len() as u64;
    let addr = place(out, s, rng, &[Role { size, owned: false, data: Some(operand.clone()) }, Role { size: 64, owned: true, data: None }]);
    let ok = mem_get(s, addr[0], operand.len()).map(|x| x == operand).unwrap_or(false) && curve == 0 && optype < 2;
    let done = run_case(out, s, rng, OP_ECOP, [addr[1], curve, optype, addr[0]], false, 4, if ok { exp } else { Value::Null });
    // a result the VM wrote is a new known point of the session
    if ok && done { if let Some(v) = mem_get(s, addr[1], 64) { let mut q = [0u8; 64]; q.copy_from_slice(&v); if q != [0u8; 64] && pool.g1.len() < 64 && !pool.g1.contains(&q) { pool.g1.push(q); } } }
}

/// make [k]G / sums through the VM's own ECOP (recorded and validated like every other step); returns the 64 result bytes
fn vm_ecop(out: &mut Out, s: &mut Sess, add: bool, operand: &[u8]) -> Option<[u8; 64]> {
    let l = lay_of(&s.vm, s.prev_hp);
    let src = l.ssp;
    let dst = l.ssp + 192;
    if l.sp - l.ssp < 256 { return None; }
    if !mem_poke(out, s, src, operand) { return None; }
    let sets = [(RA_ as usize, dst), (RB_ as usize, 0), (RC_ as usize, if add { 0 } else { 1 }), (RD_ as usize, src), (RPC, s.pc0), (RCGAS, 50_000_000), (RGGAS, 50_000_000)];
    if !exec_x(out, s, &sets, enc4(OP_ECOP, RA_, RB_, RC_, RD_), Value::Null) { return None; }
    let v = mem_get(s, dst, 64)?;
    let mut q = [0u8; 64];
    q.copy_from_slice(&v);
    Some(q)
}
fn vm_mul_g(out: &mut Out, s: &mut Sess, k: &B32) -> Option<[u8; 64]> {
    let mut o = g1_gen().to_vec();
    o.extend(k);
    vm_ecop(out, s, false, &o)
}

// ---- EPAR ----
fn epar_case(out: &mut Out, s: &mut Sess, rng: &mut StdRng, pool: &mut Pool) {
    let q = g2_gen();
    let nq = g2_neg(&q);
    let mut elems: Vec<([u8; 64], [u8; 128])> = vec![];
    let mut exp = Value::Null;
    let p = if pool.g1.is_empty() { g1_gen() } else { *pool.g1.choose(rng).unwrap() };
    let shape = match rng.gen_range(0..30) { x if x < 22 => x, 22 | 23 | 24 => 3, 25 | 26 => 4, 27 => 1, 28 => 2, _ => 9 };
    match shape {
        0 => {}                                                                                   // the empty product
        1 => { elems.push((p, q)); elems.push((g1_neg(&p), q)); }                                 // e(P,Q) e(-P,Q) = 1
        2 => { elems.push((p, q)); elems.push((p, q)); }                                          // e(P,Q)^2 != 1
        3 => { elems.push((p, q)); elems.push((p, nq)); exp = json!({"k": "reg", "v": "1"}); }    // e(P,Q) e(P,-Q) = 1
        4 => { elems.push((p, q)); elems.push((g1_neg(&p), nq)); exp = json!({"k": "reg", "v": "0"}); }   // e(P,Q)^2
        5 => { elems.push((p, q)); }
        6 => { elems.push(([0u8; 64], q)); }
        7 => { elems.push((p, [0u8; 128])); }
        8 => { elems.push(([0u8; 64], [0u8; 128])); elems.push((p, q)); elems.push(([0u8; 64], q)); elems.push((g1_neg(&p), q)); }
        9 | 10 => {                                                                               // aG, bG, -(a+b)G [or not] against one Q
            let (a, b) = (be_u64(rng.gen_range(1..1000)), be_u64(rng.gen_range(1..1000)));
            if let (Some(pa), Some(pb)) = (vm_mul_g(out, s, &a), vm_mul_g(out, s, &b)) {
                let mut o = pa.to_vec(); o.extend(pb);
                if let Some(sum) = vm_ecop(out, s, true, &o) {
                    let third = if shape == 9 { g1_neg(&sum) } else { sum };
                    let qq = if rng.gen_bool(0.5) { q } else { nq };
                    elems.push((pa, qq)); elems.push((pb, qq)); elems.push((third, qq));
                    elems.shuffle(rng);
                }
            }
        }
        11 => { elems.push((g1_bad(rng, pool), q)); }
        12 => { elems.push((p, q)); elems.push((g1_bad(rng, pool), q)); }
        13 => { elems.push((p, g2_off_subgroup())); }                                             // on the twist, outside the subgroup
        14 => { let mut b = q; b[127] ^= 1; elems.push((p, b)); }                                  // off the twist
        15 => { let mut b = q; let mut c = [0u8; 32]; c.copy_from_slice(&q[..32]); b[..32].copy_from_slice(&be_add(&c, &bn_p()).0); elems.push((p, b)); }   // not reduced
        16 => { let mut b = [0u8; 128]; rng.fill(&mut b[..]); elems.push((p, b)); }
        17 => { let mut b = q; b[..64].reverse(); elems.push((p, b)); }
        18 => { for _ in 0..rng.gen_range(1..5) { elems.push(([0u8; 64], [0u8; 128])); } }
        19 => { elems.push((p, q)); elems.push((p, g2_off_subgroup())); }
        _ => { elems.push((p, if rng.gen_bool(0.5) { q } else { nq })); elems.push((g1_neg(&p), if rng.gen_bool(0.5) { q } else { nq })); }
    }
    let mut bytes: Vec<u8> = vec![];
    for (a, b) in &elems { bytes.extend(a); bytes.extend(b); }
    let l = lay_of(&s.vm, s.prev_hp);
    let mut n = elems.len() as u64;
    // the count operand: usually the number of elements placed; sometimes more than the memory behind the pointer holds
    let odd_n = rng.gen_range(0..100) < 12;
    if odd_n {
        n = match rng.gen_range(0..8) { 0 => n + 1, 1 => (MEM - l.hp) / 192 + 1, 2 => (MEM - l.hp) / 192, 3 => MEM / 192 + 1, 4 => 1 << 32, 5 => u64::MAX, 6 => MEM, _ => n + 2 };
        exp = Value::Null;
    }
    let ident: u64 = if rng.gen_range(0..100) < 5 { [1u64, 2, 1 << 32, u64::MAX][rng.gen_range(0..4)] } else { 0 };
    let addr = place(out, s, rng, &[Role { size: (192 * elems.len() as u64).max(1), owned: false, data: Some(bytes.clone()) }]);
    let ok = ident == 0 && (bytes.is_empty() || mem_get(s, addr[0], bytes.len()).map(|x| x == bytes).unwrap_or(false));
    // a large count must not get past the charge (the pairing's element buffer is sized by it): little gas for those
    let g = if n >= 100_000 { Some(Gas { cgas: rng.gen_range(0..90_000), ggas: 100_000 }) } else { None };
    let v: u64 = rng.gen();
    run_case_gas(out, s, rng, OP_EPAR, [v, ident, n, addr[0]], true, 4, if ok { exp } else { Value::Null }, g);
}

// ---- BHEI / BHSH / CB / TIME ----
fn height_operand(rng: &mut StdRng, s: &Sess, big: bool) -> u64 {
    let c = s.cur_height as u64;
    if big { return [1u64 << 32, (1 << 32) + 1, u64::MAX, 1 << 63, u64::MAX - 1, (c + (1 << 32))][rng.gen_range(0..6)]; }
    match rng.gen_range(0..14) {
        0 => 0, 1 => c.saturating_sub(1), 2 | 3 => c, 4 => (c + 1).min(u32::MAX as u64), 5 => u32::MAX as u64, 6 => u32::MAX as u64 - 1,
        7 | 8 | 9 => *s.heights.choose(rng).unwrap(),
        10 => rng.gen_range(0..=c),                           // a height the Init event may not list
        _ => *s.heights.choose(rng).unwrap(),
    }
}
fn block_case(out: &mut Out, s: &mut Sess, rng: &mut StdRng) {
    match rng.gen_range(0..10) {
        0 | 1 => { let v: u64 = rng.gen(); run_case(out, s, rng, OP_BHEI, [v, 0, 0, 0], true, 1, Value::Null); }
        2 | 3 => { let addr = place(out, s, rng, &[Role { size: 32, owned: true, data: None }]); run_case(out, s, rng, OP_CB, [addr[0], 0, 0, 0], false, 1, Value::Null); }
        4 | 5 | 6 => {
            let h = height_operand(rng, s, false);
            let junk: Vec<u8> = (0..32).map(|_| rng.gen::<u8>()).collect();
            let junk = if rng.gen_bool(0.5) { Some(junk) } else { None };
            let addr = place(out, s, rng, &[Role { size: 32, owned: true, data: junk }]);
            run_case(out, s, rng, OP_BHSH, [addr[0], h, 0, 0], false, 2, Value::Null);
        }
        _ => { let big = rng.gen_range(0..8) == 0; let h = height_operand(rng, s, big); let v: u64 = rng.gen(); run_case(out, s, rng, OP_TIME, [v, h, 0, 0], true, 2, Value::Null); }
    }
}

/// BHSH with a height operand that is not a 32-bit number: every case in a segment of its own
fn blockbig(o: &Opts, out: &mut Out, run: &mut u64) {
    let mut rng = o.rng(4205);
    let n = if o.thorough() { 12 } else { 3 };
    for _ in 0..n {
        *run += 1;
        let mut s = match session(out, *run, &mut rng, false, "vmcrypto/blockbig") { Some(s) => s, None => continue };
        let h = height_operand(&mut rng, &s, true);
        let l = lay_of(&s.vm, s.prev_hp);
        let sets = [(RA_ as usize, l.ssp), (RB_ as usize, h), (RPC, s.pc0), (RCGAS, 1_000_000), (RGGAS, 1_000_000)];
        exec_x(out, &mut s, &sets, enc4(OP_BHSH, RA_, RB_, 0, 0), Value::Null);
    }
}

fn family(o: &Opts, out: &mut Out, run: &mut u64, part: &str) {
    let thorough = o.thorough();
    let salt = 4200 + PARTS.iter().position(|p| *p == part).unwrap() as u64;
    let mut rng = o.rng(salt);
    let reps = |quick: usize, full: usize| o.opt("--reps").and_then(|s| s.parse().ok()).unwrap_or(if thorough { full } else { quick });
    let (cases, per_session) = match part {
        "hash" => (reps(180, 2600), 90),
        "sig" => (reps(200, 2800), 100),
        "ed" => (reps(110, 1500), 55),
        "ecop" => (reps(150, 2000), 75),
        "epar" => (reps(60, 600), 30),
        "block" => (reps(180, 2000), 90),
        _ => (reps(140, 1600), 70),     // frame: a mixture of all families inside a contract frame
    };
    let mut done = 0usize;
    let mut sess_no = 0u64;
    while done < cases {
        *run += 1;
        let random_schedule = sess_no % 3 == 1;
        sess_no += 1;
        if sess_no > 10_000 { return; }
        let driver = format!("vmcrypto/{part}");
        let mut s = match if part == "frame" { session_in_call(out, *run, &mut rng, random_schedule, &driver) } else { session(out, *run, &mut rng, random_schedule, &driver) } { Some(s) => s, None => continue };
        let mut pool = Pool { g1: vec![] };
        if matches!(part, "ecop" | "epar" | "frame") {
            for _ in 0..3 { let k = rand32(&mut rng); if let Some(q) = vm_mul_g(out, &mut s, &k) { if q != [0u8; 64] { pool.g1.push(q); } } }
            if pool.g1.is_empty() { pool.g1.push(g1_gen()); }
        }
        let end = (done + if thorough { per_session * 3 } else { per_session }).min(cases);
        while done < end {
            match part {
                "hash" => hash_case(out, &mut s, &mut rng),
                "sig" => sig_case(out, &mut s, &mut rng),
                "ed" => ed_case(out, &mut s, &mut rng),
                "ecop" => ecop_case(out, &mut s, &mut rng, &mut pool),
                "epar" => epar_case(out, &mut s, &mut rng, &mut pool),
                "block" => block_case(out, &mut s, &mut rng),
                _ => match rng.gen_range(0..12) {
                    0 | 1 | 2 => hash_case(out, &mut s, &mut rng),
                    3 | 4 => sig_case(out, &mut s, &mut rng),
                    5 => ed_case(out, &mut s, &mut rng),
                    6 | 7 => ecop_case(out, &mut s, &mut rng, &mut pool),
                    8 => epar_case(out, &mut s, &mut rng, &mut pool),
                    _ => block_case(out, &mut s, &mut rng),
                },
            }
            done += 1;
        }
    }
}
