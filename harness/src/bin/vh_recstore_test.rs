//! Smoke test of the recording storage backend (recstore.rs).
//!
//! Deploys a small contract (SWW + SRW + BAL + LOG + RET) into a MemoryStorage with fuel-vm's
//! TestBuilder, then CALLs it from a script executed by an `Interpreter` over `RecStorage`.
//! Prints the recorded storage accesses, one JSON object per line, on stdout.  Then runs the
//! same transaction through a `Transactor`, and two predicates (one BSIZ, one SRW) over
//! `RecPredicateStorage` (their accesses are printed wrapped as {"predicate":..,"access":..}).
//! Exits 0 when the log shows the code read for the CALL, the state write/read and the assets
//! read, all carrying the id of the called contract, and the predicate runs touched nothing
//! but the blob; 1 otherwise (reasons on stderr).
#[path = "../recstore.rs"]
mod recstore;

use fuel_asm::{op, GTFArgs, RegId};
use fuel_tx::{
    BlobId, BlobIdExt, ConsensusParameters, Finalizable, Input, Receipt, Script, StorageSlot,
    TransactionBuilder,
};
use fuel_types::{canonical::Serialize, AssetId, Immediate18};
use fuel_vm::{
    checked_transaction::{CheckPredicateParams, Checked, EstimatePredicates, IntoChecked},
    interpreter::{predicates, Interpreter, InterpreterParams, MemoryInstance, NotSupportedEcal},
    prelude::Call,
    script_with_data_offset,
    storage::MemoryStorage,
    transactor::Transactor,
    util::test_helpers::TestBuilder,
    verification::Normal,
};
use rand::{rngs::StdRng, Rng, SeedableRng};
use recstore::{Access, RecPredicateStorage, RecStorage};

const STATUS: RegId = RegId::new(0x20);
const KEY: RegId = RegId::new(0x21);
const STATUS2: RegId = RegId::new(0x22);
const KEY2: RegId = RegId::new(0x23);
const WORD: u64 = 0xABCD;
const PRESET: u64 = 0x1234;
const CALL_LEN: u16 = 48; // ContractId ++ a ++ b
const BALANCE: u64 = 500;
const BLOB: &[u8] = b"recstore test blob";

fn main() {
    let mut builder = TestBuilder::new(2322u64);

    // The contract:
    //   SRW  slot 00..01 (pre-set by the Create transaction)      -> cold state read, hit
    //   SWW  slot 00..00 := WORD                                  -> state read (miss) + write
    //   SRW  slot 00..00                                          -> served by the interpreter's
    //                                                                storage_slot_cache: NO access
    //   BAL  of (this contract, forwarded asset); call frame: contract id at $fp, asset id at
    //        $fp + 32                                             -> assets read
    let contract = vec![
        op::movi(0x15, 32),
        op::aloc(0x15),
        op::move_(KEY2, RegId::HP),
        op::sb(KEY2, RegId::ONE, 31),
        op::srw(0x14, STATUS2, KEY2, 0),
        op::movi(0x15, 32),
        op::aloc(0x15),
        op::move_(KEY, RegId::HP),
        op::movi(0x10, WORD as Immediate18),
        op::sww(KEY, STATUS, 0x10),
        op::srw(0x11, STATUS, KEY, 0),
        op::addi(0x12, RegId::FP, 32),
        op::bal(0x13, 0x12, RegId::FP),
        op::log(0x11, 0x14, 0x13, STATUS),
        op::ret(RegId::ONE),
    ];
    let mut preset_key = [0u8; 32];
    preset_key[31] = 1;
    let mut preset_val = [0u8; 32];
    preset_val[..8].copy_from_slice(&PRESET.to_be_bytes());
    let contract_id = builder
        .setup_contract(
            contract,
            Some((AssetId::zeroed(), BALANCE)),
            Some(vec![StorageSlot::new(preset_key.into(), preset_val.into())]),
        )
        .contract_id;

    let (script, _) = script_with_data_offset!(
        data_offset,
        vec![
            op::movi(0x10, data_offset as Immediate18),
            op::addi(0x11, 0x10, CALL_LEN),
            op::call(0x10, RegId::ZERO, 0x11, RegId::CGAS),
            op::ret(RegId::ONE),
        ],
        builder.get_tx_params().tx_offset()
    );
    // script data: the Call structure, then the (all-zero) id of the forwarded asset
    let mut script_data = Call::new(contract_id, 0, 0).to_bytes();
    assert_eq!(script_data.len(), CALL_LEN as usize);
    script_data.extend_from_slice(AssetId::zeroed().as_ref());

    let checked: Checked<Script> = builder
        .start_script(script, script_data)
        .script_gas_limit(10_000_000)
        .contract_input(contract_id)
        .fee_input()
        .contract_output(&contract_id)
        .variable_output(AssetId::zeroed())
        .build();

    builder.setup_blob(BLOB.to_vec());
    let blob_id = BlobId::compute(BLOB);
    let storage: MemoryStorage = builder.get_storage().clone();
    let gas_price = 0;
    let consensus_params = ConsensusParameters::standard();

    // ---- Interpreter over RecStorage ------------------------------------------------------
    let rec = RecStorage::new(storage.clone());
    let log_handle = rec.log.clone();
    let mut vm = Interpreter::<MemoryInstance, RecStorage, Script, NotSupportedEcal, Normal>::with_storage(
        MemoryInstance::new(),
        rec,
        InterpreterParams::new(gas_price, &consensus_params),
    );
    let ready = checked
        .clone()
        .into_ready(gas_price, consensus_params.gas_costs(), consensus_params.fee_params(), None)
        .expect("into_ready");
    let receipts: Vec<Receipt> = {
        let state = vm.transact(ready).expect("transact");
        state.receipts().to_vec()
    };
    let log: Vec<Access> = std::mem::take(&mut *log_handle.borrow_mut());
    for a in &log {
        println!("{}", a.to_json());
    }

    let mut ok = true;
    let mut expect = |what: &str, cond: bool| {
        if !cond {
            eprintln!("FAIL: {what}");
            ok = false;
        }
    };

    let logged = receipts.iter().find_map(|r| match r {
        Receipt::Log { ra, rb, rc, rd, .. } => Some((*ra, *rb, *rc, *rd)),
        _ => None,
    });
    expect("contract logged (WORD, PRESET, BALANCE, 1)", logged == Some((WORD, PRESET, BALANCE, 1)));
    expect(
        "script succeeded",
        receipts.iter().any(|r| matches!(r, Receipt::ScriptResult { result, .. } if *result == fuel_tx::ScriptExecutionResult::Success)),
    );

    let cid: [u8; 32] = *contract_id;
    let mut state_key = cid.to_vec();
    state_key.extend_from_slice(&[0u8; 32]);
    let mut asset_key = cid.to_vec();
    asset_key.extend_from_slice(AssetId::zeroed().as_ref());

    expect(
        "code read for CALL with the contract id",
        log.iter().any(|a| a.table == "code" && a.is_read() && a.op.starts_with("read") && a.contract == Some(cid) && a.key == cid.to_vec()),
    );
    let mut preset_state_key = cid.to_vec();
    preset_state_key.extend_from_slice(&preset_key);
    let is_state = |a: &Access, key: &Vec<u8>| a.table == "state" && a.contract == Some(cid) && &a.key == key;
    expect(
        "SRW of the pre-set slot: one state read, hit, 32 bytes",
        log.iter().filter(|a| is_state(a, &preset_state_key)).map(|a| (a.is_read(), a.hit, a.len)).collect::<Vec<_>>()
            == vec![(true, Some(true), Some(32))],
    );
    // SWW: read (miss) then write of 32 bytes; the following SRW of the same slot is answered
    // from the interpreter's storage_slot_cache and never reaches the storage.
    expect(
        "SWW then SRW of the fresh slot: [read miss, write 32] and nothing else",
        log.iter().filter(|a| is_state(a, &state_key)).map(|a| (a.is_write(), a.hit, a.len)).collect::<Vec<_>>()
            == vec![(false, Some(false), None), (true, None, Some(32))],
    );
    expect(
        "assets read under contract id ++ asset id",
        log.iter().any(|a| a.table == "assets" && a.op == "get" && a.contract == Some(cid) && a.key == asset_key && a.hit == Some(true)),
    );
    expect(
        "every contract-keyed access concerns the called contract",
        log.iter().all(|a| a.contract.is_none() || a.contract == Some(cid)),
    );

    // ---- same transaction through a Transactor over RecStorage -----------------------------
    let mut txtor = Transactor::<MemoryInstance, RecStorage, Script, NotSupportedEcal, Normal>::new(
        MemoryInstance::new(),
        RecStorage::new(storage.clone()),
        InterpreterParams::new(gas_price, &consensus_params),
    );
    txtor.transact(checked.clone());
    expect("transactor: no error", txtor.error().is_none());
    let tlog = AsRef::<RecStorage>::as_ref(&txtor).take_log();
    let shape = |l: &[Access]| l.iter().map(|a| (a.table, a.op, a.key.clone())).collect::<Vec<_>>();
    expect("transactor: same access sequence as bare interpreter", shape(&tlog) == shape(&log));

    // ---- predicate execution over RecPredicateStorage ---------------------------------------
    // (1) the script above has no predicate inputs: nothing is executed, nothing is logged
    let pparams = CheckPredicateParams::from(&consensus_params);
    let pstore = RecPredicateStorage::new(storage);
    let pres = predicates::check_predicates(&checked, &pparams, MemoryInstance::new(), &pstore, NotSupportedEcal);
    expect("check_predicates over RecPredicateStorage", pres.is_ok());
    expect("no predicate => empty predicate-storage log", pstore.peek_log().is_empty());

    // (2) a predicate doing BSIZ on the blob whose id is its predicate data: blob accesses only
    let run_predicate = |code: Vec<fuel_asm::Instruction>, data: Vec<u8>| {
        let code: Vec<u8> = code.into_iter().collect();
        let mut rng = StdRng::seed_from_u64(7);
        let mut b = TransactionBuilder::script(vec![], vec![]);
        b.add_input(Input::coin_predicate(
            rng.gen(),
            Input::predicate_owner(&code),
            rng.gen(),
            rng.gen(),
            rng.gen(),
            0,
            code,
            data,
        ));
        b.script_gas_limit(1_000_000);
        let mut tx = b.finalize();
        // estimation (which by design does not fail on a failing predicate) ...
        tx.estimate_predicates(&pparams, MemoryInstance::new(), &pstore).expect("estimate_predicates");
        let est_log = pstore.take_log();
        // ... then verification
        let checked = tx.into_checked_basic(Default::default(), &consensus_params).expect("into_checked_basic");
        let r = predicates::check_predicates(&checked, &pparams, MemoryInstance::new(), &pstore, NotSupportedEcal);
        let ver_log = pstore.take_log();
        (r.map(|_| ()), est_log, ver_log)
    };
    let (r, elog, plog) = run_predicate(
        vec![
            op::gtf_args(0x10, RegId::ZERO, GTFArgs::InputCoinPredicateData),
            op::bsiz(0x11, 0x10),
            op::ret(RegId::ONE),
        ],
        blob_id.to_vec(),
    );
    for a in &plog {
        println!("{}", serde_json::json!({ "predicate": "bsiz", "access": a.to_json() }));
    }
    expect("predicate with BSIZ verifies", r.is_ok());
    expect("predicate with BSIZ: estimation and verification make the same accesses", elog == plog);
    expect(
        "predicate with BSIZ: blob accesses only, for that blob, with the size of the blob",
        !plog.is_empty()
            && plog.iter().all(|a| a.table == "blob" && a.is_read() && a.key == blob_id.to_vec())
            && plog.iter().any(|a| a.op == "size" && a.len == Some(BLOB.len())),
    );

    // (3) a predicate attempting SRW: refused, and the storage is never consulted
    let (r, elog, plog) = run_predicate(
        vec![
            op::movi(0x15, 32),
            op::aloc(0x15),
            op::srw(0x11, STATUS, RegId::HP, 0),
            op::ret(RegId::ONE),
        ],
        vec![],
    );
    for a in &plog {
        println!("{}", serde_json::json!({ "predicate": "srw", "access": a.to_json() }));
    }
    expect("predicate with SRW is refused", r.is_err());
    expect("predicate with SRW: empty predicate-storage log", elog.is_empty() && plog.is_empty());

    std::process::exit(if ok { 0 } else { 1 });
}
