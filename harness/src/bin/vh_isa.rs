//! vh_isa — conformance harness for C08 (instruction encoding), binding /verif/spec/asm/Isa*.tla
//! to fuel-asm (`Instruction::try_from`, `u32::from`, `op::*`) and to the interpreter's decode path
//! (`op::X::from_raw_args`, `Interpreter::instruction`).
//!
//!   vh_isa replay isa <lines.ndjson> -o <result.ndjson>   TLC's decision table + boundary words -> real code
//!   vh_isa record isa [--tier T] -o <trace.ndjson>        seeded + boundary words with results (Leg T)
//!   vh_isa sweep  isa <lines.ndjson> [--tier T] [--corrupt-table] -o <result.ndjson>
//!                                                         exhaustive enumeration against TLC's table
//!
//! The harness holds no opcode bytes, masks or field positions.  What it does hold is the list of
//! Rust *names* (`op::ADD` / `op::add`) with the arity needed to call the typed constructors: that is
//! plumbing (how to call the API), and it is cross-checked against the table TLC prints.
#[path = "../util.rs"]
mod util;

use fuel_asm::{op, Imm06, Imm12, Imm18, Imm24, Instruction, InvalidOpcode, Opcode, PanicReason, RegId};
use rand::{seq::SliceRandom, Rng};
use serde_json::{json, Value};
use std::collections::BTreeMap;
use std::panic::AssertUnwindSafe;
use std::process::exit;
use std::sync::atomic::{AtomicUsize, Ordering};
use std::sync::{Arc, Mutex};
use util::*;

// ------------------------------------------------------------------------------------------
// name -> API dispatch
// ------------------------------------------------------------------------------------------
fn reg(v: u32) -> Option<RegId> { u8::try_from(v).ok().and_then(RegId::new_checked) }
fn i06(v: u32) -> Option<Imm06> { u8::try_from(v).ok().and_then(Imm06::new_checked) }
fn i12(v: u32) -> Option<Imm12> { u16::try_from(v).ok().and_then(Imm12::new_checked) }
fn i18(v: u32) -> Option<Imm18> { Imm18::new_checked(v) }
fn i24(v: u32) -> Option<Imm24> { Imm24::new_checked(v) }
fn r32(r: RegId) -> u32 { u8::from(r) as u32 }

/// What the typed constructor `op::X::new(..)` produced, through each public conversion.
#[derive(Clone, Copy)]
struct NewOut {
    ins: Instruction,
    w_op: u32,        // u32::from(X)
    bytes4: [u8; 4],  // <[u8; 4]>::from(X)
    bytes3: [u8; 3],  // <[u8; 3]>::from(X)
}

macro_rules! mk_new {
    (NONE, $Op:ident, $a:expr) => { Some(op::$Op::new()) };
    (R, $Op:ident, $a:expr) => { (|| Some(op::$Op::new(reg($a[0])?)))() };
    (RR, $Op:ident, $a:expr) => { (|| Some(op::$Op::new(reg($a[0])?, reg($a[1])?)))() };
    (RRR, $Op:ident, $a:expr) => { (|| Some(op::$Op::new(reg($a[0])?, reg($a[1])?, reg($a[2])?)))() };
    (RRRR, $Op:ident, $a:expr) => { (|| Some(op::$Op::new(reg($a[0])?, reg($a[1])?, reg($a[2])?, reg($a[3])?)))() };
    (RRRI6, $Op:ident, $a:expr) => { (|| Some(op::$Op::new(reg($a[0])?, reg($a[1])?, reg($a[2])?, i06($a[3])?)))() };
    (RRI12, $Op:ident, $a:expr) => { (|| Some(op::$Op::new(reg($a[0])?, reg($a[1])?, i12($a[2])?)))() };
    (RI18, $Op:ident, $a:expr) => { (|| Some(op::$Op::new(reg($a[0])?, i18($a[1])?)))() };
    (I24, $Op:ident, $a:expr) => { (|| Some(op::$Op::new(i24($a[0])?)))() };
}
// short-hand constructors take plain integers and panic when out of range
macro_rules! mk_short {
    (NONE, $op:ident, $a:expr) => { op::$op() };
    (R, $op:ident, $a:expr) => { op::$op($a[0] as u8) };
    (RR, $op:ident, $a:expr) => { op::$op($a[0] as u8, $a[1] as u8) };
    (RRR, $op:ident, $a:expr) => { op::$op($a[0] as u8, $a[1] as u8, $a[2] as u8) };
    (RRRR, $op:ident, $a:expr) => { op::$op($a[0] as u8, $a[1] as u8, $a[2] as u8, $a[3] as u8) };
    (RRRI6, $op:ident, $a:expr) => { op::$op($a[0] as u8, $a[1] as u8, $a[2] as u8, $a[3] as u8) };
    (RRI12, $op:ident, $a:expr) => { op::$op($a[0] as u8, $a[1] as u8, $a[2] as u16) };
    (RI18, $op:ident, $a:expr) => { op::$op($a[0] as u8, $a[1]) };
    (I24, $op:ident, $a:expr) => { op::$op($a[0]) };
}
macro_rules! mk_fields {
    (NONE, $o:expr) => { { let _ = $o; ([0u32; 4], 0usize) } };
    (R, $o:expr) => { { let a = $o.unpack(); ([r32(a), 0, 0, 0], 1usize) } };
    (RR, $o:expr) => { { let (a, b) = $o.unpack(); ([r32(a), r32(b), 0, 0], 2usize) } };
    (RRR, $o:expr) => { { let (a, b, c) = $o.unpack(); ([r32(a), r32(b), r32(c), 0], 3usize) } };
    (RRRR, $o:expr) => { { let (a, b, c, d) = $o.unpack(); ([r32(a), r32(b), r32(c), r32(d)], 4usize) } };
    (RRRI6, $o:expr) => { { let (a, b, c, i) = $o.unpack(); ([r32(a), r32(b), r32(c), u8::from(i) as u32], 4usize) } };
    (RRI12, $o:expr) => { { let (a, b, i) = $o.unpack(); ([r32(a), r32(b), u16::from(i) as u32, 0], 3usize) } };
    (RI18, $o:expr) => { { let (a, i) = $o.unpack(); ([r32(a), u32::from(i), 0, 0], 2usize) } };
    (I24, $o:expr) => { { let i = $o.unpack(); ([u32::from(i), 0, 0, 0], 1usize) } };
}

/// the same argument values read through the per-field accessors ra() / rb() / rc() / rd() / imm06() / imm12() / imm18() / imm24()
macro_rules! mk_acc {
    (NONE, $o:expr) => { { let _ = $o; ([0u32; 4], 0usize) } };
    (R, $o:expr) => { ([r32($o.ra()), 0, 0, 0], 1usize) };
    (RR, $o:expr) => { ([r32($o.ra()), r32($o.rb()), 0, 0], 2usize) };
    (RRR, $o:expr) => { ([r32($o.ra()), r32($o.rb()), r32($o.rc()), 0], 3usize) };
    (RRRR, $o:expr) => { ([r32($o.ra()), r32($o.rb()), r32($o.rc()), r32($o.rd())], 4usize) };
    (RRRI6, $o:expr) => { ([r32($o.ra()), r32($o.rb()), r32($o.rc()), u8::from($o.imm06()) as u32], 4usize) };
    (RRI12, $o:expr) => { ([r32($o.ra()), r32($o.rb()), u16::from($o.imm12()) as u32, 0], 3usize) };
    (RI18, $o:expr) => { ([r32($o.ra()), u32::from($o.imm18()), 0, 0], 2usize) };
    (I24, $o:expr) => { ([u32::from($o.imm24()), 0, 0, 0], 1usize) };
}

struct OpFns {
    name: &'static str,
    arity: &'static str,
    byte: u8, // op::X::OPCODE as u8, read from the implementation
    new_: fn(&[u32; 4]) -> Option<NewOut>,
    short: fn(&[u32; 4]) -> Instruction,
    raw: fn([u8; 3]) -> Result<Instruction, InvalidOpcode>,
}

macro_rules! ops {
    ($( $Op:ident $op:ident $S:ident ; )*) => {
        static OPS: &[OpFns] = &[ $( OpFns {
            name: stringify!($Op),
            arity: stringify!($S),
            byte: op::$Op::OPCODE as u8,
            new_: |a| { let o: Option<op::$Op> = mk_new!($S, $Op, a);
                        o.map(|o| NewOut { ins: Instruction::from(o), w_op: u32::from(o), bytes4: <[u8; 4]>::from(o), bytes3: <[u8; 3]>::from(o) }) },
            short: |a| mk_short!($S, $op, a),
            raw: |b| op::$Op::from_raw_args(b).map(Instruction::from),
        }, )* ];
        /// unpack() of a decoded instruction as plain integers; None for a variant this harness does not know
        #[allow(unreachable_patterns)]
        fn fields_of(i: Instruction) -> Option<([u32; 4], usize)> {
            match i {
                $( Instruction::$Op(o) => Some(mk_fields!($S, o)), )*
                _ => None,
            }
        }
        /// the per-field accessors of a decoded instruction as plain integers
        #[allow(unreachable_patterns)]
        fn acc_of(i: Instruction) -> Option<([u32; 4], usize)> {
            match i {
                $( Instruction::$Op(o) => Some(mk_acc!($S, o)), )*
                _ => None,
            }
        }
    };
}

ops! {
    ADD add RRR; AND and RRR; DIV div RRR; EQ eq RRR; EXP exp RRR; GT gt RRR; LT lt RRR; MLOG mlog RRR;
    MROO mroo RRR; MOD mod_ RRR; MOVE move_ RR; MUL mul RRR; NOT not RR; OR or RRR; SLL sll RRR; SRL srl RRR;
    SUB sub RRR; XOR xor RRR; MLDV mldv RRRR; NIOP niop RRRI6; RET ret R; RETD retd RR; ALOC aloc R; MCL mcl RR;
    MCP mcp RRR; MEQ meq RRRR; BHSH bhsh RR; BHEI bhei R; BURN burn RR; CALL call RRRR; CCP ccp RRRR; CROO croo RR;
    CSIZ csiz RR; CB cb R; LDC ldc RRRI6; LOG log RRRR; LOGD logd RRRR; MINT mint RR; RVRT rvrt R; SCWQ scwq RRR;
    SRW srw RRRI6; SRWQ srwq RRRR; SWW sww RRR; SWWQ swwq RRRR; TR tr RRR; TRO tro RRRR; ECK1 eck1 RRR; ECR1 ecr1 RRR;
    ED19 ed19 RRRR; K256 k256 RRR; S256 s256 RRR; TIME time RR; NOOP noop NONE; FLAG flag R; BAL bal RRR; JMP jmp R;
    JNE jne RRR; SMO smo RRRR; ADDI addi RRI12; ANDI andi RRI12; DIVI divi RRI12; EXPI expi RRI12; MODI modi RRI12;
    MULI muli RRI12; ORI ori RRI12; SLLI slli RRI12; SRLI srli RRI12; SUBI subi RRI12; XORI xori RRI12; JNEI jnei RRI12;
    LB lb RRI12; LW lw RRI12; SB sb RRI12; SW sw RRI12; MCPI mcpi RRI12; GTF gtf RRI12; LQW lqw RRI12; LHW lhw RRI12;
    SQW sqw RRI12; SHW shw RRI12; MCLI mcli RI18; GM gm RI18; MOVI movi RI18; JNZI jnzi RI18; JMPF jmpf RI18;
    JMPB jmpb RI18; JNZF jnzf RRI12; JNZB jnzb RRI12; JNEF jnef RRRI6; JNEB jneb RRRI6; JI ji I24; CFEI cfei I24;
    CFSI cfsi I24; CFE cfe R; CFS cfs R; PSHL pshl I24; PSHH pshh I24; POPL popl I24; POPH poph I24; JAL jal RRI12;
    WDCM wdcm RRRI6; WQCM wqcm RRRI6; WDOP wdop RRRI6; WQOP wqop RRRI6; WDML wdml RRRI6; WQML wqml RRRI6;
    WDDV wddv RRRI6; WQDV wqdv RRRI6; WDMD wdmd RRRR; WQMD wqmd RRRR; WDAM wdam RRRR; WQAM wqam RRRR; WDMM wdmm RRRR;
    WQMM wqmm RRRR; ECAL ecal RRRR; BSIZ bsiz RR; BLDD bldd RRRR; ECOP ecop RRRR; EPAR epar RRRR; SCLR sclr RR;
    SRDD srdd RRRR; SRDI srdi RRRI6; SWRD swrd RRR; SWRI swri RRI12; SUPD supd RRRR; SUPI supi RRRI6; SPLD spld RR;
}

fn by_name(m: &str) -> Option<&'static OpFns> { OPS.iter().find(|o| o.name == m) }
/// the interpreter dispatches `Opcode::try_from(byte)` -> `op::X::from_raw_args`; same association here
fn by_byte() -> [Option<&'static OpFns>; 256] {
    let mut t: [Option<&'static OpFns>; 256] = [None; 256];
    for o in OPS { t[o.byte as usize] = Some(o); }
    t
}

fn hexw(w: u32) -> String { format!("{:08x}", w) }
fn unhexw(s: &str) -> u32 { u32::from_str_radix(s, 16).expect("hex word") }
fn jarr(a: &[u32]) -> Value { Value::Array(a.iter().map(|x| json!(x)).collect()) }
fn args_of(v: &Value) -> ([u32; 4], usize) {
    let mut a = [0u32; 4];
    let arr = v.as_array().expect("args array");
    for (i, x) in arr.iter().enumerate() { a[i] = x.as_u64().expect("arg") as u32; }
    (a, arr.len())
}

// ------------------------------------------------------------------------------------------
// the interpreter-side path: a real Interpreter executing one raw word
// ------------------------------------------------------------------------------------------
mod vmleg {
    use fuel_vm::prelude::*;
    use fuel_vm::interpreter::InterpreterParams;
    use fuel_vm::checked_transaction::{IntoChecked, Ready};
    use fuel_tx::{ConsensusParameters, FeeParameters, Finalizable, TransactionBuilder};

    pub struct Vm {
        tx: Ready<Script>,
        cp: ConsensusParameters,
    }
    impl Vm {
        pub fn new() -> Vm {
            let fee = FeeParameters::default().with_gas_price_factor(1);
            let mut cp = ConsensusParameters::default();
            cp.set_fee_params(fee);
            let vm = Interpreter::<_, _, Script>::with_storage(MemoryInstance::new(), MemoryStorage::default(), InterpreterParams::new(0, &cp));
            let script = fuel_asm::op::ret(0x10).to_bytes().to_vec();
            let tx = TransactionBuilder::script(script, vec![]).script_gas_limit(1_000_000).add_fee_input().finalize();
            let tx = tx.into_checked(Default::default(), &cp).expect("check tx")
                .into_ready(0, vm.gas_costs(), &fee, None).expect("ready tx");
            Vm { tx, cp }
        }
        /// "invalid" iff the interpreter refuses the word with PanicReason::InvalidInstruction
        pub fn run(&self, w: u32) -> &'static str {
            let mut vm = Interpreter::<_, _, Script>::with_storage(MemoryInstance::new(), MemoryStorage::default(), InterpreterParams::new(0, &self.cp));
            if vm.init_script(self.tx.clone()).is_err() { return "init-failed"; }
            match vm.instruction::<_, false>(w) {
                Ok(_) => "executed",
                Err(e) => match e.panic_reason() {
                    Some(super::PanicReason::InvalidInstruction) => "invalid",
                    Some(_) => "panic",
                    None => "error",
                },
            }
        }
    }
}

// ------------------------------------------------------------------------------------------
// observations (no expectations here)
// ------------------------------------------------------------------------------------------
fn opcode_name(o: Opcode) -> String { format!("{:?}", o) }

/// Everything the real code says about one raw word.
fn observe_word(w: u32, bb: &[Option<&'static OpFns>; 256], vm: Option<&vmleg::Vm>, tag: &str) -> Value {
    let r = catch(AssertUnwindSafe(|| {
        let bytes = w.to_be_bytes();
        let d32 = Instruction::try_from(w);
        let d4 = Instruction::try_from(bytes);
        let opc = Opcode::try_from(bytes[0]);
        let mut e = json!({"ev": "Dec", "tag": tag, "w": hexw(w), "ok": d32.is_ok(), "ok4": d4.is_ok(), "opok": opc.is_ok()});
        if let Ok(o) = opc { e["opm"] = json!(opcode_name(o)); }
        // the iterator front-ends fuel_asm::from_bytes / from_u32s: "ok" / "err", or "differs" when they
        // do not yield exactly one item equal to what try_from(u32) returned
        let verdict = |mut it: Box<dyn Iterator<Item = Result<Instruction, InvalidOpcode>>>| -> &'static str {
            match (it.next(), it.next()) {
                (Some(r), None) if r == d32 => if r.is_ok() { "ok" } else { "err" },
                _ => "differs",
            }
        };
        e["fb"] = json!(verdict(Box::new(fuel_asm::from_bytes(bytes))));
        e["fu"] = json!(verdict(Box::new(fuel_asm::from_u32s([w]))));
        if let Ok(i) = d32 {
            e["m"] = json!(opcode_name(i.opcode()));
            e["opb"] = json!(i.opcode() as u8);
            match fields_of(i) {
                Some((f, n)) => e["args"] = jarr(&f[..n]),
                None => { e["args"] = json!([]); e["unsupported"] = json!(true); }
            }
            e["regs"] = Value::Array(i.reg_ids().iter().flatten().map(|r| json!(u8::from(*r))).collect());
            e["reenc"] = json!(hexw(u32::from(i)));
            e["bytes"] = json!(hx(i.to_bytes()));
            // the two general decoders must have produced the same value
            if d4 != d32 { e["ok4"] = json!(false); e["d4differs"] = json!(true); }
        }
        // interpreter-side per-opcode parser, selected by the implementation's own OPCODE constant
        match bb[bytes[0] as usize] {
            None => e["raw"] = json!("none"),
            Some(f) => match (f.raw)([bytes[1], bytes[2], bytes[3]]) {
                Err(_) => e["raw"] = json!("err"),
                Ok(i) => {
                    e["raw"] = json!("ok");
                    e["rawm"] = json!(opcode_name(i.opcode()));
                    e["raww"] = json!(hexw(u32::from(i)));
                    match fields_of(i) {
                        Some((f, n)) => e["rawargs"] = jarr(&f[..n]),
                        None => { e["rawargs"] = json!([]); e["unsupported"] = json!(true); }
                    }
                }
            },
        }
        e
    }));
    let mut e = match r {
        Ok(e) => e,
        Err(msg) => return json!({"ev": "HostPanic", "tag": tag, "w": hexw(w), "where": "decode", "msg": msg}),
    };
    if let Some(vm) = vm {
        match catch(AssertUnwindSafe(|| vm.run(w))) {
            Ok(s) => e["vm"] = json!(s),
            Err(_) => e["vm"] = json!("hostpanic"),
        }
    }
    e
}

/// Everything the real constructors say about one (mnemonic, argument tuple).
fn observe_enc(m: &str, a: &[u32; 4], n: usize, tag: &str) -> Value {
    let f = match by_name(m) { Some(f) => f, None => return json!({"ev": "Unsupported", "tag": tag, "m": m}) };
    let r = catch(AssertUnwindSafe(|| {
        let mut e = json!({"ev": "Enc", "tag": tag, "m": m, "args": jarr(&a[..n])});
        match (f.new_)(a) {
            None => { e["wnew"] = json!("rejected"); e["wop"] = json!("rejected"); e["wbytes"] = json!("rejected"); e["dok"] = json!(false); }
            Some(o) => {
                let w = u32::from(o.ins);
                e["wnew"] = json!(hexw(w));
                e["wop"] = json!(hexw(o.w_op));
                e["wbytes"] = json!(hx(o.bytes4));
                e["w3"] = json!(hx(o.bytes3));
                match Instruction::try_from(w) {
                    Err(_) => e["dok"] = json!(false),
                    Ok(i) => {
                        e["dok"] = json!(i == o.ins);
                        e["dm"] = json!(opcode_name(i.opcode()));
                        match fields_of(i) {
                            Some((f, k)) => e["dargs"] = jarr(&f[..k]),
                            None => { e["dargs"] = json!([]); e["unsupported"] = json!(true); }
                        }
                    }
                }
            }
        }
        e
    }));
    let mut e = match r {
        Ok(e) => e,
        Err(msg) => return json!({"ev": "HostPanic", "tag": tag, "m": m, "args": jarr(&a[..n]), "where": "new", "msg": msg}),
    };
    match catch(AssertUnwindSafe(|| (f.short)(a))) {
        Ok(i) => e["wshort"] = json!(hexw(u32::from(i))),
        Err(msg) => e["wshort"] = json!(format!("panic: {msg}")),
    }
    e
}

// ------------------------------------------------------------------------------------------
// the table printed by TLC
// ------------------------------------------------------------------------------------------
#[derive(Clone, Default, Debug)]
struct Row {
    def: bool,
    m: String,
    shape: String,
    mask: u32,
    n: usize,
    w: [u32; 4],
    sh: [u32; 4],
    isreg: [bool; 4],
}

fn load_table(lines: &[Value]) -> Res<Vec<Row>> {
    let mut rows: Vec<Option<Row>> = vec![None; 256];
    for l in lines.iter().filter(|l| l["t"] == "tab") {
        let b = ju64(l, "b") as usize;
        let mut r = Row { def: l["def"].as_bool().ok_or("def")?, m: jstr(l, "m"), shape: jstr(l, "shape"), mask: ju64(l, "mask") as u32, ..Default::default() };
        for (i, f) in l["fields"].as_array().ok_or("fields")?.iter().enumerate() {
            r.w[i] = ju64(f, "w") as u32;
            r.sh[i] = ju64(f, "sh") as u32;
            r.isreg[i] = f["k"] == "r";
            r.n = i + 1;
        }
        if rows[b].is_some() { return Err(format!("duplicate table row for byte {b}").into()); }
        rows[b] = Some(r);
    }
    if rows.iter().any(|r| r.is_none()) { return Err("decision table from TLC does not have 256 rows".into()); }
    Ok(rows.into_iter().map(|r| r.unwrap()).collect())
}

// ------------------------------------------------------------------------------------------
// replay: TLC's table and boundary words with predicted results -> the real code
// ------------------------------------------------------------------------------------------
fn replay(o: &Opts) -> Res<()> {
    let lines = read_lines(o.input.as_ref().expect("input"))?;
    let rows = load_table(&lines)?;
    let bb = by_byte();
    let vm = if o.has("--no-vm") { None } else { Some(vmleg::Vm::new()) };
    let mut out = Out::open(&o.out)?;
    let (mut nw, mut nvalid, mut nenc, mut nvm) = (0u64, 0u64, 0u64, 0u64);
    let mut mism = |what: &str, line: &Value, exp: Value, obs: Value, out: &mut Out| {
        out.ev(json!({"mismatch": what, "expected": exp, "observed": obs, "line": line}));
    };
    // ---- the table rows against Opcode::try_from and against this harness's own dispatch list
    for (b, r) in rows.iter().enumerate() {
        let line = json!({"t": "tab", "b": b, "def": r.def, "m": r.m, "shape": r.shape});
        match catch(|| Opcode::try_from(b as u8).map(opcode_name).ok()) {
            Err(msg) => mism("opcode-tryfrom-host-panic", &line, json!(r.def), json!(msg), &mut out),
            Ok(None) => if r.def { mism("opcode-byte-not-decoded", &line, json!(r.m), json!(null), &mut out) },
            Ok(Some(name)) => {
                if !r.def { mism("undefined-opcode-byte-decoded", &line, json!(null), json!(name), &mut out) }
                else if name != r.m { mism("opcode-byte-names-other-instruction", &line, json!(r.m), json!(name), &mut out) }
            }
        }
        if r.def {
            match by_name(&r.m) {
                None => mism("unsupported-mnemonic-in-harness", &line, json!(r.m), json!(null), &mut out),
                Some(f) => {
                    if f.byte as usize != b { mism("opcode-constant", &line, json!(b), json!(f.byte), &mut out); }
                    if f.arity != r.shape { mism("harness-arity-differs-from-table", &line, json!(r.shape), json!(f.arity), &mut out); }
                }
            }
        }
    }
    for f in OPS {
        if !rows[f.byte as usize].def || rows[f.byte as usize].m != f.name {
            if !rows.iter().any(|r| r.def && r.m == f.name) {
                mism("instruction-not-in-spec-table", &json!({"m": f.name, "b": f.byte}), json!(null), json!(f.name), &mut out);
            }
        }
    }
    // ---- boundary words
    for l in lines.iter().filter(|l| l["t"] == "w") {
        nw += 1;
        let ws = jstr(l, "w");
        let w = unhexw(&ws);
        let b = (w >> 24) as usize;
        let exp_ok = l["ok"].as_bool().expect("ok");
        let e = observe_word(w, &bb, vm.as_ref(), "replay");
        if e["ev"] == "HostPanic" { mism("decode-host-panic", l, json!(exp_ok), e.clone(), &mut out); continue; }
        if e["ok"] != json!(exp_ok) {
            mism(if exp_ok { "valid-word-rejected" } else { "invalid-word-accepted" }, l, json!(exp_ok), e.clone(), &mut out);
            continue;
        }
        if e["ok4"] != json!(exp_ok) { mism("bytes-decoder-disagrees", l, json!(exp_ok), e.clone(), &mut out); }
        let exp_it = if exp_ok { "ok" } else { "err" };
        if e["fb"] != json!(exp_it) { mism("from-bytes-iterator", l, json!(exp_it), e["fb"].clone(), &mut out); }
        if e["fu"] != json!(exp_it) { mism("from-u32s-iterator", l, json!(exp_it), e["fu"].clone(), &mut out); }
        if e.get("unsupported").is_some() { mism("unsupported-variant-in-harness", l, json!(null), e.clone(), &mut out); }
        if e["opok"] != json!(rows[b].def) { mism("opcode-tryfrom", l, json!(rows[b].def), e["opok"].clone(), &mut out); }
        let exp_raw = if !rows[b].def { "none" } else if exp_ok { "ok" } else { "err" };
        if e["raw"] != json!(exp_raw) { mism("interpreter-parser-validity", l, json!(exp_raw), e.clone(), &mut out); }
        if vm.is_some() {
            nvm += 1;
            let inv = e["vm"] == "invalid";
            if inv == exp_ok { mism(if exp_ok { "interpreter-rejects-valid-word" } else { "interpreter-executes-invalid-word" }, l, json!(!exp_ok), e["vm"].clone(), &mut out); }
        }
        if !exp_ok { continue; }
        nvalid += 1;
        if e["m"] != l["m"] { mism("mnemonic", l, l["m"].clone(), e["m"].clone(), &mut out); }
        if e["args"] != l["args"] { mism("arguments", l, l["args"].clone(), e["args"].clone(), &mut out); }
        if e["regs"] != l["regs"] { mism("reg-ids", l, l["regs"].clone(), e["regs"].clone(), &mut out); }
        if e["reenc"] != json!(ws) { mism("reencode", l, json!(ws), e["reenc"].clone(), &mut out); }
        if e["bytes"] != json!(ws) { mism("to-bytes", l, json!(ws), e["bytes"].clone(), &mut out); }
        if e["opb"] != json!(b) { mism("opcode-byte", l, json!(b), e["opb"].clone(), &mut out); }
        if e["raw"] == "ok" {
            if e["rawm"] != l["m"] { mism("interpreter-parser-mnemonic", l, l["m"].clone(), e["rawm"].clone(), &mut out); }
            if e["rawargs"] != l["args"] { mism("interpreter-parser-arguments", l, l["args"].clone(), e["rawargs"].clone(), &mut out); }
            if e["raww"] != json!(ws) { mism("interpreter-parser-reencode", l, json!(ws), e["raww"].clone(), &mut out); }
        }
        // the other direction: construct from (mnemonic, arguments), expect this very word
        let (a, n) = args_of(&l["args"]);
        let c = observe_enc(&jstr(l, "m"), &a, n, "replay");
        nenc += 1;
        if c["ev"] != "Enc" { mism("construct-failed", l, json!(ws), c.clone(), &mut out); continue; }
        for (k, what) in [("wnew", "construct-new-word"), ("wop", "construct-op-into-u32"), ("wbytes", "construct-op-into-bytes"), ("wshort", "construct-shorthand-word")] {
            if c[k] != json!(ws) { mism(what, l, json!(ws), c[k].clone(), &mut out); }
        }
        if c["w3"] != json!(&ws[2..]) { mism("construct-op-into-3-bytes", l, json!(&ws[2..]), c["w3"].clone(), &mut out); }
        if c["dok"] != json!(true) { mism("constructed-does-not-decode-to-itself", l, json!(true), c.clone(), &mut out); }
        if c["dm"] != l["m"] { mism("constructed-decodes-to-other-opcode", l, l["m"].clone(), c["dm"].clone(), &mut out); }
        if c["dargs"] != l["args"] { mism("constructed-decodes-to-other-arguments", l, l["args"].clone(), c["dargs"].clone(), &mut out); }
    }
    out.ev(json!({"summary": {"rows": 256, "words": nw, "valid": nvalid, "constructed": nenc, "vm_executed": nvm, "ops_in_harness": OPS.len()}}));
    out.finish();
    Ok(())
}

// ------------------------------------------------------------------------------------------
// record: seeded + boundary words with results (validated by Isa_Trace.tla)
// ------------------------------------------------------------------------------------------
fn record(o: &Opts) -> Res<()> {
    let mut out = Out::open(&o.out)?;
    let mut rng = o.rng(0x15a);
    let bb = by_byte();
    let vm = vmleg::Vm::new();
    let thorough = o.thorough();
    let seg = 390u64;
    let mut n = 0u64;
    let mut put = |e: Value, out: &mut Out| {
        if n % seg == 0 { out.ev(json!({"ev": "Seg"})); }
        n += 1;
        out.ev(e);
    };
    // every opcode byte through Opcode::try_from
    for b in 0..=255u8 {
        let e = match catch(|| Opcode::try_from(b).map(opcode_name).ok()) {
            Ok(Some(m)) => json!({"ev": "Opc", "b": b, "ok": true, "m": m}),
            Ok(None) => json!({"ev": "Opc", "b": b, "ok": false}),
            Err(msg) => json!({"ev": "HostPanic", "where": "Opcode::try_from", "b": b, "msg": msg}),
        };
        put(e, &mut out);
    }
    // words: for every byte a few structured argument patterns, then seeded words
    let n_dec: usize = if thorough { 90_000 } else { 12_000 };
    let n_enc: usize = if thorough { 40_000 } else { 5_000 };
    let n_vm: usize = if thorough { 6_000 } else { 1_500 };
    let mut words: Vec<(u32, &'static str)> = vec![];
    for b in 0..=255u32 {
        for a in [0u32, 1, 0x3f, 0x40, 0xfff, 0x1000, 0x3ffff, 0x40000, 0xffffff, 0xfc0000, 0xfff000, 0xffffc0] {
            words.push(((b << 24) | a, "pattern"));
        }
    }
    while words.len() < n_dec {
        let k = rng.gen_range(0..10);
        let byte: u32 = match rng.gen_range(0..4) {
            0 => rng.gen_range(0..256),
            _ => OPS[rng.gen_range(0..OPS.len())].byte as u32, // biased to bytes the implementation defines
        };
        let raw: u32 = rng.gen::<u32>() & 0xff_ffff;
        let (a, tag) = match k {
            0 => (raw, "uniform"),
            1 => (raw & !0x3f, "low6-clear"),
            2 => (raw & !0xfff, "low12-clear"),
            3 => (raw & !0x3ffff, "low18-clear"),
            4 => (1u32 << rng.gen_range(0..24), "one-bit"),
            5 => (0xff_ffff ^ (1u32 << rng.gen_range(0..24)), "one-hole"),
            6 => ((raw & !0x3f) | 1 << rng.gen_range(0..6), "one-low6-bit"),
            7 => ((raw & !0xfff) | 1 << rng.gen_range(0..12), "one-low12-bit"),
            8 => ((raw & !0x3ffff) | 1 << rng.gen_range(0..18), "one-low18-bit"),
            _ => (raw & (0xff_ffffu32 << rng.gen_range(0..24)) & 0xff_ffff, "low-run-clear"),
        };
        words.push(((byte << 24) | a, tag));
    }
    let vm_every = (words.len() / n_vm).max(1);
    for (i, (w, tag)) in words.iter().enumerate() {
        let e = observe_word(*w, &bb, if i % vm_every == 0 { Some(&vm) } else { None }, tag);
        put(e, &mut out);
    }
    // constructions: seeded (mnemonic, in-range argument tuple), boundary-biased per argument
    let widths = |ar: &str| -> Vec<u32> {
        // number of arguments and their integer ranges as the *API types* define them (RegId/Imm06: 6 bits, ...)
        match ar { "NONE" => vec![], "R" => vec![6], "RR" => vec![6, 6], "RRR" => vec![6, 6, 6], "RRRR" => vec![6, 6, 6, 6],
                   "RRRI6" => vec![6, 6, 6, 6], "RRI12" => vec![6, 6, 12], "RI18" => vec![6, 18], "I24" => vec![24], _ => vec![] }
    };
    for j in 0..n_enc {
        let f = &OPS[if j < OPS.len() * 4 { j % OPS.len() } else { rng.gen_range(0..OPS.len()) }];
        let ws = widths(f.arity);
        let mut a = [0u32; 4];
        for (i, w) in ws.iter().enumerate() {
            let max = (1u32 << w) - 1;
            a[i] = match rng.gen_range(0..8) { 0 => 0, 1 => max, 2 => 1, 3 => max - 1, 4 => 1 << rng.gen_range(0..*w), _ => rng.gen_range(0..=max) };
        }
        if j < OPS.len() { a = [0; 4]; }
        if j >= OPS.len() && j < OPS.len() * 2 { for (i, w) in ws.iter().enumerate() { a[i] = (1u32 << w) - 1; } }
        put(observe_enc(f.name, &a, ws.len(), "seeded"), &mut out);
    }
    out.finish();
    Ok(())
}

// ------------------------------------------------------------------------------------------
// sweep: exhaustive enumeration of words against the table printed by TLC
// ------------------------------------------------------------------------------------------
#[derive(Default)]
struct Tally {
    words: u64,
    valid: u64,
    constructed: u64,
    raw_parsed: u64,
    words_enum: u64,
    valid_enum: u64,
    mism: BTreeMap<&'static str, (u64, Vec<Value>)>,
}
impl Tally {
    fn miss(&mut self, kind: &'static str, w: u32, exp: Value, obs: Value) {
        let e = self.mism.entry(kind).or_insert((0, vec![]));
        e.0 += 1;
        if e.1.len() < 3 { e.1.push(json!({"mismatch": kind, "w": hexw(w), "expected": exp, "observed": obs})); }
    }
    fn merge(&mut self, o: Tally) {
        self.words += o.words; self.valid += o.valid; self.constructed += o.constructed; self.raw_parsed += o.raw_parsed;
        self.words_enum += o.words_enum; self.valid_enum += o.valid_enum;
        for (k, (n, v)) in o.mism { let e = self.mism.entry(k).or_insert((0, vec![])); e.0 += n; for x in v { if e.1.len() < 3 { e.1.push(x); } } }
    }
}

/// One word against the table row of its top byte.  All expectations come from `rows` (TLC output).
#[inline(always)]
fn check_word(w: u32, rows: &[Row], bb: &[Option<&'static OpFns>; 256], t: &mut Tally) {
    t.words += 1;
    let bytes = w.to_be_bytes();
    let b = bytes[0] as usize;
    let args = w & 0x00ff_ffff;
    let row = &rows[b];
    let exp_ok = row.def && (args & row.mask) == 0;
    let d32 = Instruction::try_from(w);
    let d4 = Instruction::try_from(bytes);
    if d32.is_ok() != exp_ok {
        t.miss(if exp_ok { "valid-word-rejected" } else { "invalid-word-accepted" }, w, json!(exp_ok), json!(d32.is_ok()));
        return;
    }
    if d4 != d32 { t.miss("bytes-decoder-disagrees", w, json!(exp_ok), json!(d4.is_ok())); }
    match bb[b] {
        None => if row.def { t.miss("unsupported-opcode-in-harness", w, json!(row.m), json!(null)); },
        Some(f) => {
            let r = (f.raw)([bytes[1], bytes[2], bytes[3]]);
            t.raw_parsed += 1;
            if r.is_ok() != exp_ok { t.miss("interpreter-parser-validity", w, json!(exp_ok), json!(r.is_ok())); }
            else if r != d32 { t.miss("interpreter-parser-differs-from-decoder", w, json!(format!("{:?}", d32)), json!(format!("{:?}", r))); }
        }
    }
    let i = match d32 { Ok(i) => i, Err(_) => return };
    t.valid += 1;
    let back = u32::from(i);
    if back != w { t.miss("reencode", w, json!(hexw(w)), json!(hexw(back))); }
    if i.to_bytes() != bytes { t.miss("to-bytes", w, json!(hexw(w)), json!(hx(i.to_bytes()))); }
    if i.opcode() as u8 != bytes[0] { t.miss("opcode-byte", w, json!(b), json!(i.opcode() as u8)); }
    // the argument values the table's layout assigns to this word
    let mut exp = [0u32; 4];
    for k in 0..row.n { exp[k] = (args >> row.sh[k]) & ((1u32 << row.w[k]) - 1); }
    match fields_of(i) {
        None => t.miss("unsupported-variant-in-harness", w, json!(row.m), json!(null)),
        Some((f, n)) => if n != row.n || f[..n] != exp[..n] { t.miss("arguments", w, jarr(&exp[..row.n]), jarr(&f[..n])); },
    }
    // ... and the per-field accessors give the same values as unpack()
    if let Some((f, n)) = acc_of(i) { if n != row.n || f[..n] != exp[..n] { t.miss("field-accessors", w, jarr(&exp[..row.n]), jarr(&f[..n])); } }
    let regs = i.reg_ids();
    let mut nr = 0;
    for k in 0..row.n { if row.isreg[k] { if regs[nr].map(r32) != Some(exp[k]) { t.miss("reg-ids", w, jarr(&exp[..row.n]), json!(format!("{:?}", regs))); break; } nr += 1; } }
    if nr < 4 && regs[nr..].iter().any(|r| r.is_some()) { t.miss("reg-ids-extra", w, json!(nr), json!(format!("{:?}", regs))); }
    // construct from those argument values: must give this instruction and this word
    if let Some(f) = bb[b] {
        t.constructed += 1;
        match (f.new_)(&exp) {
            None => t.miss("construct-rejects-in-range-arguments", w, jarr(&exp[..row.n]), json!(null)),
            Some(o) => {
                if o.ins != i { t.miss("constructed-differs-from-decoded", w, json!(format!("{:?}", i)), json!(format!("{:?}", o.ins))); }
                if o.w_op != w || u32::from(o.ins) != w || o.bytes4 != bytes || o.bytes3 != [bytes[1], bytes[2], bytes[3]] {
                    t.miss("construct-word", w, json!(hexw(w)), json!(hexw(o.w_op)));
                }
            }
        }
        let s = (f.short)(&exp);
        if s != i { t.miss("construct-shorthand", w, json!(format!("{:?}", i)), json!(format!("{:?}", s))); }
    }
}

fn check_range(lo: u32, hi_incl: u32, rows: &[Row], bb: &[Option<&'static OpFns>; 256], t: &mut Tally) {
    // a host panic anywhere in the range is located by re-running word by word
    let before = (t.words, t.valid, t.constructed, t.raw_parsed);
    let r = catch(AssertUnwindSafe(|| { let mut w = lo; loop { check_word(w, rows, bb, t); if w == hi_incl { break; } w += 1; } }));
    if r.is_err() {
        (t.words, t.valid, t.constructed, t.raw_parsed) = before;
        let mut w = lo;
        loop {
            let mut tt = Tally::default();
            match catch(AssertUnwindSafe(|| check_word(w, rows, bb, &mut tt))) {
                Ok(()) => t.merge(tt),
                Err(msg) => { t.words += 1; t.miss("host-panic", w, json!("no panic"), json!(msg)); }
            }
            if w == hi_incl { break; }
            w += 1;
        }
    }
}

fn sweep(o: &Opts) -> Res<()> {
    let lines = read_lines(o.input.as_ref().expect("input"))?;
    let mut rows = load_table(&lines)?;
    let bb = by_byte();
    let mut rng = o.rng(0x5ee9);
    let thorough = o.thorough();
    // which top bytes are enumerated completely
    let bytes: Vec<u32> = if thorough {
        (0..256).collect()
    } else {
        // chosen from the TABLE: two opcodes per argument shape, seven more defined, eight undefined bytes
        let mut by_shape: BTreeMap<String, Vec<u32>> = BTreeMap::new();
        for (b, r) in rows.iter().enumerate() { if r.def { by_shape.entry(r.shape.clone()).or_default().push(b as u32); } }
        let mut sel: Vec<u32> = vec![];
        for v in by_shape.values_mut() { v.shuffle(&mut rng); sel.extend(v.iter().take(2)); }
        let mut defd: Vec<u32> = (0..256u32).filter(|b| rows[*b as usize].def && !sel.contains(b)).collect();
        defd.shuffle(&mut rng);
        sel.extend(defd.iter().take(7));
        let mut und: Vec<u32> = (0..256u32).filter(|b| !rows[*b as usize].def).collect();
        und.shuffle(&mut rng);
        sel.extend(und.iter().take(8));
        sel.sort();
        sel
    };
    // binding self-test: perturb the table (never the code) — the sweep must then report mismatches
    let mut corrupted = Value::Null;
    if o.has("--corrupt-table") {
        let cands: Vec<u32> = bytes.iter().copied().filter(|b| rows[*b as usize].def && rows[*b as usize].n > 0).collect();
        let b = *cands.choose(&mut rng).ok_or("nothing to corrupt")? as usize;
        let k = rng.gen_range(0..rows[b].n);
        match rng.gen_range(0..3) {
            0 if rows[b].mask != 0 => { let bit = 31 - rows[b].mask.leading_zeros(); rows[b].mask &= !(1 << bit); corrupted = json!({"b": b, "what": "reserved mask loses its top bit"}); }
            1 if rows[b].sh[k] > 0 => { rows[b].sh[k] -= 1; corrupted = json!({"b": b, "what": "field shift - 1", "field": k}); }
            _ => { rows[b].w[k] -= 1; corrupted = json!({"b": b, "what": "field width - 1", "field": k}); }
        }
    }
    let nthreads = std::thread::available_parallelism().map(|n| n.get()).unwrap_or(4).min(16);
    // work items: (byte, 1/16th of its 2^24 argument patterns)
    let mut items: Vec<(u32, u32)> = vec![];
    for b in &bytes { for part in 0..16u32 { items.push((*b, part)); } }
    let n_sampled: u64 = if thorough { 0 } else { 6_000_000 };
    let rows = Arc::new(rows);
    let items = Arc::new(items);
    let next = Arc::new(AtomicUsize::new(0));
    let total = Arc::new(Mutex::new(Tally::default()));
    let seed = o.seed;
    let mut hs = vec![];
    for ti in 0..nthreads {
        let (rows, items, next, total) = (rows.clone(), items.clone(), next.clone(), total.clone());
        hs.push(std::thread::spawn(move || {
            let bb = by_byte();
            let mut t = Tally::default();
            loop {
                let k = next.fetch_add(1, Ordering::SeqCst);
                if k >= items.len() { break; }
                let (b, part) = items[k];
                let lo = (b << 24) | (part << 20);
                check_range(lo, lo | 0x000f_ffff, &rows, &bb, &mut t);
            }
            t.words_enum = t.words;
            t.valid_enum = t.valid;
            // sampled words over the whole 32-bit space (quick tier), seeded per thread
            if n_sampled > 0 {
                use rand::SeedableRng;
                let mut r = rand::rngs::StdRng::seed_from_u64(seed.wrapping_mul(0x9E3779B97F4A7C15).wrapping_add(0x5a3b + ti as u64));
                let per = n_sampled / nthreads as u64;
                for j in 0..per {
                    let raw: u32 = r.gen();
                    let w = match j % 4 {
                        0 => raw,
                        1 => raw & !0x3f,
                        2 => raw & !0xfff,
                        _ => (raw & 0xff00_0000) | (raw & 0x00ff_ffff & !(((1u64 << r.gen_range(0..25)) - 1) as u32)),
                    };
                    check_range(w, w, &rows, &bb, &mut t);
                }
            }
            total.lock().unwrap().merge(t);
        }));
    }
    for h in hs { h.join().map_err(|_| "sweep thread panicked")?; }
    let _ = bb;
    let t = std::mem::take(&mut *total.lock().unwrap());
    let mut out = Out::open(&o.out)?;
    let mut nm = 0u64;
    for (k, (n, v)) in &t.mism {
        nm += n;
        for x in v { let mut x = x.clone(); x["count"] = json!(n); x["mismatch"] = json!(k); out.ev(x); }
    }
    out.ev(json!({"summary": {"words": t.words, "valid": t.valid, "words_enumerated": t.words_enum, "valid_enumerated": t.valid_enum, "constructed": t.constructed, "interpreter_parser_calls": t.raw_parsed,
                              "enumerated_bytes": bytes, "sampled_words": if thorough { 0 } else { (n_sampled / nthreads as u64) * nthreads as u64 },
                              "threads": nthreads, "mismatches": nm, "exhaustive": thorough, "corrupted": corrupted}}));
    out.finish();
    Ok(())
}

fn main() {
    if std::env::var("VH_PANIC_TRACE").is_err() { std::panic::set_hook(Box::new(|_| {})); }
    let args: Vec<String> = std::env::args().collect();
    if args.len() < 3 {
        eprintln!("usage: vh_isa record|replay|sweep isa ...");
        exit(64);
    }
    let opts = Opts::parse(&args[3..]);
    let r = match (args[1].as_str(), args[2].as_str()) {
        ("replay", "isa") => replay(&opts),
        ("record", "isa") => record(&opts),
        ("sweep", "isa") => sweep(&opts),
        (m, d) => { eprintln!("unknown mode/domain {m}/{d}"); exit(64); }
    };
    if let Err(e) = r {
        eprintln!("vh_isa error: {e}");
        exit(3);
    }
}
