//! vh_crypto — conformance harness for the crypto domain (C16, C17).
//!
//!   vh_crypto replay k1  <class-table.ndjson> [--tier T] -o <events.ndjson>   (C16: TLC's class table -> both real backends)
//!   vh_crypto record sig [--tier T] -o <trace.ndjson>                          (C17: histories of sign/recover/verify + VM instructions)
//!
//! Deliberately dumb: builds inputs, calls public APIs, records results.  All verdicts are TLC's.
#[path = "../util.rs"]
mod util;
#[path = "../crypto_num.rs"]
mod crypto_num;
#[path = "../crypto_k1.rs"]
mod crypto_k1;
#[path = "../crypto_sig.rs"]
mod crypto_sig;

use std::process::exit;

fn main() {
    if std::env::var("VH_PANIC_TRACE").is_err() { std::panic::set_hook(Box::new(|_| {})); }
    let args: Vec<String> = std::env::args().collect();
    if args.len() < 3 {
        eprintln!("usage: vh_crypto replay k1 <table> -o out | record sig -o out");
        exit(64);
    }
    let opts = util::Opts::parse(&args[3..]);
    let r = match (args[1].as_str(), args[2].as_str()) {
        ("replay", "k1") => crypto_k1::replay(&opts),
        ("record", "sig") => crypto_sig::record(&opts),
        (m, d) => {
            eprintln!("unknown mode/domain {m}/{d}");
            exit(64);
        }
    };
    if let Err(e) = r {
        eprintln!("vh_crypto error: {e}");
        exit(3);
    }
}
