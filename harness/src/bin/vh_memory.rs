//! vh_memory — conformance harness for C23 (VM memory behaves like a zero-initialised array with
//! two regions).  It drives fuel_vm::interpreter::MemoryInstance through its PUBLIC methods only
//! and records what they return; it contains no expected values and no model of the memory.
//!
//!   vh_memory record mem [--tier quick|thorough] [--part hist,rbtrunc] -o <trace.ndjson>   (Leg T)
//!   vh_memory replay mem <behaviours.ndjson> -o <result.ndjson>                            (Leg R)
//!
//! Public surface used (from outside the crate, feature test-helpers):
//!   MemoryInstance::{new, reset, grow_stack, grow_heap_by, verify, read, read_bytes,
//!   write_noownerchecks, write_bytes_noownerchecks, stack_raw, collect_rollback_data, rollback,
//!   clone, eq};  Reg::<SP>::new / RegMut::<HP>::new (the $hp register is an OUTPUT of grow_heap_by).
//!   MemoryInstance::memcopy needs an OwnershipRegisters value, which cannot be built outside
//!   the crate, so the overlap-refusing copy is driven through the MCP instruction
//!   (Interpreter::instruction) on an interpreter that owns the memory instance, with
//!   $ssp = 0, $sp = stack extent, $hp = heap pointer and no call frame, so that every
//!   accessible non-empty range is also owned and ownership never decides the outcome.
#[path = "../util.rs"]
mod util;

use fuel_asm::{op, RegId};
use fuel_tx::Script;
use fuel_vm::consts::VM_MAX_RAM;
use fuel_vm::constraints::reg_key::{Reg, RegMut, HP, SP};
use fuel_vm::error::InterpreterError;
use fuel_vm::interpreter::{Interpreter, MemoryInstance};
use fuel_vm::storage::MemoryStorage;
use rand::rngs::StdRng;
use rand::Rng;
use serde_json::{json, Value};
use std::collections::BTreeMap;
use std::panic::AssertUnwindSafe;
use std::process::exit;
use util::*;

const MEM: u64 = VM_MAX_RAM;
const PS: u64 = 64;

type Vm = Interpreter<MemoryInstance, MemoryStorage, Script>;
/// outer Err = host panic (message); inner Err = refusal (PanicReason as text)
type Op<T> = Result<Result<T, String>, String>;

struct Snap {
    mem: MemoryInstance,
    hp: u64,
    sp: u64,
}

/// A memory instance living inside an interpreter, plus the two registers a VM keeps next to it.
struct M {
    vm: Vm,
    hp: u64,
    sp: u64,
    snaps: Vec<Snap>,
}

static TIMES: std::sync::Mutex<BTreeMap<&'static str, (u64, u128)>> = std::sync::Mutex::new(BTreeMap::new());
fn timed<T>(k: &'static str, f: impl FnOnce() -> T) -> T {
    if std::env::var_os("VH_TIMING").is_none() { return f(); }
    let t = std::time::Instant::now();
    let r = f();
    let d = t.elapsed().as_nanos();
    let mut g = TIMES.lock().unwrap();
    let e = g.entry(k).or_insert((0, 0));
    e.0 += 1; e.1 += d;
    r
}

fn flat<T, E: std::fmt::Debug>(r: Result<Result<T, E>, String>) -> Op<T> {
    r.map(|x| x.map_err(|e| format!("{e:?}")))
}

impl M {
    fn new() -> M {
        M { vm: Vm::with_memory_storage(), hp: MEM, sp: 0, snaps: vec![] }
    }
    fn st(&self) -> u64 {
        self.vm.memory().stack_raw().len() as u64
    }
    fn grow_stack(&mut self, s: u64) -> Op<()> {
        let r = flat(catch(AssertUnwindSafe(|| self.vm.memory_mut().grow_stack(s))));
        if let Ok(Ok(())) = r {
            self.sp = s;
        }
        r
    }
    fn grow_heap(&mut self, sp: u64, n: u64) -> Op<()> {
        let mut hp = self.hp;
        let r = flat(catch(AssertUnwindSafe(|| {
            self.vm.memory_mut().grow_heap_by(Reg::<SP>::new(&sp), RegMut::<HP>::new(&mut hp), n)
        })));
        self.hp = hp;
        r
    }
    fn verify(&self, a: u64, n: u64) -> Op<()> {
        flat(catch(AssertUnwindSafe(|| self.vm.memory().verify(a, n).map(|_| ()))))
    }
    fn read(&self, a: u64, n: u64) -> Op<Vec<u8>> {
        flat(catch(AssertUnwindSafe(|| self.vm.memory().read(a, n).map(|s| s.to_vec()))))
    }
    fn read8(&self, a: u64) -> Op<Vec<u8>> {
        flat(catch(AssertUnwindSafe(|| self.vm.memory().read_bytes::<_, 8>(a).map(|s| s.to_vec()))))
    }
    /// sparse view of [a, a+n): the 64-byte pages that are non-zero inside the range
    fn sparse(&self, a: u64, n: u64) -> Op<Vec<(u64, [u8; 64])>> {
        flat(catch(AssertUnwindSafe(|| self.vm.memory().read(a, n).map(|s| sparse_pages(s, a)))))
    }
    fn write(&mut self, a: u64, d: &[u8]) -> Op<()> {
        flat(catch(AssertUnwindSafe(|| {
            self.vm.memory_mut().write_noownerchecks(a, d.len()).map(|s| s.copy_from_slice(d))
        })))
    }
    fn write8(&mut self, a: u64, d: [u8; 8]) -> Op<()> {
        flat(catch(AssertUnwindSafe(|| self.vm.memory_mut().write_bytes_noownerchecks(a, d))))
    }
    /// MCP $r16 $r17 $r18 with every accessible byte owned
    fn copy(&mut self, d: u64, s: u64, n: u64) -> Op<()> {
        let st = self.st();
        let hp = self.hp;
        {
            let regs = self.vm.registers_mut();
            regs[RegId::SSP.to_u8() as usize] = 0;
            regs[RegId::SP.to_u8() as usize] = st;
            regs[RegId::HP.to_u8() as usize] = hp;
            regs[RegId::PC.to_u8() as usize] = 0;
            regs[RegId::IS.to_u8() as usize] = 0;
            regs[RegId::CGAS.to_u8() as usize] = 1 << 62;
            regs[RegId::GGAS.to_u8() as usize] = 1 << 62;
            regs[0x10] = d;
            regs[0x11] = s;
            regs[0x12] = n;
        }
        let r = catch(AssertUnwindSafe(|| self.vm.instruction::<_, false>(op::mcp(0x10, 0x11, 0x12))));
        match r {
            Err(p) => Err(p),
            Ok(Ok(_)) => Ok(Ok(())),
            Ok(Err(InterpreterError::PanicInstruction(pi))) => Ok(Err(format!("{:?}", pi.reason()))),
            Ok(Err(e)) => Ok(Err(format!("{e:?}"))),
        }
    }
    fn reset(&mut self) -> Result<(), String> {
        let r = catch(AssertUnwindSafe(|| self.vm.memory_mut().reset()));
        self.hp = MEM;
        self.sp = 0;
        self.snaps.clear();
        r
    }
    fn snapshot(&mut self) -> Result<usize, String> {
        let mem = catch(AssertUnwindSafe(|| self.vm.memory().clone()))?;
        self.snaps.push(Snap { mem, hp: self.hp, sp: self.sp });
        Ok(self.snaps.len())
    }
    /// roll back to snapshot k (1-based); Ok(none) tells whether collect_rollback_data returned None
    fn rollback(&mut self, k: usize) -> Result<bool, (String, String)> {
        let snap = &self.snaps[k - 1];
        let data = catch(AssertUnwindSafe(|| self.vm.memory().collect_rollback_data(&snap.mem)))
            .map_err(|p| ("collect_rollback_data".to_string(), p))?;
        let none = data.is_none();
        if let Some(d) = data {
            catch(AssertUnwindSafe(|| self.vm.memory_mut().rollback(&d))).map_err(|p| ("rollback".to_string(), p))?;
        }
        self.hp = snap.hp;
        self.sp = snap.sp;
        self.snaps.truncate(k);
        Ok(none)
    }
    fn eq_snap(&self, k: usize) -> Result<bool, String> {
        let snap = &self.snaps[k - 1];
        catch(AssertUnwindSafe(|| self.vm.memory() == &snap.mem))
    }
}

fn all_zero(s: &[u8]) -> bool {
    // plain data scan, 8 bytes at a time
    let (head, mid, tail) = unsafe { s.align_to::<u64>() };
    head.iter().all(|&b| b == 0) && mid.iter().all(|&w| w == 0) && tail.iter().all(|&b| b == 0)
}

fn sparse_pages(s: &[u8], base: u64) -> Vec<(u64, [u8; 64])> {
    let mut v = vec![];
    if s.is_empty() {
        return v;
    }
    let end = base + s.len() as u64;
    let mut p = base / PS;
    while p * PS < end {
        // skip long zero stretches 64 KiB at a time
        let lo = (p * PS).max(base);
        let big = (lo + (1 << 16)).min(end);
        if big - lo == (1 << 16) && lo % PS == 0 && all_zero(&s[(lo - base) as usize..(big - base) as usize]) {
            p += (1 << 16) / PS;
            continue;
        }
        let hi = ((p + 1) * PS).min(end);
        let part = &s[(lo - base) as usize..(hi - base) as usize];
        if !all_zero(part) {
            let mut pg = [0u8; 64];
            pg[(lo - p * PS) as usize..(hi - p * PS) as usize].copy_from_slice(part);
            v.push((p, pg));
        }
        p += 1;
    }
    v
}

fn pages_json(v: &[(u64, [u8; 64])]) -> Value {
    Value::Array(v.iter().map(|(p, h)| json!([p, hx(h)])).collect())
}

// =====================================================================================
// Leg R: replay of TLC-generated transitions
// =====================================================================================
fn jbool(v: &Value, k: &str) -> bool {
    v[k].as_bool().unwrap_or_else(|| panic!("field {k} missing in {v}"))
}

/// perform one step of a behaviour; returns (granted, host panic)
fn apply(m: &mut M, s: &Value) -> (bool, Option<String>) {
    let r: Op<()> = match s["a"].as_str().unwrap() {
        "GrowStack" => m.grow_stack(ju64(s, "s")),
        "GrowHeap" => m.grow_heap(ju64(s, "sp"), ju64(s, "n")),
        "Write" => {
            let d = unhx(&jstr(s, "data"));
            if d.len() == 8 && ju64(s, "addr") % 2 == 1 {
                let mut a8 = [0u8; 8];
                a8.copy_from_slice(&d);
                m.write8(ju64(s, "addr"), a8)
            } else {
                m.write(ju64(s, "addr"), &d)
            }
        }
        "Copy" => m.copy(ju64(s, "d"), ju64(s, "s"), ju64(s, "n")),
        "Reset" => m.reset().map(Ok),
        "Snapshot" => m.snapshot().map(|_| Ok(())),
        "Rollback" => match m.rollback(ju64(s, "k") as usize) {
            Ok(_) => Ok(Ok(())),
            Err((w, p)) => Err(format!("{w}: {p}")),
        },
        a => panic!("unknown action {a}"),
    };
    match r {
        Ok(Ok(())) => (true, None),
        Ok(Err(_)) => (false, None),
        Err(p) => (false, Some(p)),
    }
}

fn replay_line(m: &mut M, bi: usize, beh: &Value, res: &mut Vec<Value>) -> u64 {
    let mut steps = 0u64;
    let mut mism = |what: String, exp: Value, obs: Value, res: &mut Vec<Value>| {
        res.push(json!({"mismatch": what, "beh": bi, "expected": exp, "observed": obs, "behaviour": beh}));
    };
    for s in beh["pre"].as_array().expect("pre") {
        steps += 1;
        let (ok, p) = apply(m, s);
        if let Some(p) = p {
            mism(format!("{}-host-panic", jstr(s, "a")), json!(jbool(s, "ok")), json!(p), res);
            return steps;
        }
        if ok != jbool(s, "ok") {
            mism(format!("{}-granted", jstr(s, "a")), json!(jbool(s, "ok")), json!(ok), res);
            return steps;
        }
    }
    let s = &beh["last"];
    let act = jstr(s, "a");
    steps += 1;
    let (ok, p) = apply(m, s);
    if let Some(p) = p {
        mism(format!("{act}-host-panic"), json!(jbool(s, "ok")), json!(p), res);
        return steps;
    }
    if ok != jbool(s, "ok") {
        mism(format!("{act}-granted"), json!(jbool(s, "ok")), json!(ok), res);
        return steps;
    }
    let st = m.st();
    if st != ju64(s, "st") {
        mism(format!("{act}-stack-extent"), s["st"].clone(), json!(st), res);
    }
    if m.hp != ju64(s, "hp") {
        mism(format!("{act}-hp"), s["hp"].clone(), json!(m.hp), res);
    }
    for pr in s["probes"].as_array().expect("probes") {
        let (a, n, e) = (ju64(pr, "a"), ju64(pr, "n"), jbool(pr, "ok"));
        match m.verify(a, n) {
            Err(p) => mism(format!("{act}-verify-host-panic"), json!(e), json!(p), res),
            Ok(r) => {
                if r.is_ok() != e {
                    mism(format!("{act}-accessible"), pr.clone(), json!(r.is_ok()), res);
                }
            }
        }
        if n <= 64 {
            match m.read(a, n) {
                Err(p) => mism(format!("{act}-read-host-panic"), json!(e), json!(p), res),
                Ok(r) => {
                    if r.is_ok() != e {
                        mism(format!("{act}-readable"), pr.clone(), json!(r.is_ok()), res);
                    }
                }
            }
        }
    }
    // complete content: everything a caller can read, sparsely, against the predicted pages
    let mut got: BTreeMap<u64, [u8; 64]> = BTreeMap::new();
    for (a, n) in [(0u64, st), (m.hp, MEM.saturating_sub(m.hp))] {
        match m.sparse(a, n) {
            Ok(Ok(v)) => {
                for (p, h) in v {
                    let e = got.entry(p).or_insert([0u8; 64]);
                    for i in 0..64 {
                        e[i] |= h[i];
                    }
                }
            }
            Ok(Err(e)) => mism(format!("{act}-region-unreadable"), json!([a, n]), json!(e), res),
            Err(p) => mism(format!("{act}-read-host-panic"), json!([a, n]), json!(p), res),
        }
    }
    let got: BTreeMap<u64, String> = got.into_iter().map(|(p, h)| (p, hx(h))).collect();
    let exp: BTreeMap<u64, String> =
        s["pages"].as_array().expect("pages").iter().map(|x| (ju64(x, "p"), jstr(x, "h"))).collect();
    if got != exp {
        mism(format!("{act}-content"), json!(exp), json!(got), res);
    }
    steps
}

fn replay(o: &Opts) -> Res<()> {
    let behs = read_lines(o.input.as_ref().expect("input"))?;
    let mut out = Out::open(&o.out)?;
    let threads: usize = o.opt("--threads").and_then(|s| s.parse().ok()).unwrap_or(4);
    let behs = std::sync::Arc::new(behs);
    let mut handles = vec![];
    for t in 0..threads {
        let behs = behs.clone();
        handles.push(std::thread::spawn(move || {
            let mut res: Vec<Value> = vec![];
            let mut steps = 0u64;
            let mut m = M::new();
            let mut used = 0usize;
            for (bi, beh) in behs.iter().enumerate() {
                if bi % threads != t {
                    continue;
                }
                // the model's initial state is "all zero": a new instance, or a reused one after
                // reset() that still holds whatever the previous behaviours left behind
                if used % 16 == 15 {
                    m = M::new();
                } else if used > 0 {
                    let _ = m.reset();
                }
                used += 1;
                let before = res.len();
                steps += replay_line(&mut m, bi, beh, &mut res);
                if res.len() > before {
                    m = M::new(); // do not let one failure cascade
                }
                if res.len() > 400 {
                    break;
                }
            }
            (res, steps)
        }));
    }
    let mut steps_total = 0u64;
    for h in handles {
        let (res, steps) = h.join().map_err(|_| "replay thread panicked")?;
        steps_total += steps;
        for r in res {
            out.ev(r);
        }
    }
    out.ev(json!({"summary": {"behaviours": behs.len(), "steps": steps_total}}));
    out.finish();
    Ok(())
}

// =====================================================================================
// Leg T: seeded long histories
// =====================================================================================
struct Drv {
    m: M,
    out: Out,
    rng: StdRng,
    marks: Vec<u64>, // region bounds seen during the lifetime of the instance (across resets)
    dead: bool,      // a host panic was recorded: the segment ends
    allow_trunc_rollback: bool,
}

const SMALL: [u64; 24] = [0, 1, 2, 7, 8, 9, 31, 32, 33, 63, 64, 65, 255, 256, 257, 511, 512, 513, 1023, 1024, 1025, 4095, 4096, 4097];

impl Drv {
    fn small(&mut self) -> u64 {
        if self.rng.gen_bool(0.75) { SMALL[self.rng.gen_range(0..SMALL.len())] } else { self.rng.gen_range(0..5000) }
    }
    fn pow(&mut self) -> u64 {
        let k = self.rng.gen_range(4..=26);
        ((1u64 << k) + self.rng.gen_range(0..3)).saturating_sub(1)
    }
    fn huge(&mut self) -> u64 {
        let c = [MEM + 1, MEM + 8, u32::MAX as u64, 1 << 32, (1 << 32) + 1, 1 << 63, u64::MAX - 7, u64::MAX - 1, u64::MAX];
        c[self.rng.gen_range(0..c.len())]
    }
    fn near_mem(&mut self) -> u64 {
        let s = self.small();
        if self.rng.gen_bool(0.8) { MEM - s.min(MEM) } else { MEM + s % 3 }
    }
    fn data(&mut self, n: usize) -> Vec<u8> {
        (0..n).map(|_| self.rng.gen_range(1..=255u8)).collect()
    }
    fn panic_ev(&mut self, whr: &str, msg: String, extra: Value) {
        self.out.ev(json!({"ev": "HostPanic", "where": whr, "msg": msg, "args": extra}));
        self.dead = true;
    }

    // ---- one event per public call ----
    fn grow_stack(&mut self, s: u64) {
        let st0 = self.m.st();
        match timed("grow_stack", || self.m.grow_stack(s)) {
            Err(p) => self.panic_ev("grow_stack", p, json!([s.to_string()])),
            Ok(r) => {
                let st1 = self.m.st();
                let mut e = json!({"ev": "GrowStack", "s": s.to_string(), "ok": r.is_ok(), "st": st1, "hp": self.m.hp, "new": []});
                if let Err(x) = &r {
                    e["err"] = json!(x);
                }
                if st1 > st0 {
                    match timed("sparse", || self.m.sparse(st0, st1 - st0)) {
                        Ok(Ok(v)) => e["new"] = pages_json(&v),
                        Ok(Err(x)) => e["new_unreadable"] = json!(x),
                        Err(p) => return self.panic_ev("read", p, json!([st0, st1 - st0])),
                    }
                }
                self.out.ev(e);
            }
        }
    }
    fn grow_heap(&mut self, n: u64) {
        let hp0 = self.m.hp;
        let sp = self.m.sp;
        match timed("grow_heap", || self.m.grow_heap(sp, n)) {
            Err(p) => self.panic_ev("grow_heap_by", p, json!([sp, n.to_string()])),
            Ok(r) => {
                let hp1 = self.m.hp;
                let mut e = json!({"ev": "GrowHeap", "sp": sp, "n": n.to_string(), "ok": r.is_ok(), "st": self.m.st(), "hp": hp1, "new": []});
                if let Err(x) = &r {
                    e["err"] = json!(x);
                }
                if hp1 < hp0 {
                    match timed("sparse", || self.m.sparse(hp1, hp0 - hp1)) {
                        Ok(Ok(v)) => e["new"] = pages_json(&v),
                        Ok(Err(x)) => e["new_unreadable"] = json!(x),
                        Err(p) => return self.panic_ev("read", p, json!([hp1, hp0 - hp1])),
                    }
                }
                self.out.ev(e);
            }
        }
    }
    fn verify(&mut self, a: u64, n: u64) {
        match timed("verify", || self.m.verify(a, n)) {
            Err(p) => self.panic_ev("verify", p, json!([a.to_string(), n.to_string()])),
            Ok(r) => self.out.ev(json!({"ev": "Verify", "a": a.to_string(), "n": n.to_string(), "ok": r.is_ok()})),
        }
    }
    fn read(&mut self, a: u64, n: u64) {
        let use8 = n == 8 && self.rng.gen_bool(0.5);
        let r = timed("read", || if use8 { self.m.read8(a) } else { self.m.read(a, n) });
        match r {
            Err(p) => self.panic_ev("read", p, json!([a.to_string(), n.to_string()])),
            Ok(r) => {
                let mut e = json!({"ev": "Read", "api": if use8 { "read_bytes" } else { "read" }, "a": a.to_string(), "n": n.to_string(), "ok": r.is_ok()});
                if let Ok(d) = &r {
                    e["data"] = json!(hx(d));
                }
                self.out.ev(e);
            }
        }
    }
    fn dump(&mut self, a: u64, n: u64) {
        match timed("sparse", || self.m.sparse(a, n)) {
            Err(p) => self.panic_ev("read", p, json!([a.to_string(), n.to_string()])),
            Ok(r) => {
                let mut e = json!({"ev": "Dump", "a": a.to_string(), "n": n.to_string(), "ok": r.is_ok(), "pages": []});
                if let Ok(v) = &r {
                    e["pages"] = pages_json(v);
                }
                self.out.ev(e);
            }
        }
    }
    fn dump_all(&mut self) {
        let (st, hp) = (self.m.st(), self.m.hp);
        self.dump(0, st);
        if !self.dead {
            self.dump(hp, MEM.saturating_sub(hp));
        }
    }
    fn write(&mut self, a: u64, d: &[u8]) {
        let use8 = d.len() == 8 && self.rng.gen_bool(0.5);
        let r = if use8 {
            let mut a8 = [0u8; 8];
            a8.copy_from_slice(d);
            self.m.write8(a, a8)
        } else {
            self.m.write(a, d)
        };
        match r {
            Err(p) => self.panic_ev("write_noownerchecks", p, json!([a.to_string(), d.len()])),
            Ok(r) => self.out.ev(json!({"ev": "Write", "api": if use8 { "write_bytes_noownerchecks" } else { "write_noownerchecks" },
                                        "a": a.to_string(), "data": hx(d), "ok": r.is_ok()})),
        }
    }
    fn copy(&mut self, d: u64, s: u64, n: u64) {
        match timed("copy", || self.m.copy(d, s, n)) {
            Err(p) => self.panic_ev("memcopy", p, json!([d.to_string(), s.to_string(), n.to_string()])),
            Ok(r) => {
                let mut e = json!({"ev": "Copy", "d": d.to_string(), "s": s.to_string(), "n": n.to_string(), "ok": r.is_ok(), "err": ""});
                if let Err(x) = &r {
                    e["err"] = json!(x);
                }
                self.out.ev(e);
            }
        }
    }
    fn reset(&mut self) {
        let (st, hp) = (self.m.st(), self.m.hp);
        self.marks.push(st);
        self.marks.push(hp);
        if self.marks.len() > 48 {
            let k = self.marks.len() - 48;
            self.marks.drain(0..k);
        }
        match timed("reset", || self.m.reset()) {
            Err(p) => self.panic_ev("reset", p, json!([])),
            Ok(()) => {
                let st = self.m.st();
                self.out.ev(json!({"ev": "Reset", "st": st, "hp": self.m.hp}));
            }
        }
    }
    fn snapshot(&mut self) {
        match timed("snapshot", || self.m.snapshot()) {
            Err(p) => self.panic_ev("clone", p, json!([])),
            Ok(id) => self.out.ev(json!({"ev": "Snapshot", "id": id})),
        }
    }
    fn rollback(&mut self, k: usize) {
        match timed("rollback", || self.m.rollback(k)) {
            Err((w, p)) => self.panic_ev(&w, p, json!([k])),
            Ok(none) => {
                let st = self.m.st();
                self.out.ev(json!({"ev": "Rollback", "id": k, "none": none, "st": st, "hp": self.m.hp}));
            }
        }
    }
    fn eq_snap(&mut self, k: usize) {
        match timed("eq_snap", || self.m.eq_snap(k)) {
            Err(p) => self.panic_ev("eq", p, json!([k])),
            Ok(b) => self.out.ev(json!({"ev": "Eq", "id": k, "eq": b})),
        }
    }

    // ---- input selection (boundary biased; no expectations) ----
    fn anchor(&mut self) -> u64 {
        let (st, hp, sp) = (self.m.st(), self.m.hp, self.m.sp);
        match self.rng.gen_range(0..12) {
            0 => 0,
            1 | 2 => st,
            3 => sp,
            4 | 5 | 6 => hp,
            7 => MEM,
            8 if !self.marks.is_empty() => self.marks[self.rng.gen_range(0..self.marks.len())],
            9 if st > 0 => self.rng.gen_range(0..st),
            10 | 11 if hp < MEM => self.rng.gen_range(hp..MEM),
            _ => st,
        }
    }
    /// an address near a boundary for a range of n bytes
    fn addr(&mut self, n: u64) -> u64 {
        let b = self.anchor();
        let a = match self.rng.gen_range(0..9) {
            0 | 1 | 2 => b.wrapping_sub(n),
            3 => b.wrapping_sub(n).wrapping_add(1),
            4 => b.wrapping_sub(n).wrapping_sub(1),
            5 | 6 => b,
            7 => b.wrapping_sub(1),
            _ => b.wrapping_add(1),
        };
        if a > (1 << 63) { if self.rng.gen_bool(0.5) { 0 } else { a } } else { a }
    }
    /// a readable placement of n bytes inside the stack (heap = false) or the heap; the caller checked it fits
    fn place(&mut self, heap: bool, n: u64) -> u64 {
        let (st, hp) = (self.m.st(), self.m.hp);
        if heap {
            match self.rng.gen_range(0..4) { 0 => hp, 1 => MEM - n, _ => self.rng.gen_range(hp..=MEM - n) }
        } else {
            match self.rng.gen_range(0..4) { 0 => 0, 1 => st - n, _ => self.rng.gen_range(0..=st - n) }
        }
    }
    fn probes(&mut self, extra: &[u64]) {
        let (st, hp) = (self.m.st(), self.m.hp);
        let mut bs = vec![st, hp, MEM];
        bs.extend_from_slice(extra);
        for b in bs {
            let k = self.small().max(2);
            let cands = [(b.wrapping_sub(1), 1), (b, 0), (b, 1), (b.wrapping_sub(8), 8), (b.wrapping_sub(7), 8), (b.wrapping_add(1), 0),
                         (b.wrapping_sub(k), k), (b.wrapping_sub(k).wrapping_add(1), k), (b, k), (b.wrapping_sub(1), k)];
            for _ in 0..2 {
                let (a, n) = cands[self.rng.gen_range(0..cands.len())];
                if self.dead { return; }
                self.verify(a, n);
            }
        }
        match self.rng.gen_range(0..6) {
            0 => { let h = self.huge(); let s = self.small(); self.verify(h, s) }
            1 => { let h = self.huge(); let a = self.addr(1); self.verify(a, h) }
            2 => self.verify(0, MEM),
            3 => { let n = self.near_mem(); self.verify(self.m.hp, n) }
            _ => {}
        }
        // small reads on both sides of the boundaries
        for _ in 0..2 {
            if self.dead { return; }
            let n = [1u64, 8, 8, 32, 64, 255][self.rng.gen_range(0..6)];
            let a = self.addr(n);
            self.read(a, n);
        }
    }

    fn transaction(&mut self, profile: u32, len: usize) {
        let big = profile > 0;
        for _ in 0..len {
            if self.dead { return; }
            let (st, hp, sp) = (self.m.st(), self.m.hp, self.m.sp);
            let region = st + (MEM - hp);
            let mut mutated = true;
            let mut extra: Vec<u64> = vec![];
            match self.rng.gen_range(0..100) {
                0..=15 => {
                    let s = match self.rng.gen_range(0..12) {
                        0..=3 => { let k = self.small(); st + k }
                        4 => self.small(),
                        5 => sp.saturating_sub(self.small()),
                        6 => hp.wrapping_sub(1),
                        7 => hp,
                        8 => hp + 1,
                        9 if big => self.pow(),
                        10 if big => { let k = self.small(); hp.saturating_sub(k) }
                        11 => if self.rng.gen_bool(0.5) { self.huge() } else { self.near_mem() },
                        _ => { let k = self.small(); st + k }
                    };
                    self.grow_stack(s);
                }
                16..=30 => {
                    let room = hp.saturating_sub(sp);
                    let n = match self.rng.gen_range(0..12) {
                        0..=4 => self.small(),
                        5 if big => self.pow(),
                        6 if big => { let k = self.small(); room.saturating_sub(k) }
                        7 => room,
                        8 => room + 1,
                        9 => room.saturating_sub(1),
                        10 => hp.saturating_add(self.small() % 3),
                        11 => self.huge(),
                        _ => self.small(),
                    };
                    extra.push(hp);
                    self.grow_heap(n);
                }
                31..=55 => {
                    let n = if self.rng.gen_bool(0.7) { [1u64, 1, 8, 8, 8, 32, 64][self.rng.gen_range(0..7)] } else { self.small() };
                    let a = self.addr(n);
                    let d = self.data(n as usize);
                    extra.push(a);
                    self.write(a, &d);
                    // read the touched bytes back (and their neighbours)
                    if !self.dead && self.rng.gen_bool(0.5) { self.read(a, n); }
                    if !self.dead && self.rng.gen_bool(0.2) { self.dump(a.saturating_sub(64), n + 128); }
                }
                56..=72 => {
                    let n = match self.rng.gen_range(0..14) { 0 => 0, 1 => self.near_mem(), 2 => self.huge(), 3 => self.pow().min(1 << 16),
                                                              4..=8 => [1u64, 2, 8, 8, 32, 64][self.rng.gen_range(0..6)], _ => self.small() };
                    let (fs, fh) = (st >= n, MEM - hp >= n);
                    // a source that is (mostly) a readable placement of n bytes, then a destination related to it
                    let mut s_heap = None;
                    let s = if (fs || fh) && self.rng.gen_bool(0.85) {
                        let heap = if fs && fh { self.rng.gen_bool(0.5) } else { fh };
                        s_heap = Some(heap);
                        self.place(heap, n)
                    } else { self.addr(n) };
                    let cross = fs && fh && s_heap.is_some() && self.rng.gen_bool(0.35);
                    let d = match self.rng.gen_range(0..22) {
                        _ if cross => self.place(!s_heap.unwrap(), n),
                        0 => s,
                        1 => s.wrapping_add(1),
                        2 => s.wrapping_sub(1),
                        3 => s.wrapping_add(n).wrapping_sub(1),
                        4 => s.wrapping_sub(n).wrapping_add(1),
                        5 | 6 => s.wrapping_add(n),
                        7 | 8 => s.wrapping_sub(n),
                        9 => s.wrapping_add(n).wrapping_add(1),
                        10 => s.wrapping_sub(n).wrapping_sub(1),
                        11 => { let k = self.rng.gen_range(0..=n); s.wrapping_add(k) }
                        12 => { let k = self.rng.gen_range(0..=n); s.wrapping_sub(k) }
                        13..=16 if fs => self.place(false, n),
                        17..=20 if fh => self.place(true, n),
                        _ => self.addr(n),
                    };
                    let (d, s) = if self.rng.gen_bool(0.25) { (s, d) } else { (d, s) };
                    // give the source something to copy
                    if n >= 1 && n <= 4096 && self.rng.gen_bool(0.7) && self.m.verify(s, n).map(|r| r.is_ok()).unwrap_or(false) {
                        let data = self.data(n as usize);
                        self.write(s, &data);
                    }
                    extra.push(d);
                    if !self.dead { self.copy(d, s, n); }
                    if !self.dead && n > 0 {
                        if n <= 1024 { self.read(d, n); } else { self.dump(d, n); }
                        if self.rng.gen_bool(0.3) && !self.dead { self.dump(d.saturating_sub(64), n.saturating_add(128)); }
                    }
                }
                73..=77 => {
                    if self.m.snaps.len() < 3 && (region < (8 << 20) || self.rng.gen_bool(0.3)) { self.snapshot(); }
                    mutated = false;
                }
                78..=83 => {
                    if !self.m.snaps.is_empty() {
                        let k = self.rng.gen_range(1..=self.m.snaps.len());
                        // histories in which the heap overtook part of the snapshot's stack are
                        // driven in their own segments (part rbtrunc)
                        let truncated = (self.m.snaps[k - 1].mem.stack_raw().len() as u64) > st;
                        if !truncated || self.allow_trunc_rollback {
                            self.rollback(k);
                            if !self.dead { self.eq_snap(k); }
                            if !self.dead { self.dump_all(); }
                        }
                    } else { mutated = false; }
                }
                84..=88 => {
                    if !self.m.snaps.is_empty() {
                        let k = self.rng.gen_range(1..=self.m.snaps.len());
                        self.eq_snap(k);
                    }
                    mutated = false;
                }
                89..=93 => {
                    let n = self.small();
                    let a = self.addr(n);
                    self.read(a, n);
                    mutated = false;
                }
                _ => {
                    if region < (2 << 20) || self.rng.gen_bool(0.15) { self.dump_all(); }
                    mutated = false;
                }
            }
            if mutated && !self.dead {
                self.probes(&extra);
                let region = self.m.st() + (MEM - self.m.hp);
                if !self.dead && (region < (1 << 20) && self.rng.gen_bool(0.12) || self.rng.gen_bool(0.02)) { self.dump_all(); }
            }
        }
    }

    /// leave the instance dirty exactly where a later transaction will look first
    fn dirty(&mut self) {
        let (st, hp) = (self.m.st(), self.m.hp);
        let mut spots = vec![hp, hp + 1, hp + 7, MEM - 1, MEM - 8, MEM - 64, st.wrapping_sub(1), st.wrapping_sub(8), 0];
        for _ in 0..6 {
            if !self.marks.is_empty() {
                let mk = self.marks[self.rng.gen_range(0..self.marks.len())];
                spots.push(mk);
                spots.push(mk.wrapping_sub(1));
            }
        }
        for a in spots {
            if self.dead { return; }
            let n = [1usize, 1, 2, 8][self.rng.gen_range(0..4)];
            if self.m.verify(a, n as u64).map(|r| r.is_ok()).unwrap_or(false) {
                let d = self.data(n);
                self.write(a, &d);
            }
        }
        // a block of a few KiB at the bottom of the heap and the top of the stack
        for (a, n) in [(hp, 2048u64.min(MEM - hp)), (st.saturating_sub(1024), 1024u64.min(st))] {
            if n > 0 && !self.dead && self.rng.gen_bool(0.5) {
                let d = self.data(n as usize);
                self.write(a, &d);
            }
        }
    }
}

fn record(o: &Opts) -> Res<()> {
    let out = Out::open(&o.out)?;
    let thorough = o.thorough();
    let part = o.opt("--part").unwrap_or_else(|| "hist".into());
    let want = |p: &str| part == "all" || part.split(',').any(|x| x == p);
    let mut d = Drv { m: M::new(), out, rng: o.rng(23), marks: vec![], dead: false, allow_trunc_rollback: false };

    if want("hist") {
        let (segs, txs, len) = if thorough { (48, 8, 48) } else { (10, 5, 40) };
        for sg in 0..segs {
            d.out.ev(json!({"ev": "Seg", "part": "hist", "fresh": true, "mem_size": MEM}));
            d.m = M::new();
            d.marks.clear();
            d.dead = false;
            for t in 0..txs {
                if d.dead { break; }
                // profile 0: a few KiB; 1: large regions; 2: stack and heap meet
                let profile = match (sg + t) % 5 { 0 | 1 | 2 => 0, 3 => 1, _ => 2 };
                let l = d.rng.gen_range(len / 2..=len);
                d.transaction(profile, l);
                if d.dead { break; }
                d.dump_all();
                d.dirty();
                if d.dead { break; }
                d.reset();
                if d.dead { break; }
                d.probes(&[]);
            }
        }
    }

    // histories in which the heap overtakes a part of the stack that an earlier snapshot still has
    if want("rbtrunc") {
        d.allow_trunc_rollback = true;
        for (stack, keep, gap) in [(100u64, 50u64, 10u64), (4096, 8, 0)] {
            d.out.ev(json!({"ev": "Seg", "part": "rbtrunc", "fresh": true, "mem_size": MEM}));
            d.m = M::new();
            d.marks.clear();
            d.dead = false;
            d.grow_stack(stack);
            let data = d.data(stack as usize);
            d.write(0, &data);
            d.snapshot();
            d.grow_stack(keep); // the caller lowers $sp (CFS); the extent stays
            d.grow_heap(MEM - keep - gap); // the heap overtakes [keep + gap, stack)
            if !d.dead { d.probes(&[stack]); }
            if !d.dead { d.rollback(1); }
            if !d.dead { d.eq_snap(1); }
            if !d.dead { d.dump_all(); }
            if !d.dead { d.probes(&[stack]); }
        }
    }
    let n = d.out.finish();
    eprintln!("mem: {n} events");
    for (k, (c, t)) in TIMES.lock().unwrap().iter() { eprintln!("  time {k}: {c} calls {:.1} ms", *t as f64 / 1e6); }
    Ok(())
}

fn main() {
    if std::env::var("VH_PANIC_TRACE").is_err() {
        std::panic::set_hook(Box::new(|_| {}));
    }
    let args: Vec<String> = std::env::args().collect();
    // Fresh 64 MiB allocations cost ~0.5 s each in this sandbox (page faults).  Re-run once with a
    // malloc configuration that keeps freed blocks in the process (no mmap, no trimming), so that
    // thousands of histories with regions near the 64 MiB limit fit the time budget.  This only
    // changes where the allocator takes memory from (recycled blocks are dirty, as in production).
    if std::env::var_os("MALLOC_MMAP_MAX_").is_none() {
        let st = std::process::Command::new(std::env::current_exe().expect("exe"))
            .args(&args[1..])
            .env("MALLOC_MMAP_MAX_", "0")
            .env("MALLOC_TRIM_THRESHOLD_", "4000000000")
            .env("MALLOC_ARENA_MAX", "1")
            .status()
            .expect("re-exec");
        exit(st.code().unwrap_or(3));
    }
    if args.len() < 3 {
        eprintln!("usage: vh_memory record|replay mem ...");
        exit(64);
    }
    let opts = Opts::parse(&args[3..]);
    let r = match (args[1].as_str(), args[2].as_str()) {
        ("record", "mem") => record(&opts),
        ("replay", "mem") => replay(&opts),
        (m, d) => {
            eprintln!("unknown mode/domain {m}/{d}");
            exit(64);
        }
    };
    if let Err(e) = r {
        eprintln!("vh error: {e}");
        exit(3);
    }
}
