//! vh_fee — conformance harness for C18 (fee and refund arithmetic).
//!
//!   vh_fee shapes fee [--tier T] -o shapes.ndjson         structural family of real transactions, measured
//!   vh_fee replay fee <behaviours.ndjson> -o out.ndjson   spec -> impl (Leg R): TLC-predicted values vs real code
//!   vh_fee record fee [--tier T] -o trace.ndjson          impl -> spec (Leg T): seeded random, validated by TLC
//!
//! The harness is dumb on purpose: it builds real transactions of the five chargeable kinds from a
//! "recipe", MEASURES the abstract quantities the specification talks about (serialized size, raw
//! witness lengths, which inputs are signed by which witness index, predicate lengths and declared
//! gas, which policies are set), calls the public fee API under `catch`, and logs / compares.  It
//! contains no fee formula and no expected value.
#[path = "../util.rs"]
mod util;

use fuel_tx::{
    field,
    input::{
        coin::{CoinPredicate, CoinSigned},
        message::{MessageCoinPredicate, MessageCoinSigned, MessageDataPredicate, MessageDataSigned},
    },
    policies::{Policies, PolicyType},
    BlobBody, BlobId, BlobIdExt, Chargeable, ConsensusParameters, Create, DependentCost, FeeParameters, GasCosts,
    GasCostsValues, Input, Output, Script, StorageSlot, Transaction, TransactionBuilder, TransactionFee, TxPointer,
    Upgrade, UpgradePurpose, Upload, UploadBody, UploadSubsection, UtxoId, Witness,
};
use fuel_tx::Blob;
use fuel_types::{canonical::Serialize as CanonSerialize, Address, AssetId, Bytes32, ContractId, Nonce, Salt};
use fuel_vm::checked_transaction::{CheckError, Checked, IntoChecked};
use rand::{rngs::StdRng, Rng};
use serde::{Deserialize, Serialize};
use serde_json::{json, Map, Value};
use std::panic::AssertUnwindSafe;
use std::process::exit;
use util::*;

// ------------------------------------------------------------------------------------------
// Recipes: how to build a real transaction (opaque to the specification)
// ------------------------------------------------------------------------------------------
#[derive(Serialize, Deserialize, Clone, Debug, Default)]
struct InRec {
    v: String, // coin_signed | coin_pred | msg_coin_signed | msg_coin_pred | msg_data_signed | msg_data_pred | contract
    #[serde(default)]
    w: u16,
    #[serde(default)]
    plen: usize,
    #[serde(default)]
    dlen: usize,
    #[serde(default)]
    mlen: usize,
    #[serde(default)]
    gas: String,
}

#[derive(Serialize, Deserialize, Clone, Debug, Default)]
struct Recipe {
    kind: String,
    #[serde(default)]
    script_len: usize,
    #[serde(default)]
    script_data_len: usize,
    #[serde(default)]
    sgl: String,
    #[serde(default)]
    inputs: Vec<InRec>,
    #[serde(default)]
    outputs: usize,
    #[serde(default)]
    wit: Vec<usize>,
    #[serde(default, skip_serializing_if = "Option::is_none")]
    tip: Option<String>,
    #[serde(default, skip_serializing_if = "Option::is_none")]
    wlimit: Option<String>,
    #[serde(default, skip_serializing_if = "Option::is_none")]
    maxfee: Option<String>,
    #[serde(default, skip_serializing_if = "Option::is_none")]
    maturity: Option<u32>,
    #[serde(default, skip_serializing_if = "Option::is_none")]
    expiration: Option<u32>,
    #[serde(default, skip_serializing_if = "Option::is_none")]
    owner: Option<u16>,
    #[serde(default)]
    bwi: u16,
    #[serde(default)]
    slots: usize,
    #[serde(default)]
    wi: u16,
    #[serde(default)]
    subs: u16,
    #[serde(default)]
    proof: usize,
    #[serde(default)]
    purpose: String, // cp | st
}

fn pu64(s: &str) -> u64 { if s.is_empty() { 0 } else { s.parse().expect("u64 string") } }

enum AnyTx {
    Script(Script),
    Create(Create),
    Upgrade(Upgrade),
    Upload(Upload),
    Blob(Blob),
}

macro_rules! with_tx {
    ($any:expr, $tx:ident => $body:expr) => {
        match $any {
            AnyTx::Script($tx) => $body,
            AnyTx::Create($tx) => $body,
            AnyTx::Upgrade($tx) => $body,
            AnyTx::Upload($tx) => $body,
            AnyTx::Blob($tx) => $body,
        }
    };
}

fn b32(i: usize, tag: u8) -> [u8; 32] {
    let mut a = [tag; 32];
    a[0] = i as u8;
    a[1] = (i >> 8) as u8;
    a
}

fn build_input(i: usize, r: &InRec) -> Input {
    let utxo = UtxoId::new(Bytes32::from(b32(i, 0x11)), i as u16);
    let owner = Address::from(b32(i, 0x22));
    let sender = Address::from(b32(i, 0x33));
    let nonce = Nonce::from(b32(i, 0x44));
    let amount = 1_000 + i as u64;
    let asset = AssetId::BASE;
    let gas = pu64(&r.gas);
    let pred = vec![0x5a_u8; r.plen];
    let pdata = vec![0x6b_u8; r.dlen];
    let mdata = vec![0x7c_u8; r.mlen];
    match r.v.as_str() {
        "coin_signed" => Input::coin_signed(utxo, owner, amount, asset, TxPointer::default(), r.w),
        "coin_pred" => Input::coin_predicate(utxo, owner, amount, asset, TxPointer::default(), gas, pred, pdata),
        "msg_coin_signed" => Input::message_coin_signed(sender, owner, amount, nonce, r.w),
        "msg_coin_pred" => Input::message_coin_predicate(sender, owner, amount, nonce, gas, pred, pdata),
        "msg_data_signed" => Input::message_data_signed(sender, owner, amount, nonce, r.w, mdata),
        "msg_data_pred" => Input::message_data_predicate(sender, owner, amount, nonce, gas, mdata, pred, pdata),
        "contract" => Input::contract(utxo, Bytes32::from(b32(i, 0x55)), Bytes32::from(b32(i, 0x66)), TxPointer::default(),
                                      ContractId::from(b32(i, 0x77))),
        other => panic!("unknown input variant {other}"),
    }
}

fn build(r: &Recipe) -> AnyTx {
    let mut pol = Policies::new();
    if let Some(v) = &r.tip { pol = pol.with_tip(pu64(v)); }
    if let Some(v) = &r.wlimit { pol = pol.with_witness_limit(pu64(v)); }
    if let Some(v) = &r.maxfee { pol = pol.with_max_fee(pu64(v)); }
    if let Some(v) = r.maturity { pol = pol.with_maturity(v.into()); }
    if let Some(v) = r.expiration { pol = pol.with_expiration(v.into()); }
    if let Some(v) = r.owner { pol = pol.with_owner(v as u64); }
    let inputs: Vec<Input> = r.inputs.iter().enumerate().map(|(i, x)| build_input(i, x)).collect();
    let outputs: Vec<Output> =
        (0..r.outputs).map(|i| Output::coin(Address::from(b32(i, 0x88)), i as u64, AssetId::BASE)).collect();
    let witnesses: Vec<Witness> = r.wit.iter().enumerate().map(|(i, n)| Witness::from(vec![(i as u8) ^ 0xa5; *n])).collect();
    match r.kind.as_str() {
        "Script" => AnyTx::Script(Transaction::script(pu64(&r.sgl), vec![0x24; r.script_len], vec![0x42; r.script_data_len],
                                                      pol, inputs, outputs, witnesses)),
        "Create" => {
            let slots: Vec<StorageSlot> =
                (0..r.slots).map(|i| StorageSlot::new(Bytes32::from(b32(i, 0x01)), Bytes32::from(b32(i, 0x02)))).collect();
            AnyTx::Create(Transaction::create(r.bwi, pol, Salt::from([7u8; 32]), slots, inputs, outputs, witnesses))
        }
        "Upgrade" => {
            let purpose = if r.purpose == "cp" {
                UpgradePurpose::ConsensusParameters { witness_index: r.wi, checksum: Bytes32::from([9u8; 32]) }
            } else {
                UpgradePurpose::StateTransition { root: Bytes32::from([8u8; 32]) }
            };
            AnyTx::Upgrade(Transaction::upgrade(purpose, pol, inputs, outputs, witnesses))
        }
        "Upload" => {
            let body = UploadBody {
                root: Bytes32::from([3u8; 32]),
                witness_index: r.wi,
                subsection_index: 0,
                subsections_number: r.subs,
                proof_set: (0..r.proof).map(|i| Bytes32::from(b32(i, 0x04))).collect(),
            };
            AnyTx::Upload(Transaction::upload(body, pol, inputs, outputs, witnesses))
        }
        "Blob" => {
            let body = BlobBody { id: BlobId::from([5u8; 32]), witness_index: r.wi };
            AnyTx::Blob(Transaction::blob(body, pol, inputs, outputs, witnesses))
        }
        other => panic!("unknown kind {other}"),
    }
}

// ------------------------------------------------------------------------------------------
// Measurement: the abstract transaction of spec/tx/Fee.tla, read off the real object
// ------------------------------------------------------------------------------------------
fn measure_common<T>(tx: &T) -> Map<String, Value>
where
    T: field::Inputs + field::Witnesses + field::Policies + CanonSerialize,
{
    let mut m = Map::new();
    m.insert("size".into(), json!(tx.to_bytes().len()));
    m.insert("wlens".into(), Value::Array(tx.witnesses().iter().map(|w| json!(w.as_ref().len())).collect()));
    let ins: Vec<Value> = tx
        .inputs()
        .iter()
        .map(|i| match i {
            Input::CoinSigned(CoinSigned { witness_index, .. })
            | Input::MessageCoinSigned(MessageCoinSigned { witness_index, .. })
            | Input::MessageDataSigned(MessageDataSigned { witness_index, .. }) => json!({"k": "signed", "w": *witness_index}),
            Input::CoinPredicate(CoinPredicate { predicate, predicate_gas_used, .. })
            | Input::MessageCoinPredicate(MessageCoinPredicate { predicate, predicate_gas_used, .. })
            | Input::MessageDataPredicate(MessageDataPredicate { predicate, predicate_gas_used, .. }) => {
                json!({"k": "pred", "len": predicate.len(), "gas": predicate_gas_used.to_string()})
            }
            Input::Contract(_) => json!({"k": "other"}),
        })
        .collect();
    m.insert("inputs".into(), Value::Array(ins));
    let mut pol = Map::new();
    let p = tx.policies();
    if let Some(v) = p.get(PolicyType::Tip) { pol.insert("tip".into(), json!(v.to_string())); }
    if let Some(v) = p.get(PolicyType::WitnessLimit) { pol.insert("wlimit".into(), json!(v.to_string())); }
    if let Some(v) = p.get(PolicyType::MaxFee) { pol.insert("maxfee".into(), json!(v.to_string())); }
    // a marker so that the JSON object is never empty (keeps the record shape uniform for TLC)
    pol.insert("set".into(), json!(p.len()));
    m.insert("pol".into(), Value::Object(pol));
    // kind specific fields, defaults
    m.insert("sgl".into(), json!("0"));
    m.insert("bwi".into(), json!(0));
    m.insert("slots".into(), json!(0));
    m.insert("wi".into(), json!(0));
    m.insert("subs".into(), json!(0));
    m.insert("purpose".into(), json!("-"));
    m
}

fn measure(any: &AnyTx) -> Value {
    use field::{BytecodeWitnessIndex, ScriptGasLimit, StorageSlots, SubsectionsNumber, UpgradePurpose as UP};
    let mut m = match any {
        AnyTx::Script(t) => {
            let mut m = measure_common(t);
            m.insert("kind".into(), json!("Script"));
            m.insert("sgl".into(), json!(t.script_gas_limit().to_string()));
            m
        }
        AnyTx::Create(t) => {
            let mut m = measure_common(t);
            m.insert("kind".into(), json!("Create"));
            m.insert("bwi".into(), json!(*t.bytecode_witness_index()));
            m.insert("slots".into(), json!(t.storage_slots().len()));
            m
        }
        AnyTx::Upgrade(t) => {
            let mut m = measure_common(t);
            m.insert("kind".into(), json!("Upgrade"));
            match t.upgrade_purpose() {
                UpgradePurpose::ConsensusParameters { witness_index, .. } => {
                    m.insert("purpose".into(), json!("cp"));
                    m.insert("wi".into(), json!(*witness_index));
                }
                UpgradePurpose::StateTransition { .. } => {
                    m.insert("purpose".into(), json!("st"));
                }
            }
            m
        }
        AnyTx::Upload(t) => {
            let mut m = measure_common(t);
            m.insert("kind".into(), json!("Upload"));
            m.insert("wi".into(), json!(*t.bytecode_witness_index()));
            m.insert("subs".into(), json!(*t.subsections_number()));
            m
        }
        AnyTx::Blob(t) => {
            let mut m = measure_common(t);
            m.insert("kind".into(), json!("Blob"));
            m.insert("wi".into(), json!(*t.bytecode_witness_index()));
            m
        }
    };
    let _ = &mut m;
    Value::Object(m)
}

// ------------------------------------------------------------------------------------------
// Gas schedules (configuration is logged, never frozen in the spec)
// ------------------------------------------------------------------------------------------
#[derive(Clone, Debug)]
struct FeeCosts {
    eck1: u64,
    s256: DependentCost,
    contract_root: DependentCost,
    state_root: DependentCost,
    vm_init: DependentCost,
    nspb: u64,
}

macro_rules! versioned {
    ($ver:expr, $fc:expr, $base:ident, [$($n:literal => $variant:ident : $ty:ident),*]) => {
        match $ver {
            $($n => {
                let mut v = fuel_tx::consensus_parameters::gas::$ty::$base();
                v.eck1 = $fc.eck1;
                v.s256 = $fc.s256;
                v.contract_root = $fc.contract_root;
                v.state_root = $fc.state_root;
                v.vm_initialization = $fc.vm_init;
                v.new_storage_per_byte = $fc.nspb;
                GasCosts::new(GasCostsValues::$variant(v))
            })*
            _ => unreachable!(),
        }
    };
}

/// a schedule of the given enum version whose fee-relevant entries are `fc` (all others = unit)
fn custom_costs(ver: u8, fc: &FeeCosts) -> GasCosts {
    versioned!(ver, fc, unit, [1 => V1: GasCostsValuesV1, 2 => V2: GasCostsValuesV2, 3 => V3: GasCostsValuesV3,
                               4 => V4: GasCostsValuesV4, 5 => V5: GasCostsValuesV5, 6 => V6: GasCostsValuesV6,
                               7 => V7: GasCostsValuesV7])
}

fn dep_json(v: &Value) -> Value {
    if let Some(l) = v.get("LightOperation") {
        json!({"k": "light", "base": l["base"].as_u64().unwrap().to_string(), "upg": l["units_per_gas"].as_u64().unwrap().to_string(), "gpu": "0"})
    } else {
        let h = &v["HeavyOperation"];
        json!({"k": "heavy", "base": h["base"].as_u64().unwrap().to_string(), "gpu": h["gas_per_unit"].as_u64().unwrap().to_string(), "upg": "1"})
    }
}

/// the schedule as the spec sees it, read off the real GasCosts object through its serde serialisation
fn costs_json(gc: &GasCosts) -> Value {
    let v = serde_json::to_value(gc).expect("gas costs serialise");
    let (ver, inner) = v.as_object().expect("versioned enum").iter().next().expect("one variant");
    json!({
        "ver": ver,
        "eck1": inner["eck1"].as_u64().unwrap().to_string(),
        "nspb": inner["new_storage_per_byte"].as_u64().unwrap().to_string(),
        "s256": dep_json(&inner["s256"]),
        "contract_root": dep_json(&inner["contract_root"]),
        "state_root": dep_json(&inner["state_root"]),
        "vm_init": dep_json(&inner["vm_initialization"]),
    })
}

fn heavy(base: u64, gpu: u64) -> DependentCost { DependentCost::HeavyOperation { base, gas_per_unit: gpu } }
fn light(base: u64, upg: u64) -> DependentCost { DependentCost::LightOperation { base, units_per_gas: upg } }

/// named deterministic schedules used by the structural family (Leg R)
fn named_costs(name: &str) -> GasCosts {
    match name {
        "default" => GasCosts::default(),
        "unit" => GasCosts::unit(),
        "free" => GasCosts::free(),
        // mixed light/heavy with distinct primes: every entry is distinguishable from every other
        "mixed" => custom_costs(7, &FeeCosts {
            eck1: 3_001, s256: light(17, 3), contract_root: heavy(101, 7), state_root: light(211, 2),
            vm_init: heavy(1_009, 5), nspb: 11,
        }),
        // old enum version, other mix
        "mixed_v1" => custom_costs(1, &FeeCosts {
            eck1: 907, s256: heavy(13, 2), contract_root: light(29, 5), state_root: heavy(31, 19),
            vm_init: light(37, 7), nspb: 23,
        }),
        // values that drive the sums to and beyond the u64 limit
        "huge" => custom_costs(4, &FeeCosts {
            eck1: 1 << 62, s256: heavy(1 << 61, 1 << 40), contract_root: heavy(u64::MAX - 5, 0), state_root: light(1 << 63, 1),
            vm_init: heavy(5, 1 << 50), nspb: u64::MAX,
        }),
        other => panic!("unknown schedule {other}"),
    }
}

// ------------------------------------------------------------------------------------------
// Calling the real code
// ------------------------------------------------------------------------------------------
struct Obs {
    min_gas: Result<u64, String>,
    max_gas: Result<u64, String>,
    min_fee: Result<u128, String>,
    max_fee: Result<u128, String>,
    refunds: Vec<(u64, Result<Option<u64>, String>)>,
    summary: Result<Option<TransactionFee>, String>,
    ready: Result<Result<(), CheckError>, String>,
}

fn carrier_script() -> Checked<Script> {
    use fuel_vm::checked_transaction::builder::TransactionBuilderExt;
    TransactionBuilder::script(vec![], vec![]).max_fee_limit(1000).add_fee_input().finalize_checked_basic(Default::default())
}
fn carrier_create() -> Checked<Create> {
    use fuel_vm::checked_transaction::builder::TransactionBuilderExt;
    TransactionBuilder::create(Witness::default(), [123; 32].into(), vec![])
        .max_fee_limit(1000)
        .add_fee_input()
        .add_contract_created()
        .finalize_checked_basic(Default::default())
}
fn carrier_upgrade() -> Checked<Upgrade> {
    use fuel_vm::checked_transaction::builder::TransactionBuilderExt;
    TransactionBuilder::upgrade(UpgradePurpose::StateTransition { root: Default::default() })
        .max_fee_limit(1000)
        .add_input(Input::coin_signed(Default::default(), *ConsensusParameters::standard().privileged_address(), 1000,
                                      AssetId::BASE, Default::default(), 0))
        .add_fee_input()
        .finalize_checked_basic(Default::default())
}
fn carrier_upload() -> Checked<Upload> {
    use fuel_vm::checked_transaction::builder::TransactionBuilderExt;
    let subsections = UploadSubsection::split_bytecode(&vec![123; 1024], 24).expect("split");
    let s = subsections[0].clone();
    TransactionBuilder::upload(UploadBody {
        root: s.root,
        witness_index: 0,
        subsection_index: s.subsection_index,
        subsections_number: s.subsections_number,
        proof_set: s.proof_set,
    })
    .add_witness(s.subsection.into())
    .max_fee_limit(1000)
    .add_fee_input()
    .finalize_checked_basic(Default::default())
}
fn carrier_blob() -> Checked<Blob> {
    use fuel_vm::checked_transaction::builder::TransactionBuilderExt;
    let data = vec![1u8; 100];
    let mut b = TransactionBuilder::blob(BlobBody { id: BlobId::compute(&data), witness_index: 0 });
    b.add_witness(data.into());
    b.max_fee_limit(1000);
    b.add_fee_input();
    b.finalize_checked_basic(Default::default())
}

/// Checked<T> carrying `tx`: a valid carrier transaction of the same kind passes the real checks,
/// then the transaction under test is put in its place (test-helpers AsMut), so that
/// Checked::into_ready can be exercised on arbitrary fee situations.
struct Carriers {
    script: Checked<Script>,
    create: Checked<Create>,
    upgrade: Checked<Upgrade>,
    upload: Checked<Upload>,
    blob: Checked<Blob>,
}
impl Carriers {
    fn new() -> Self {
        Carriers { script: carrier_script(), create: carrier_create(), upgrade: carrier_upgrade(), upload: carrier_upload(), blob: carrier_blob() }
    }
}

fn observe_tx<T>(tx: &T, carrier: &Checked<T>, gc: &GasCosts, fp: &FeeParameters, price: u64, useds: &[u64]) -> Obs
where
    T: Chargeable + IntoChecked + Clone,
    Checked<T>: Clone + AsMut<T>,
{
    let min_gas = catch(AssertUnwindSafe(|| tx.min_gas(gc, fp)));
    let max_gas = catch(AssertUnwindSafe(|| tx.max_gas(gc, fp)));
    let min_fee = catch(AssertUnwindSafe(|| tx.min_fee(gc, fp, price)));
    let max_fee = catch(AssertUnwindSafe(|| tx.max_fee(gc, fp, price)));
    let refunds = useds.iter().map(|u| (*u, catch(AssertUnwindSafe(|| tx.refund_fee(gc, fp, *u, price))))).collect();
    let summary = catch(AssertUnwindSafe(|| TransactionFee::checked_from_tx(gc, fp, tx, price)));
    let ready = catch(AssertUnwindSafe(|| {
        let mut c = carrier.clone();
        *c.as_mut() = tx.clone();
        c.into_ready(price, gc, fp, None).map(|_| ())
    }));
    Obs { min_gas, max_gas, min_fee, max_fee, refunds, summary, ready }
}

fn observe(any: &AnyTx, car: &Carriers, gc: &GasCosts, fp: &FeeParameters, price: u64, useds: &[u64]) -> Obs {
    match any {
        AnyTx::Script(t) => observe_tx(t, &car.script, gc, fp, price, useds),
        AnyTx::Create(t) => observe_tx(t, &car.create, gc, fp, price, useds),
        AnyTx::Upgrade(t) => observe_tx(t, &car.upgrade, gc, fp, price, useds),
        AnyTx::Upload(t) => observe_tx(t, &car.upload, gc, fp, price, useds),
        AnyTx::Blob(t) => observe_tx(t, &car.blob, gc, fp, price, useds),
    }
}

fn summary_json(s: &Option<TransactionFee>) -> Value {
    match s {
        None => json!("none"),
        Some(f) => json!({"min_fee": f.min_fee().to_string(), "max_fee": f.max_fee().to_string(),
                          "min_gas": f.min_gas().to_string(), "max_gas": f.max_gas().to_string()}),
    }
}
fn refund_json(r: &Option<u64>) -> Value {
    match r {
        None => json!("none"),
        Some(v) => json!(v.to_string()),
    }
}
/// (ok, error kind, fee limit reported, max fee reported)
fn ready_json(r: &Result<(), CheckError>) -> (bool, String, String, String) {
    match r {
        Ok(()) => (true, "".into(), "".into(), "".into()),
        Err(CheckError::InsufficientMaxFee { max_fee_from_policies, max_fee_from_gas_price }) => {
            (false, "InsufficientMaxFee".into(), max_fee_from_policies.to_string(), max_fee_from_gas_price.to_string())
        }
        Err(CheckError::Validity(v)) => (false, format!("Validity::{v:?}"), "".into(), "".into()),
        Err(e) => (false, format!("{e:?}"), "".into(), "".into()),
    }
}

// ------------------------------------------------------------------------------------------
// The structural family (deterministic): the shapes Leg R enumerates
// ------------------------------------------------------------------------------------------
fn inr(v: &str, w: u16, plen: usize, dlen: usize, mlen: usize) -> InRec {
    InRec { v: v.into(), w, plen, dlen, mlen, gas: "0".into() }
}

fn base_recipe(kind: &str) -> Recipe {
    let mut r = Recipe { kind: kind.into(), sgl: "0".into(), ..Default::default() };
    r.tip = Some("0".into());
    r.wlimit = Some("0".into());
    r.maxfee = Some("0".into());
    match kind {
        "Script" => { r.script_len = 4; r.script_data_len = 0; }
        "Create" => { r.bwi = 0; }
        "Upgrade" => { r.purpose = "st".into(); }
        "Upload" => { r.subs = 1; }
        _ => {}
    }
    r
}

/// (family, recipe): family "feegrid" = exactly one predicate input and nothing else that costs gas
/// under the free schedule (min_gas = declared predicate gas); "gas" = the structural variety.
fn shape_family(thorough: bool) -> Vec<(String, Recipe)> {
    let mut v: Vec<(String, Recipe)> = vec![];
    let kinds = ["Script", "Create", "Upgrade", "Upload", "Blob"];
    for k in kinds {
        // feegrid shape: one predicate, one witness
        let mut r = base_recipe(k);
        r.inputs = vec![inr("coin_pred", 0, 8, 0, 0)];
        r.wit = vec![16];
        v.push(("feegrid".into(), r));
    }
    for k in kinds {
        // 1. no inputs, no witnesses (index points nowhere)
        let r = base_recipe(k);
        v.push(("gas".into(), r));
        // 2. signed inputs sharing witnesses: indices 0,0,1,0 + a contract input; three witnesses of odd lengths
        let mut r = base_recipe(k);
        r.inputs = vec![inr("coin_signed", 0, 0, 0, 0), inr("msg_coin_signed", 0, 0, 0, 0), inr("msg_data_signed", 1, 0, 0, 13),
                        inr("coin_signed", 0, 0, 0, 0), inr("contract", 0, 0, 0, 0)];
        r.wit = vec![64, 65, 7];
        r.outputs = 2;
        match k { "Create" => { r.bwi = 2; r.slots = 3; } "Upgrade" => { r.purpose = "cp".into(); r.wi = 1; }
                  "Upload" => { r.wi = 1; r.subs = 5; r.proof = 3; } "Blob" => { r.wi = 2; } _ => { r.script_len = 20; r.script_data_len = 9; } }
        v.push(("gas".into(), r));
        // 3. all distinct witness indices, one pointing outside the witness vector
        let mut r = base_recipe(k);
        r.inputs = vec![inr("coin_signed", 2, 0, 0, 0), inr("msg_coin_signed", 1, 0, 0, 0), inr("msg_data_signed", 0, 0, 0, 8),
                        inr("coin_signed", 9, 0, 0, 0)];
        r.wit = vec![0, 1, 8];
        match k { "Create" => { r.bwi = 1; r.slots = 1; } "Upgrade" => { r.purpose = "cp".into(); r.wi = 2; }
                  "Upload" => { r.wi = 2; r.subs = 2; r.proof = 1; } "Blob" => { r.wi = 0; } _ => { r.script_len = 8; } }
        v.push(("gas".into(), r));
        // 4. predicates of the three variants with different lengths, mixed with signed inputs
        let mut r = base_recipe(k);
        r.inputs = vec![inr("coin_pred", 0, 24, 5, 0), inr("coin_signed", 1, 0, 0, 0), inr("msg_coin_pred", 0, 1, 0, 0),
                        inr("msg_data_pred", 0, 100, 16, 33), inr("msg_coin_signed", 1, 0, 0, 0)];
        r.wit = vec![3, 64];
        r.outputs = 1;
        match k { "Create" => { r.bwi = 0; r.slots = 2; } "Upgrade" => { r.purpose = "cp".into(); r.wi = 0; }
                  "Upload" => { r.wi = 0; r.subs = 3; r.proof = 2; } "Blob" => { r.wi = 1; } _ => { r.script_len = 12; r.script_data_len = 40; } }
        v.push(("gas".into(), r));
        // 5. payload witness index out of range, policies partly absent
        let mut r = base_recipe(k);
        r.inputs = vec![inr("coin_pred", 0, 16, 0, 0), inr("coin_signed", 0, 0, 0, 0)];
        r.wit = vec![32];
        r.tip = None;
        r.maturity = Some(3);
        match k { "Create" => { r.bwi = 5; } "Upgrade" => { r.purpose = "cp".into(); r.wi = 7; }
                  "Upload" => { r.wi = 1; r.subs = 0; } "Blob" => { r.wi = 3; } _ => {} }
        v.push(("gas".into(), r));
        if thorough {
            // 6. larger payloads, crossing light-operation granularity; no witness-limit policy
            let mut r = base_recipe(k);
            r.inputs = vec![inr("msg_data_pred", 0, 257, 3, 1), inr("coin_signed", 0, 0, 0, 0), inr("coin_signed", 1, 0, 0, 0)];
            r.wit = vec![1000, 213];
            r.wlimit = None;
            r.expiration = Some(100);
            match k { "Create" => { r.bwi = 0; r.slots = 7; } "Upgrade" => { r.purpose = "cp".into(); r.wi = 1; }
                      "Upload" => { r.wi = 0; r.subs = 300; r.proof = 9; } "Blob" => { r.wi = 0; } _ => { r.script_len = 400; r.script_data_len = 1; } }
            v.push(("gas".into(), r));
            // 7. no fee-limit policy, owner policy set
            let mut r = base_recipe(k);
            r.inputs = vec![inr("coin_signed", 0, 0, 0, 0), inr("coin_pred", 0, 40, 0, 0)];
            r.wit = vec![64];
            r.maxfee = None;
            r.owner = Some(0);
            match k { "Upgrade" => { r.purpose = "st".into(); } "Upload" => { r.subs = 1; } _ => {} }
            v.push(("gas".into(), r));
        }
    }
    v
}

const SCHEDS: [&str; 6] = ["free", "default", "unit", "mixed", "mixed_v1", "huge"];

fn shapes(o: &Opts) -> Res<()> {
    let mut out = Out::open(&o.out)?;
    let scheds: Vec<Value> = SCHEDS.iter().map(|n| json!({"name": n, "c": costs_json(&named_costs(n))})).collect();
    out.ev(json!({"scheds": scheds}));
    for (i, (fam, r)) in shape_family(o.thorough()).iter().enumerate() {
        let tx = build(r);
        out.ev(json!({"sid": i + 1, "fam": fam, "recipe": r, "t": measure(&tx)}));
    }
    out.finish();
    Ok(())
}

// ------------------------------------------------------------------------------------------
// Leg R: replay of TLC-generated points
// ------------------------------------------------------------------------------------------
fn apply_sub(r: &Recipe, sub: &Value) -> Recipe {
    let mut r = r.clone();
    let g = jstr(sub, "gas");
    for i in r.inputs.iter_mut() {
        if i.v.ends_with("_pred") { i.gas = g.clone(); }
    }
    if r.kind == "Script" { r.sgl = jstr(sub, "sgl"); }
    let set = |slot: &mut Option<String>, key: &str| {
        let v = jstr(sub, key);
        if slot.is_some() { assert!(v != "absent"); *slot = Some(v); } else { assert!(v == "absent", "policy {key} not in shape"); }
    };
    set(&mut r.tip, "tip");
    set(&mut r.wlimit, "wlimit");
    set(&mut r.maxfee, "maxfee");
    r
}

fn replay(o: &Opts) -> Res<()> {
    let shapes_path = o.opt("--shapes").expect("--shapes");
    let sh = read_lines(&shapes_path)?;
    let recipes: std::collections::HashMap<u64, Recipe> = sh.iter().skip(1)
        .map(|s| (ju64(s, "sid"), serde_json::from_value(s["recipe"].clone()).expect("recipe"))).collect();
    let sched_hdr: std::collections::HashMap<String, Value> = sh[0]["scheds"].as_array().expect("scheds").iter()
        .map(|x| (jstr(x, "name"), x["c"].clone())).collect();
    let car = Carriers::new();
    let mut out = Out::open(&o.out)?;
    let f = std::io::BufReader::new(std::fs::File::open(o.input.as_ref().expect("input"))?);
    let mut n = 0u64;
    let mut comparisons = 0u64;
    let mut mismatches = 0u64;
    use std::io::BufRead;
    let mut costs_cache: std::collections::HashMap<String, GasCosts> = Default::default();
    for ln in f.lines() {
        let ln = ln?;
        if ln.trim().is_empty() { continue; }
        let b: Value = serde_json::from_str(&ln)?;
        n += 1;
        let sid = ju64(&b, "sid");
        let r = apply_sub(&recipes[&sid], &b["sub"]);
        let tx = build(&r);
        let sname = jstr(&b, "sched");
        let gc = costs_cache.entry(sname.clone()).or_insert_with(|| named_costs(&sname)).clone();
        let mut mism = |what: &str, exp: Value, obs: Value, out: &mut Out| {
            mismatches += 1;
            out.ev(json!({"mismatch": what, "kind": r.kind, "expected": exp, "observed": obs, "point": b, "recipe": r}));
        };
        // the abstract transaction the spec computed with must be what the real object measures to
        let t = measure(&tx);
        if t != b["t"] { mism("abstract-transaction", b["t"].clone(), t.clone(), &mut out); continue; }
        // the schedule TLC computed with (header of the shapes file) must be the one used here
        if costs_json(&gc) != sched_hdr[&sname] { mism("schedule", sched_hdr[&sname].clone(), costs_json(&gc), &mut out); continue; }
        let fp = FeeParameters::default().with_gas_per_byte(ju64(&b, "gpb")).with_gas_price_factor(ju64(&b, "factor"));
        let price = ju64(&b, "price");
        let useds: Vec<u64> = b["useds"].as_array().unwrap().iter().map(|x| x.as_str().unwrap().parse().unwrap()).collect();
        let obs = observe(&tx, &car, &gc, &fp, price, &useds);
        let e = &b["exp"];
        let mut cmp = |what: &str, exp: &Value, got: Result<Value, String>, out: &mut Out| {
            comparisons += 1;
            match got {
                Ok(v) => if &v != exp { mism(what, exp.clone(), v, out) },
                Err(p) => mism(&format!("{what}-host-panic"), exp.clone(), json!(p), out),
            }
        };
        cmp("min_gas", &e["min_gas"], obs.min_gas.map(|v| json!(v.to_string())), &mut out);
        cmp("max_gas", &e["max_gas"], obs.max_gas.map(|v| json!(v.to_string())), &mut out);
        cmp("min_fee", &e["min_fee"], obs.min_fee.map(|v| json!(v.to_string())), &mut out);
        cmp("max_fee", &e["max_fee"], obs.max_fee.map(|v| json!(v.to_string())), &mut out);
        for (i, (_, rr)) in obs.refunds.into_iter().enumerate() {
            let ex = &e["refunds"][i];
            // "free": outside the domain where the property defines the refund; only "no panic" is compared
            if ex == "free" {
                cmp("refund", &json!("any"), rr.map(|_| json!("any")), &mut out);
            } else {
                cmp("refund", ex, rr.map(|x| refund_json(&x)), &mut out);
            }
        }
        cmp("fee_summary", &e["summary"], obs.summary.map(|s| summary_json(&s)), &mut out);
        cmp("ready", &e["ready"], obs.ready.map(|x| json!(if x.is_ok() { "ok" } else { "reject" })), &mut out);
    }
    out.ev(json!({"summary": {"behaviours": n, "steps": comparisons, "mismatches": mismatches}}));
    out.finish();
    Ok(())
}

// ------------------------------------------------------------------------------------------
// Leg T: seeded random recording
// ------------------------------------------------------------------------------------------
const B: [u64; 12] = [0, 1, 2, 3, (1 << 32) - 1, 1 << 32, (1 << 32) + 1, (1 << 63) - 1, 1 << 63, (1 << 63) + 1, u64::MAX - 1, u64::MAX];

fn boundary(rng: &mut StdRng) -> u64 { B[rng.gen_range(0..B.len())] }
/// boundary-biased u64: realistic small values most of the time, boundaries and wide values otherwise
fn val(rng: &mut StdRng, small_max: u64, wild: u32) -> u64 {
    let p = rng.gen_range(0..100);
    if p < 100 - wild { rng.gen_range(0..=small_max) }
    else if p < 100 - wild / 3 { boundary(rng) }
    else { let bits = rng.gen_range(1..=64); rng.gen::<u64>() >> (64 - bits) }
}

fn rand_dep(rng: &mut StdRng, wild: u32) -> DependentCost {
    if rng.gen_bool(0.5) { light(val(rng, 3_000, wild), val(rng, 400, wild / 2).max(1)) } else { heavy(val(rng, 3_000, wild), val(rng, 50, wild)) }
}

fn rand_sched(rng: &mut StdRng) -> (String, GasCosts) {
    match rng.gen_range(0..10) {
        0..=2 => ("default".into(), GasCosts::default()),
        3 => ("unit".into(), GasCosts::unit()),
        4 => ("free".into(), GasCosts::free()),
        _ => {
            let wild = if rng.gen_bool(0.3) { 45 } else { 0 };
            let fc = FeeCosts {
                eck1: val(rng, 5_000, wild), s256: rand_dep(rng, wild), contract_root: rand_dep(rng, wild),
                state_root: rand_dep(rng, wild), vm_init: rand_dep(rng, wild), nspb: val(rng, 100, wild),
            };
            ("random".into(), custom_costs(rng.gen_range(1..=7), &fc))
        }
    }
}

fn rand_len(rng: &mut StdRng, max: usize) -> usize {
    match rng.gen_range(0..10) {
        0 => 0,
        1 => 1,
        2 => 7,
        3 => 8,
        4 => 9,
        _ => rng.gen_range(0..=max),
    }
}

fn rand_recipe(rng: &mut StdRng, thorough: bool) -> Recipe {
    let kind = ["Script", "Create", "Upgrade", "Upload", "Blob"][rng.gen_range(0..5)];
    let mut r = Recipe { kind: kind.into(), sgl: "0".into(), ..Default::default() };
    // a quarter of the transactions carry gas amounts near the u64 limits; the rest stay realistic so that
    // nothing saturates and every term of the sums is visible in the results
    let wild: u32 = if rng.gen_bool(0.25) { 40 } else { 0 };
    let nwit = rng.gen_range(0..=4usize);
    let big = if thorough && rng.gen_bool(0.05) { 20_000 } else { 300 };
    r.wit = (0..nwit).map(|_| rand_len(rng, big)).collect();
    let nin = match rng.gen_range(0..6) { 0 => 0, 1 => 1, _ => rng.gen_range(0..=8usize) };
    let widx = |rng: &mut StdRng| -> u16 {
        // mostly inside the witness vector (sharing likely), sometimes just outside / far outside
        match rng.gen_range(0..12) { 0 => nwit as u16, 1 => u16::MAX, _ => if nwit == 0 { 0 } else { rng.gen_range(0..nwit) as u16 } }
    };
    for _ in 0..nin {
        let v = ["coin_signed", "coin_pred", "msg_coin_signed", "msg_coin_pred", "msg_data_signed", "msg_data_pred", "contract"][rng.gen_range(0..7)];
        let mut x = inr(v, widx(rng), 0, 0, 0);
        if v.ends_with("_pred") {
            x.plen = rand_len(rng, 600);
            x.dlen = rand_len(rng, 40);
            x.gas = val(rng, 1_000_000, wild).to_string();
        }
        if v.starts_with("msg_data") { x.mlen = rand_len(rng, 60).max(1); }
        r.inputs.push(x);
    }
    r.outputs = rng.gen_range(0..=3);
    if rng.gen_bool(0.8) { r.tip = Some(val(rng, 1_000, 15).to_string()); }
    if rng.gen_bool(0.9) { r.maxfee = Some(val(rng, 10_000_000_000, 25).to_string()); }
    if rng.gen_bool(0.8) {
        // around the serialized size of the witnesses (8-byte length + data padded to 8), or wide
        let ws: u64 = r.wit.iter().map(|n| 8 + ((*n as u64 + 7) / 8) * 8).sum();
        let w = match rng.gen_range(0..10) {
            0 => 0,
            1 => ws.saturating_sub(1),
            2 => ws.saturating_sub(8),
            3 | 4 => ws,
            5 => ws + 1,
            6 => ws + 8,
            7 => ws + rng.gen_range(0..100_000),
            _ => val(rng, 100_000, 50),
        };
        r.wlimit = Some(w.to_string());
    }
    if rng.gen_bool(0.2) { r.maturity = Some(rng.gen_range(0..10)); }
    if rng.gen_bool(0.2) { r.expiration = Some(rng.gen_range(0..1000)); }
    if rng.gen_bool(0.1) { r.owner = Some(0); }
    let pidx = widx(rng);
    match kind {
        "Script" => {
            r.script_len = rand_len(rng, 200);
            r.script_data_len = rand_len(rng, 200);
            r.sgl = val(rng, 10_000_000, wild).to_string();
        }
        "Create" => { r.bwi = pidx; r.slots = rng.gen_range(0..=5); }
        "Upgrade" => { r.purpose = if rng.gen_bool(0.6) { "cp".into() } else { "st".into() }; r.wi = pidx; }
        "Upload" => { r.wi = pidx; r.subs = match rng.gen_range(0..5) { 0 => 0, 1 => u16::MAX, _ => rng.gen_range(0..600) }; r.proof = rng.gen_range(0..=4); }
        _ => { r.wi = pidx; }
    }
    r
}

fn log_obs(out: &mut Out, kind: &str, obs: Obs) {
    let panic_ev = |out: &mut Out, wh: &str, msg: String| out.ev(json!({"ev": "HostPanic", "kind": kind, "where": wh, "msg": msg}));
    match obs.min_gas { Ok(v) => out.ev(json!({"ev": "MinGas", "kind": kind, "v": v.to_string()})), Err(m) => panic_ev(out, "min_gas", m) }
    match obs.max_gas { Ok(v) => out.ev(json!({"ev": "MaxGas", "kind": kind, "v": v.to_string()})), Err(m) => panic_ev(out, "max_gas", m) }
    match obs.min_fee { Ok(v) => out.ev(json!({"ev": "MinFee", "kind": kind, "v": v.to_string()})), Err(m) => panic_ev(out, "min_fee", m) }
    match obs.max_fee { Ok(v) => out.ev(json!({"ev": "MaxFee", "kind": kind, "v": v.to_string()})), Err(m) => panic_ev(out, "max_fee", m) }
    for (u, r) in obs.refunds {
        match r {
            Ok(x) => out.ev(json!({"ev": "Refund", "kind": kind, "used": u.to_string(), "r": refund_json(&x)})),
            Err(m) => panic_ev(out, "refund_fee", m),
        }
    }
    match obs.summary { Ok(s) => out.ev(json!({"ev": "FeeSummary", "kind": kind, "r": summary_json(&s)})), Err(m) => panic_ev(out, "checked_from_tx", m) }
    match obs.ready {
        Ok(r) => {
            let (ok, err, pol, fee) = ready_json(&r);
            out.ev(json!({"ev": "Ready", "kind": kind, "ok": ok, "err": err, "pol": pol, "fee": fee}));
        }
        Err(m) => panic_ev(out, "into_ready", m),
    }
}

fn record(o: &Opts) -> Res<()> {
    let mut out = Out::open(&o.out)?;
    let mut rng = o.rng(0xfee);
    let car = Carriers::new();
    let ntx: usize = o.opt("--n").map(|s| s.parse().unwrap()).unwrap_or(if o.thorough() { 20_000 } else { 600 });
    for txi in 0..ntx {
        let r = rand_recipe(&mut rng, o.thorough());
        let tx = build(&r);
        let t = measure(&tx);
        let kind = r.kind.clone();
        // several parameter situations per transaction
        for _ in 0..3 {
            let (sname, gc) = rand_sched(&mut rng);
            let wildp = if rng.gen_bool(0.35) { 60 } else { 0 };
            let gpb = val(&mut rng, 100, wildp);
            let factor = match rng.gen_range(0..10) {
                0 => 1,
                1 => 2,
                2 | 3 => 92,
                4 => 1_000_000_000,
                _ => val(&mut rng, 100_000, wildp).max(1),
            };
            let price = val(&mut rng, 2_000, wildp.max(10));
            let fp = FeeParameters::default().with_gas_per_byte(gpb).with_gas_price_factor(factor);
            // used-gas values: small, around the script gas limit, boundaries
            let sgl = pu64(&r.sgl);
            let mut useds: Vec<u64> = vec![0, 1, val(&mut rng, 100_000, 0), sgl, sgl.saturating_add(1), val(&mut rng, 1 << 40, 50), boundary(&mut rng)];
            if let Ok(mg) = catch(AssertUnwindSafe(|| with_tx!(&tx, x => x.min_gas(&gc, &fp)))) {
                // the point where min_gas + used reaches the u64 limit (input selection only)
                useds.push(u64::MAX - mg);
                useds.push((u64::MAX - mg).saturating_sub(1));
                useds.push((u64::MAX - mg).saturating_add(1));
            }
            let obs = observe(&tx, &car, &gc, &fp, price, &useds);
            out.ev(json!({"ev": "Seg"}));
            out.ev(json!({"ev": "Tx", "kind": kind, "i": txi, "sched": sname, "t": t, "c": costs_json(&gc),
                          "fp": {"gpb": gpb.to_string(), "factor": factor.to_string()}, "price": price.to_string(),
                          "recipe": r}));
            log_obs(&mut out, &kind, obs);
        }
    }
    out.finish();
    Ok(())
}

fn main() {
    if std::env::var("VH_PANIC_TRACE").is_err() { std::panic::set_hook(Box::new(|_| {})); }
    let args: Vec<String> = std::env::args().collect();
    if args.len() < 3 {
        eprintln!("usage: vh_fee shapes|record|replay fee ...");
        exit(64);
    }
    let opts = Opts::parse(&args[3..]);
    let r = match (args[1].as_str(), args[2].as_str()) {
        ("shapes", "fee") => shapes(&opts),
        ("record", "fee") => record(&opts),
        ("replay", "fee") => replay(&opts),
        (m, d) => {
            eprintln!("unknown mode/domain {m}/{d}");
            exit(64);
        }
    };
    if let Err(e) = r {
        eprintln!("vh_fee error: {e}");
        exit(3);
    }
}
