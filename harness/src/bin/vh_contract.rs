//! vh_contract — conformance harness for C15 (contract and predicate identifiers).
//!
//!   vh_contract record contract [--tier quick|thorough] -o <trace.ndjson>   (impl -> spec, Leg T)
//!   vh_contract replay contract <behaviours.ndjson> -o <result.ndjson>      (spec -> impl, Leg R)
//!
//! The harness is deliberately dumb: it builds byte codes / slots / transactions, calls the public
//! APIs of fuel-tx and fuel-vm, and writes down what they return.  It contains no expected value and
//! no re-implementation of any identifier: in `record` mode every observation is judged by TLC against
//! spec/tx/Contract_Trace.tla, in `replay` mode it is compared with the value TLC printed.
#[path = "../util.rs"]
mod util;
use util::*;

use fuel_asm::{op, GTFArgs, RegId};
use fuel_tx::{
    field::{Inputs, Outputs},
    BlobIdExt, ConsensusParameters, Contract, Create, CreateMetadata, Finalizable, Input, Output, Receipt, Script,
    StorageSlot, TransactionBuilder, TxPointer, UtxoId, Witness,
};
use fuel_types::{Address, AssetId, BlobId, Bytes32, ContractId, Nonce, Salt};
use fuel_vm::checked_transaction::{CheckPredicateParams, Checked, EstimatePredicates, IntoChecked};
use fuel_vm::interpreter::{InterpreterParams, MemoryInstance, NotSupportedEcal};
use fuel_vm::memory_client::MemoryClient;
use fuel_vm::prelude::predicates::check_predicates;
use fuel_vm::storage::predicate::EmptyStorage;
use fuel_vm::storage::{InterpreterStorage, MemoryStorage};
use fuel_vm::transactor::Transactor;
use rand::{rngs::StdRng, seq::SliceRandom, Rng};
use serde_json::{json, Map, Value};
use std::collections::BTreeSet;
use std::panic::AssertUnwindSafe;
use std::process::exit;

const KINDS: [&str; 3] = ["coin", "message-coin", "message-data"];

fn b32(s: &str) -> Bytes32 { Bytes32::from(unhx32(s)) }
fn short_err(e: impl std::fmt::Debug) -> String {
    let s = format!("{e:?}");
    s.chars().take(160).collect()
}
/// name of the outermost-but-one enum variant of a Debug rendering, e.g. `Validity(InputPredicateOwner { index: 0 })`
fn err_name(e: impl std::fmt::Debug) -> String {
    let s = format!("{e:?}");
    let inner = match s.find('(') { Some(i) if s.ends_with(')') => &s[i + 1..s.len() - 1], _ => &s[..] };
    inner.chars().take_while(|c| c.is_alphanumeric() || *c == '_').collect()
}

fn slots_from_json(v: &Value) -> Vec<StorageSlot> {
    v.as_array().expect("slots").iter().map(|p| StorageSlot::new(b32(p[0].as_str().unwrap()), b32(p[1].as_str().unwrap()))).collect()
}
fn slots_json(s: &[StorageSlot]) -> Value {
    Value::Array(s.iter().map(|x| json!([hx(x.key()), hx(x.value())])).collect())
}

// ------------------------------------------------------------------------------------------
// observations of the pure functions
// ------------------------------------------------------------------------------------------
fn obs_consts() -> Value {
    json!({
        "empty_contract_id": hx(Contract::EMPTY_CONTRACT_ID),
        "default_state_root": hx(Contract::default_state_root()),
        "seed": hx(ContractId::SEED),
    })
}

fn obs_code(code: &[u8]) -> Value {
    let root = Contract::root_from_code(code);
    let root_obj = Contract::from(code).root();
    let owner = Input::predicate_owner(code);
    let owner_valid = Input::is_predicate_owner_valid(&owner, code);
    let blob = BlobId::compute(code);
    json!({"root": hx(root), "root_obj": hx(root_obj), "owner": hx(owner), "owner_valid": owner_valid, "blob": hx(blob)})
}

fn obs_owner_valid(owner: &Address, code: &[u8]) -> Value {
    json!({"valid": Input::is_predicate_owner_valid(owner, code)})
}

fn obs_state_root(slots: &[StorageSlot]) -> Value {
    let root = Contract::initial_state_root(slots.iter());
    // the same set presented in another order (reversed, then rotated by one)
    let mut perm: Vec<StorageSlot> = slots.iter().rev().cloned().collect();
    if perm.len() > 2 { perm.rotate_left(1); }
    let root_perm = Contract::initial_state_root(perm.iter());
    json!({"root": hx(root), "root_perm": hx(root_perm)})
}

fn obs_id(salt: &Salt, cr: &Bytes32, sr: &Bytes32) -> Value {
    json!({"id": hx(Contract::id(salt, cr, sr))})
}

// ------------------------------------------------------------------------------------------
// Create transactions
// ------------------------------------------------------------------------------------------
fn build_create(code: &[u8], salt: Salt, slots: &[StorageSlot], out: Option<(ContractId, Bytes32)>) -> Create {
    let mut b = TransactionBuilder::create(Witness::from(code.to_vec()), salt, slots.to_vec());
    b.add_fee_input();
    match out {
        None => { b.add_contract_created(); }
        Some((id, sr)) => { b.add_output(Output::contract_created(id, sr)); }
    }
    b.finalize()
}

fn created_output(tx: &Create) -> Option<(ContractId, Bytes32)> {
    tx.outputs().iter().find_map(|o| match o {
        Output::ContractCreated { contract_id, state_root } => Some((*contract_id, *state_root)),
        _ => None,
    })
}

/// builder path: what the library computes, caches and accepts
fn obs_create(params: &ConsensusParameters, code: &[u8], salt: Salt, slots: &[StorageSlot]) -> Value {
    let tx = build_create(code, salt, slots, None);
    let mut o = Map::new();
    // every field is always present (the trace specification reads them unconditionally)
    for k in ["meta_id", "meta_code_root", "meta_state_root", "computed_id", "computed_code_root", "computed_state_root", "out_id", "out_state_root"] {
        o.insert(k.into(), json!("(none)"));
    }
    match tx.metadata() {
        Some(m) => {
            o.insert("meta_id".into(), json!(hx(m.body.contract_id)));
            o.insert("meta_code_root".into(), json!(hx(m.body.contract_root)));
            o.insert("meta_state_root".into(), json!(hx(m.body.state_root)));
        }
        None => { o.insert("meta_missing".into(), json!(true)); }
    }
    match CreateMetadata::compute(&tx) {
        Ok(m) => {
            o.insert("computed_id".into(), json!(hx(m.contract_id)));
            o.insert("computed_code_root".into(), json!(hx(m.contract_root)));
            o.insert("computed_state_root".into(), json!(hx(m.state_root)));
        }
        Err(e) => { o.insert("computed_err".into(), json!(short_err(e))); }
    }
    if let Some((id, sr)) = created_output(&tx) {
        o.insert("out_id".into(), json!(hx(id)));
        o.insert("out_state_root".into(), json!(hx(sr)));
    }
    match tx.into_checked(Default::default(), params) {
        Ok(_) => { o.insert("checked".into(), json!(true)); o.insert("err".into(), json!("")); }
        Err(e) => { o.insert("checked".into(), json!(false)); o.insert("err".into(), json!(err_name(e))); }
    }
    Value::Object(o)
}

/// a Create whose ContractCreated output is given: does the library accept it?
fn obs_create_out(params: &ConsensusParameters, code: &[u8], salt: Salt, slots: &[StorageSlot], out: (ContractId, Bytes32)) -> Value {
    let tx = build_create(code, salt, slots, Some(out));
    match tx.into_checked(Default::default(), params) {
        Ok(_) => json!({"checked": true, "err": ""}),
        Err(e) => json!({"checked": false, "err": err_name(e)}),
    }
}

// ------------------------------------------------------------------------------------------
// the VM side
// ------------------------------------------------------------------------------------------
struct World {
    params: ConsensusParameters,
    client: MemoryClient<MemoryInstance>,
}

type StateSet = BTreeSet<(String, String, String)>;

impl World {
    fn new() -> Self {
        let params = ConsensusParameters::standard();
        let client = MemoryClient::new(MemoryInstance::new(), MemoryStorage::default(), InterpreterParams::new(0, &params));
        World { params, client }
    }
    fn storage(&self) -> &MemoryStorage { self.client.as_ref() }
    fn state_set(st: &MemoryStorage) -> StateSet {
        st.all_contract_state().map(|(k, v)| (hx(k.contract_id()), hx(k.state_key()), hx(&v.0))).collect()
    }

    /// execute a Create transaction in the VM (via = "deploy": Transactor::deploy; "transact": the generic
    /// Interpreter::transact path) and report what the storage holds afterwards
    fn obs_deploy(&mut self, code: &[u8], salt: Salt, slots: &[StorageSlot], out: Option<(ContractId, Bytes32)>, via: &str) -> Value {
        let tx = build_create(code, salt, slots, out);
        let mut o = Map::new();
        o.insert("out_id".into(), json!("(none)"));
        o.insert("out_state_root".into(), json!("(none)"));
        o.insert("exists".into(), json!(false));
        o.insert("stored_code".into(), json!("(none)"));
        o.insert("state_added".into(), json!([]));
        let before = Self::state_set(self.storage());
        let checked = match tx.clone().into_checked(Default::default(), &self.params) {
            Ok(c) => c,
            Err(e) => {
                o.insert("ok".into(), json!(false));
                o.insert("err".into(), json!(format!("check:{}", err_name(e))));
                return Value::Object(o);
            }
        };
        let executed: Result<Create, String> = if via == "transact" {
            let mut t: Transactor<MemoryInstance, MemoryStorage, Create> =
                Transactor::new(MemoryInstance::new(), self.storage().clone(), InterpreterParams::new(0, &self.params));
            t.transact(checked);
            match t.result() {
                Ok(st) => {
                    let txo = st.tx().clone();
                    let storage: &MemoryStorage = t.as_ref();
                    *self.client.as_mut() = storage.clone();
                    Ok(txo)
                }
                Err(e) => Err(short_err(e)),
            }
        } else {
            self.client.deploy(checked).map_err(short_err)
        };
        let probe = match &executed {
            Ok(txo) => { o.insert("ok".into(), json!(true)); o.insert("err".into(), json!("")); created_output(txo) }
            Err(e) => { o.insert("ok".into(), json!(false)); o.insert("err".into(), json!(e)); created_output(&tx) }
        };
        if executed.is_ok() { self.client.as_mut().commit(); }
        if let Some((id, sr)) = probe {
            o.insert("out_id".into(), json!(hx(id)));
            o.insert("out_state_root".into(), json!(hx(sr)));
            let st = self.storage();
            o.insert("exists".into(), json!(st.storage_contract_exists(&id).unwrap_or(false)));
            let stored = st.storage_contract(&id).ok().flatten().map(|c| hx(c.as_ref().as_ref() as &[u8]));
            o.insert("stored_code".into(), match stored { Some(s) => json!(s), None => json!("(none)") }); // (the trace reader has no null)
        }
        let after = Self::state_set(self.storage());
        let added: Vec<Value> = after.difference(&before).map(|(c, k, v)| json!([c, k, v])).collect();
        o.insert("state_added".into(), Value::Array(added));
        Value::Object(o)
    }

    /// run a script that executes CROO on contract `id` and returns the 32 bytes it wrote
    fn obs_croo(&mut self, id: &ContractId) -> Value {
        let script: Vec<u8> = vec![
            op::gtf_args(0x10, RegId::ZERO, GTFArgs::ScriptData),
            op::movi(0x11, 32),
            op::aloc(0x11),
            op::croo(RegId::HP, 0x10),
            op::retd(RegId::HP, 0x11),
        ]
        .into_iter()
        .collect();
        let mut b = TransactionBuilder::script(script, id.as_ref().to_vec());
        b.script_gas_limit(20_000_000);
        b.add_input(Input::contract(UtxoId::new(Bytes32::from([3u8; 32]), 0), Bytes32::zeroed(), Bytes32::zeroed(), TxPointer::default(), *id));
        b.add_fee_input();
        b.add_output(Output::contract(0, Bytes32::zeroed(), Bytes32::zeroed()));
        let tx: Script = b.finalize();
        let checked = match tx.into_checked(Default::default(), &self.params) {
            Ok(c) => c,
            Err(e) => return json!({"ok": false, "err": format!("check:{}", err_name(e)), "data": "(none)"}),
        };
        let receipts = self.client.transact(checked).to_vec();
        let mut data = json!("(none)");
        let mut got = false;
        let mut err = String::new();
        for r in &receipts {
            match r {
                Receipt::ReturnData { data: Some(d), .. } => { data = json!(hx(d.as_ref() as &[u8])); got = true; }
                Receipt::Panic { reason, .. } => err = format!("{:?}", reason.reason()),
                Receipt::Revert { .. } => err = "revert".into(),
                _ => {}
            }
        }
        if receipts.is_empty() { err = "no-receipts".into(); }
        json!({"ok": got && err.is_empty(), "err": err, "data": data})
    }
}

// ------------------------------------------------------------------------------------------
// predicates
// ------------------------------------------------------------------------------------------
fn pred_tx(kind: &str, owner: Address, code: &[u8]) -> Script {
    let input = match kind {
        "coin" => Input::coin_predicate(UtxoId::new(Bytes32::from([7u8; 32]), 1), owner, 1000, AssetId::BASE, TxPointer::default(), 0, code.to_vec(), vec![]),
        "message-coin" => Input::message_coin_predicate(Address::from([5u8; 32]), owner, 1000, Nonce::from([9u8; 32]), 0, code.to_vec(), vec![]),
        "message-data" => Input::message_data_predicate(Address::from([5u8; 32]), owner, 1000, Nonce::from([9u8; 32]), 0, vec![0xda, 0x7a], code.to_vec(), vec![]),
        k => panic!("unknown predicate input kind {k}"),
    };
    let mut b = TransactionBuilder::script(vec![], vec![]);
    b.script_gas_limit(1_000_000);
    b.add_input(input); // index 0
    b.add_fee_input(); // a signed base-asset coin, so that every kind has a spendable input
    b.finalize()
}

fn set_owner(tx: &mut Script, owner: Address) {
    match &mut tx.inputs_mut()[0] {
        Input::CoinPredicate(c) => c.owner = owner,
        Input::MessageCoinPredicate(m) => m.recipient = owner,
        Input::MessageDataPredicate(m) => m.recipient = owner,
        _ => {}
    }
}

/// did the driver build this code so that it returns true as a predicate (first instruction RET $one)?
fn runnable(code: &[u8]) -> bool {
    let ret: Vec<u8> = vec![op::ret(RegId::ONE)].into_iter().collect();
    code.len() >= ret.len() && code[..ret.len()] == ret[..]
}

/// A predicate-guarded input with the given code; `good` is the owner under which the transaction is
/// first made acceptable to the basic rules (from the spec in replay mode, from the library in record mode).
struct PredCase {
    params: ConsensusParameters,
    cp: CheckPredicateParams,
    kind: &'static str,
    code: Vec<u8>,
    base: Option<Checked<Script>>, // passed the fuel-tx rules with owner `good`, gas estimated
    base_err: String,
}

impl PredCase {
    fn new(params: &ConsensusParameters, kind: &'static str, code: &[u8], good: Address) -> Self {
        let cp = CheckPredicateParams::from(params);
        let mut tx = pred_tx(kind, good, code);
        // fills predicate_gas_used; fails for a code that does not return true, then the VM verdict is
        // still observed (with gas 0)
        let _ = tx.estimate_predicates(&cp, MemoryInstance::new(), &EmptyStorage);
        let chain_id = params.chain_id();
        let (base, base_err) = match tx.into_checked_basic(Default::default(), params).and_then(|c| c.check_signatures(&chain_id)) {
            Ok(c) => (Some(c), String::new()),
            Err(e) => (None, err_name(e)),
        };
        PredCase { params: params.clone(), cp, kind, code: code.to_vec(), base, base_err }
    }

    fn obs(&self, owner: Address) -> Value {
        let mut o = Map::new();
        // (1) the transaction validity rules of fuel-tx (format rules + signature/owner rules) on a
        //     transaction naming `owner`
        let chain_id = self.params.chain_id();
        match pred_tx(self.kind, owner, &self.code).into_checked_basic(Default::default(), &self.params).and_then(|c| c.check_signatures(&chain_id)) {
            Ok(_) => { o.insert("valid".into(), json!(true)); o.insert("valid_err".into(), json!("")); }
            Err(e) => { o.insert("valid".into(), json!(false)); o.insert("valid_err".into(), json!(err_name(e))); }
        }
        // (2) the VM's predicate verification alone: a transaction that passed the basic rules, owner replaced
        match &self.base {
            Some(base) => {
                let mut c = base.clone();
                set_owner(c.as_mut(), owner);
                match check_predicates(&c, &self.cp, MemoryInstance::new(), &EmptyStorage, NotSupportedEcal) {
                    Ok(_) => { o.insert("vm".into(), json!(true)); o.insert("vm_err".into(), json!("")); }
                    Err(e) => {
                        let s = format!("{e:?}");
                        let name: String = s.chars().take_while(|c| c.is_alphanumeric()).collect();
                        o.insert("vm".into(), json!(false));
                        o.insert("vm_err".into(), json!(name));
                    }
                }
            }
            None => { o.insert("base_err".into(), json!(self.base_err.clone())); }
        }
        o.insert("runnable".into(), json!(runnable(&self.code)));
        Value::Object(o)
    }
}

// ------------------------------------------------------------------------------------------
// record: impl -> spec
// ------------------------------------------------------------------------------------------
fn merge(mut head: Value, obs: Value) -> Value {
    if let (Some(h), Some(o)) = (head.as_object_mut(), obs.as_object()) {
        for (k, v) in o { h.insert(k.clone(), v.clone()); }
    }
    head
}

/// run `f`; a panic of the code under test becomes a HostPanic event (which no spec action matches)
fn guarded(out: &mut Out, head: Value, f: impl FnOnce() -> Value) {
    match catch(AssertUnwindSafe(f)) {
        Ok(obs) => out.ev(merge(head, obs)),
        Err(msg) => {
            let mut h = head;
            let what = h["ev"].as_str().unwrap_or("?").to_string();
            h["ev"] = json!("HostPanic");
            h["where"] = json!(what);
            h["msg"] = json!(msg);
            if h.get("code").is_some() { h["code"] = json!("(omitted)"); }
            out.ev(h);
        }
    }
}

fn code_lengths(thorough: bool) -> Vec<usize> {
    const LEAF: usize = 16 * 1024;
    let mut v: BTreeSet<usize> = BTreeSet::new();
    if thorough {
        v.extend(0..=200);
        for k in 1..=4 { v.extend((k * LEAF - 16)..=(k * LEAF + 16)); }
        v.extend([5 * LEAF - 1, 5 * LEAF, 5 * LEAF + 1, 5 * LEAF + 9, 6 * LEAF + 4, 100 * 1024 - 7, 100 * 1024]);
    } else {
        v.extend(0..=40);
        v.extend([63, 64, 65, 127, 128, 129, 200]);
        for k in 1..=4 { for d in [-9i64, -8, -7, -1, 0, 1, 7, 8, 9] { v.insert((k as i64 * LEAF as i64 + d) as usize); } }
        v.extend([5 * LEAF + 4, 100 * 1024]);
    }
    v.into_iter().collect()
}

fn gen_code(rng: &mut StdRng, len: usize) -> Vec<u8> {
    let mut c: Vec<u8> = (0..len).map(|_| rng.gen::<u8>()).collect();
    match rng.gen_range(0..8) {
        0 => { let z = rng.gen_range(1..=9).min(len); for b in &mut c[len - z..] { *b = 0; } } // trailing zero bytes
        1 => { for b in &mut c { *b = 0xff; } }
        2 => { for b in &mut c { *b = 0; } }
        _ => {}
    }
    if len >= 4 && rng.gen_range(0..4) != 0 {
        let ret: Vec<u8> = vec![op::ret(RegId::ONE)].into_iter().collect();
        c[..4].copy_from_slice(&ret);
    }
    c
}

fn gen_slots(rng: &mut StdRng) -> Vec<StorageSlot> {
    let n = match rng.gen_range(0..10) { 0 | 1 => 0, 2 | 3 => 1, 4 | 5 => 2, 6 => 3, 7 => 5, 8 => 8, _ => rng.gen_range(0..=16) };
    let mut keys: BTreeSet<[u8; 32]> = BTreeSet::new();
    while keys.len() < n {
        let mut k = [0u8; 32];
        match rng.gen_range(0..5) {
            0 => { k[31] = rng.gen_range(0..4); }                    // small integers
            1 => { k = [0xff; 32]; k[31] = rng.gen(); }
            2 => { k[0] = rng.gen(); }                               // differ in the first byte only
            _ => { rng.fill(&mut k); }
        }
        keys.insert(k);
    }
    let mut v: Vec<StorageSlot> = keys.into_iter().map(|k| {
        let mut val = [0u8; 32];
        match rng.gen_range(0..4) { 0 => {}, 1 => { val = [0xab; 32]; } _ => { rng.fill(&mut val); } }
        StorageSlot::new(Bytes32::from(k), Bytes32::from(val))
    }).collect();
    v.shuffle(rng);
    v
}

fn flip(rng: &mut StdRng, b: &[u8; 32]) -> [u8; 32] {
    let mut x = *b;
    let i = rng.gen_range(0..256);
    x[i / 8] ^= 1 << (i % 8);
    x
}

fn record(o: &Opts) -> Res<()> {
    let mut out = Out::open(&o.out)?;
    let mut rng = o.rng(15);
    let thorough = o.thorough();
    let params = ConsensusParameters::standard();
    let max_code = params.contract_params().contract_max_size() as usize;
    let mut first = true;
    for len in code_lengths(thorough) {
        if len > max_code { continue; }
        out.ev(json!({"ev": "Seg", "len": len}));
        if first {
            guarded(&mut out, json!({"ev": "Consts"}), obs_consts);
            first = false;
        }
        let code = gen_code(&mut rng, len);
        guarded(&mut out, json!({"ev": "Code", "len": len, "code": hx(&code)}), || obs_code(&code));

        // ---- predicate owner: the library's own answer, and owners that are not it ----
        let lib_owner = match catch(AssertUnwindSafe(|| Input::predicate_owner(&code))) { Ok(a) => a, Err(_) => continue };
        let lib_root = match catch(AssertUnwindSafe(|| Contract::root_from_code(&code))) { Ok(a) => a, Err(_) => continue };
        let mut owners: Vec<(Address, &str)> = vec![(lib_owner, "lib")];
        owners.push((Address::from(flip(&mut rng, &lib_owner)), "flip"));
        owners.push((Address::from(*lib_root), "code-root"));
        owners.push((Address::from(rng.gen::<[u8; 32]>()), "random"));
        for (ow, tag) in &owners {
            guarded(&mut out, json!({"ev": "OwnerValid", "owner": hx(ow), "tag": tag}), || obs_owner_valid(ow, &code));
        }
        if len > 0 {
            for kind in KINDS {
                let pc = match catch(AssertUnwindSafe(|| PredCase::new(&params, kind, &code, lib_owner))) {
                    Ok(pc) => pc,
                    Err(msg) => { out.ev(json!({"ev": "HostPanic", "where": "PredCase", "kind": kind, "msg": msg})); continue; }
                };
                for (ow, tag) in &owners {
                    guarded(&mut out, json!({"ev": "Pred", "kind": kind, "owner": hx(ow), "tag": tag}), || pc.obs(*ow));
                }
            }
        }

        // ---- state root / id on their own ----
        let slots = gen_slots(&mut rng);
        guarded(&mut out, json!({"ev": "StateRoot", "slots": slots_json(&slots)}), || obs_state_root(&slots));
        for _ in 0..2 {
            let (s, a, b): ([u8; 32], [u8; 32], [u8; 32]) = (rng.gen(), rng.gen(), rng.gen());
            let (s, a, b) = (Salt::from(s), Bytes32::from(a), Bytes32::from(b));
            guarded(&mut out, json!({"ev": "Id", "salt": hx(s), "code_root": hx(a), "state_root": hx(b)}), || obs_id(&s, &a, &b));
        }

        // ---- Create transactions, deployment, CROO ----
        let mut world = World::new();
        let deploys = if len % 3 == 0 { 2 } else { 1 };
        let mut ids: Vec<ContractId> = vec![];
        for d in 0..deploys {
            let salt = Salt::from(if rng.gen_range(0..4) == 0 { [0u8; 32] } else { rng.gen::<[u8; 32]>() });
            let slots = if d == 0 { slots.clone() } else { gen_slots(&mut rng) };
            let head = json!({"salt": hx(salt), "slots": slots_json(&slots)});
            guarded(&mut out, merge(json!({"ev": "Create"}), head.clone()), || obs_create(&params, &code, salt, &slots));
            // the library's own pair, and perturbations of it, written into the output by the driver
            let lib_sr = catch(AssertUnwindSafe(|| Contract::initial_state_root(slots.iter())));
            let lib_id = catch(AssertUnwindSafe(|| Contract::id(&salt, &lib_root, lib_sr.as_ref().unwrap_or(&Bytes32::zeroed()))));
            if let (Ok(sr), Ok(id)) = (lib_sr, lib_id) {
                let cands: Vec<(ContractId, Bytes32, &str)> = vec![
                    (id, sr, "lib"),
                    (ContractId::from(flip(&mut rng, &id)), sr, "flip-id"),
                    (id, Bytes32::from(flip(&mut rng, &sr)), "flip-state-root"),
                    (ContractId::from(*sr), Bytes32::from(*id), "swapped"),
                    (ContractId::from(*lib_owner), sr, "owner-as-id"),
                ];
                for (cid, csr, tag) in cands {
                    guarded(&mut out, merge(json!({"ev": "CreateOut", "tag": tag, "out_id": hx(cid), "out_state_root": hx(csr)}), head.clone()),
                            || obs_create_out(&params, &code, salt, &slots, (cid, csr)));
                }
            }
            let via = if (len + d) % 2 == 0 { "deploy" } else { "transact" };
            let mut dep = Value::Null;
            guarded(&mut out, merge(json!({"ev": "Deploy", "via": via}), head.clone()), || {
                dep = world.obs_deploy(&code, salt, &slots, None, via);
                dep.clone()
            });
            if let Some(s) = dep["out_id"].as_str() { ids.push(ContractId::from(unhx32(s))); }
        }
        for id in &ids {
            guarded(&mut out, json!({"ev": "Croo", "id": hx(id)}), || world.obs_croo(id));
        }
    }
    out.finish();
    Ok(())
}

// ------------------------------------------------------------------------------------------
// replay: spec -> impl
// ------------------------------------------------------------------------------------------
struct Rep<'a> {
    out: &'a mut Out,
    beh: usize,
    step: usize,
    case: Value,
    compared: u64,
}

impl Rep<'_> {
    fn cmp(&mut self, what: &str, exp: &Value, obs: &Value) {
        self.compared += 1;
        if exp != obs {
            let sh = |v: &Value| { let s = v.to_string(); if s.len() > 300 { json!(format!("{}...({} chars)", &s[..300], s.len())) } else { v.clone() } };
            self.out.ev(json!({"mismatch": what, "beh": self.beh, "step": self.step, "expected": sh(exp), "observed": sh(obs), "case": self.case}));
        }
    }
    fn guarded(&mut self, what: &str, f: impl FnOnce() -> Value) -> Option<Value> {
        match catch(AssertUnwindSafe(f)) {
            Ok(v) => Some(v),
            Err(msg) => {
                self.compared += 1;
                self.out.ev(json!({"mismatch": format!("{what}-host-panic"), "beh": self.beh, "step": self.step, "expected": "a result", "observed": msg, "case": self.case}));
                None
            }
        }
    }
}

/// the input generator of Contract_MC!MkCode (input plumbing, checked against the model's code_sha)
fn mk_code(len: usize, fill: &str, prefix: &[u8]) -> Vec<u8> {
    let mut c: Vec<u8> = match fill {
        "zero" => vec![0u8; len],
        "ff" => vec![0xffu8; len],
        "inc" => (0..len).map(|i| (i % 251) as u8).collect(),
        f => panic!("unknown fill {f}"),
    };
    if len >= prefix.len() { c[..prefix.len()].copy_from_slice(prefix); }
    c
}

fn replay(o: &Opts) -> Res<()> {
    let behs = read_lines(o.input.as_ref().expect("input"))?;
    let mut out = Out::open(&o.out)?;
    let params = ConsensusParameters::standard();
    let (mut steps_total, mut compared) = (0u64, 0u64);
    for (bi, beh) in behs.iter().enumerate() {
        let steps = beh.as_array().expect("array");
        let mut world = World::new();
        let mut code: Vec<u8> = vec![];
        let mut case = json!({});
        for (j, s) in steps.iter().enumerate() {
            steps_total += 1;
            match s["a"].as_str().unwrap() {
                "Code" => {
                    code = mk_code(ju64(s, "len") as usize, &jstr(s, "fill"), &unhx(&jstr(s, "prefix")));
                    {
                        // plumbing check only: the rebuilt input is the byte string TLC evaluated
                        use sha2::Digest;
                        if hx(sha2::Sha256::digest(&code)) != jstr(s, "code_sha") {
                            return Err(format!("generator desync: code (len {}, fill {}) differs from the model's", s["len"], s["fill"]).into());
                        }
                    }
                    case = json!({"len": s["len"], "fill": s["fill"]});
                    let mut r = Rep { out: &mut out, beh: bi, step: j, case: case.clone(), compared: 0 };
                    if let Some(ob) = r.guarded("code", || obs_code(&code)) {
                        r.cmp("code-root", &s["root"], &ob["root"]);
                        r.cmp("contract-root", &s["root"], &ob["root_obj"]);
                        r.cmp("predicate-owner", &s["owner"], &ob["owner"]);
                        r.cmp("blob-id", &s["blob"], &ob["blob"]);
                    }
                    let good = Address::from(unhx32(&jstr(s, "owner")));
                    let mut owners: Vec<(Address, bool)> = vec![(good, true)];
                    for b in s["bad_owners"].as_array().unwrap() { owners.push((Address::from(unhx32(b.as_str().unwrap())), false)); }
                    for (ow, is_good) in &owners {
                        if let Some(ob) = r.guarded("owner-valid", || obs_owner_valid(ow, &code)) {
                            r.cmp(if *is_good { "owner-valid/spec-owner-refused" } else { "owner-valid/wrong-owner-accepted" }, &json!(is_good), &ob["valid"]);
                        }
                    }
                    if !code.is_empty() {
                        for kind in KINDS {
                            let Some(pc) = catch(AssertUnwindSafe(|| PredCase::new(&params, kind, &code, good))).ok() else {
                                r.cmp(&format!("pred/{kind}/host-panic"), &json!("a result"), &json!("panic"));
                                continue;
                            };
                            for (ow, is_good) in &owners {
                                let Some(ob) = r.guarded("pred", || pc.obs(*ow)) else { continue };
                                r.cmp(&format!("pred/{kind}/tx-rules/{}", if *is_good { "spec-owner-refused" } else { "wrong-owner-accepted" }), &json!(is_good), &ob["valid"]);
                                if ob.get("vm").is_some() {
                                    if !*is_good {
                                        r.cmp(&format!("pred/{kind}/vm/wrong-owner-accepted"), &json!(false), &ob["vm"]);
                                    } else if ob["runnable"] == json!(true) {
                                        r.cmp(&format!("pred/{kind}/vm/spec-owner-refused"), &json!(true), &ob["vm"]);
                                    } else {
                                        r.cmp(&format!("pred/{kind}/vm/spec-owner-called-invalid"), &json!(false), &json!(ob["vm_err"] == json!("InvalidOwner")));
                                    }
                                } else if *is_good {
                                    // with the spec's owner the transaction must pass the basic rules
                                    r.cmp(&format!("pred/{kind}/tx-rules/spec-owner-refused"), &json!(""), &ob["base_err"]);
                                }
                            }
                        }
                    }
                    compared += r.compared;
                }
                "Deploy" => {
                    let salt = Salt::from(unhx32(&jstr(s, "salt")));
                    let mut slots = slots_from_json(&s["slots"]);
                    slots.sort(); // the transaction format requires ascending keys
                    let exp_id = ContractId::from(unhx32(&jstr(s, "id")));
                    let exp_sr = b32(&jstr(s, "state_root"));
                    let exp_cr = b32(&jstr(s, "code_root"));
                    case["salt"] = s["salt"].clone();
                    case["slots"] = s["slots"].clone();
                    let mut r = Rep { out: &mut out, beh: bi, step: j, case: case.clone(), compared: 0 };
                    let unsorted = slots_from_json(&s["slots"]);
                    if let Some(ob) = r.guarded("state-root", || obs_state_root(&unsorted)) {
                        r.cmp("state-root", &s["state_root"], &ob["root"]);
                        r.cmp("state-root-order", &s["state_root"], &ob["root_perm"]);
                    }
                    if let Some(ob) = r.guarded("contract-id", || obs_id(&salt, &exp_cr, &exp_sr)) {
                        r.cmp("contract-id", &s["id"], &ob["id"]);
                    }
                    if let Some(ob) = r.guarded("create", || obs_create(&params, &code, salt, &slots)) {
                        r.cmp("create/meta-id", &s["id"], &ob["meta_id"]);
                        r.cmp("create/meta-code-root", &s["code_root"], &ob["meta_code_root"]);
                        r.cmp("create/meta-state-root", &s["state_root"], &ob["meta_state_root"]);
                        r.cmp("create/computed-id", &s["id"], &ob["computed_id"]);
                        r.cmp("create/builder-output-id", &s["id"], &ob["out_id"]);
                        r.cmp("create/builder-output-state-root", &s["state_root"], &ob["out_state_root"]);
                    }
                    if let Some(ob) = r.guarded("create-out", || obs_create_out(&params, &code, salt, &slots, (exp_id, exp_sr))) {
                        r.cmp("create/spec-output-refused", &json!(true), &ob["checked"]);
                    }
                    for b in s["bad_outputs"].as_array().unwrap() {
                        let bo = (ContractId::from(unhx32(b[0].as_str().unwrap())), b32(b[1].as_str().unwrap()));
                        if let Some(ob) = r.guarded("create-out", || obs_create_out(&params, &code, salt, &slots, bo)) {
                            r.cmp("create/wrong-output-accepted", &json!(false), &ob["checked"]);
                        }
                    }
                    let via = if bi % 2 == 0 { "deploy" } else { "transact" };
                    if let Some(ob) = r.guarded("deploy", || world.obs_deploy(&code, salt, &slots, Some((exp_id, exp_sr)), via)) {
                        r.cmp(&format!("deploy/{via}/ok"), &json!(true), &ob["ok"]);
                        r.cmp(&format!("deploy/{via}/output-id"), &s["id"], &ob["out_id"]);
                        r.cmp(&format!("deploy/{via}/stored-under-spec-id"), &json!(true), &ob["exists"]);
                        r.cmp(&format!("deploy/{via}/stored-code"), &json!(hx(&code)), &ob["stored_code"]);
                        let exp_state: BTreeSet<(String, String, String)> = slots.iter().map(|x| (hx(exp_id), hx(x.key()), hx(x.value()))).collect();
                        let exp_state: Vec<Value> = exp_state.into_iter().map(|(c, k, v)| json!([c, k, v])).collect();
                        r.cmp(&format!("deploy/{via}/initial-state"), &Value::Array(exp_state), &ob["state_added"]);
                    }
                    compared += r.compared;
                }
                "Croo" => {
                    let id = ContractId::from(unhx32(&jstr(s, "id")));
                    let mut r = Rep { out: &mut out, beh: bi, step: j, case: case.clone(), compared: 0 };
                    if let Some(ob) = r.guarded("croo", || world.obs_croo(&id)) {
                        r.cmp("croo/ok", &json!(true), &ob["ok"]);
                        r.cmp("croo/code-root", &s["root"], &ob["data"]);
                    }
                    compared += r.compared;
                }
                a => panic!("unknown action {a}"),
            }
        }
    }
    out.ev(json!({"summary": {"behaviours": behs.len(), "steps": steps_total, "compared": compared}}));
    out.finish();
    Ok(())
}

fn main() {
    if std::env::var("VH_PANIC_TRACE").is_err() { std::panic::set_hook(Box::new(|_| {})); }
    let args: Vec<String> = std::env::args().collect();
    if args.len() < 3 {
        eprintln!("usage: vh_contract record|replay contract ...");
        exit(64);
    }
    let opts = Opts::parse(&args[3..]);
    let r = match (args[1].as_str(), args[2].as_str()) {
        ("record", "contract") => record(&opts),
        ("replay", "contract") => replay(&opts),
        (m, d) => { eprintln!("unknown mode/domain {m}/{d}"); exit(64); }
    };
    if let Err(e) = r {
        eprintln!("vh_contract error: {e}");
        exit(3);
    }
}
