//! vh — the conformance harness binding the TLA+ specifications in /verif/spec to the real
//! fuel-vm crates.  It is deliberately dumb: it builds values from JSON, calls public APIs,
//! records what they return, and compares with predictions made by the specification.
//! It contains no expected values of its own.
//!
//!   vh record <domain> [--tier quick|thorough] -o <trace.ndjson>     (impl -> spec, Leg T)
//!   vh replay <domain> <behaviours.ndjson> -o <result.ndjson>        (spec -> impl, Leg R)
#[path = "../util.rs"]
mod util;
#[path = "../store.rs"]
mod store;
#[path = "../bmt.rs"]
mod bmt;
#[path = "../smt.rs"]
mod smt;

use std::process::exit;

fn main() {
    // a panic in the code under test is data (caught and recorded), not noise on stderr
    if std::env::var("VH_PANIC_TRACE").is_err() { std::panic::set_hook(Box::new(|_| {})); }
    let args: Vec<String> = std::env::args().collect();
    if args.len() < 3 {
        eprintln!("usage: vh record|replay <domain> ...");
        exit(64);
    }
    let mode = args[1].as_str();
    let domain = args[2].as_str();
    let opts = util::Opts::parse(&args[3..]);
    let r = match (mode, domain) {
        ("record", "bmt") => bmt::record(&opts),
        ("replay", "bmt") => bmt::replay(&opts),
        ("record", "smt") => smt::record(&opts),
        ("replay", "smt") => smt::replay(&opts),
        _ => {
            eprintln!("unknown mode/domain {mode}/{domain}");
            exit(64);
        }
    };
    if let Err(e) = r {
        eprintln!("vh error: {e}");
        exit(3);
    }
}
