//! vh_vm — recorder for the FuelVM interpreter (see vmcore.rs).
//!   vh_vm record vm --part <alu|flow|mem|prog|...> [--tier T] -o trace.ndjson
//!   vh_vm dump-gas
#[path = "../util.rs"]
mod util;
#[path = "../vmcore.rs"]
mod vmcore;
#[path = "../vm/drivers.rs"]
mod drivers;

use std::process::exit;

fn main() {
    if std::env::var("VH_PANIC_TRACE").is_err() { std::panic::set_hook(Box::new(|_| {})); }
    let args: Vec<String> = std::env::args().collect();
    if args.len() < 2 { eprintln!("usage: vh_vm record vm ... | dump-gas"); exit(64); }
    if args[1] == "dump-gas" {
        println!("{}", serde_json::to_string_pretty(&vmcore::gas_json(&fuel_tx::GasCosts::default())).unwrap());
        return;
    }
    let opts = util::Opts::parse(&args[3..]);
    let r = match (args[1].as_str(), args[2].as_str()) {
        ("record", "vm") => drivers::record(&opts),
        _ => { eprintln!("unknown"); exit(64); }
    };
    if let Err(e) = r { eprintln!("vh_vm error: {e}"); exit(3); }
}
