//! vh_validity — C19: binds spec/tx/Validity.tla to fuel-tx / fuel-vm transaction checking.
//!
//!   vh_validity info                                               -> {"cparams_len": N}
//!   vh_validity replay validity <cases.ndjson> -o <result.ndjson> [--events <trace.ndjson>] [--idmap 0|1]
//!   vh_validity record validity [--tier T] -o <trace.ndjson>
//!
//! The harness is dumb on purpose: it BUILDS a real transaction and real consensus parameters from an
//! abstract description, CALLS `IntoChecked::into_checked_basic` and `FormatValidityChecks::
//! check_without_signatures` under `catch`, and PROJECTS the real transaction / parameters / results
//! back into the abstract vocabulary of the specification.  It has no notion of validity.  Which
//! transactions must be accepted, and with which balances, is decided by TLC (Validity_MC prints the
//! expectation that `replay` compares with; Validity_Trace validates every recorded event).
//! The *Ok flags of the projection (contract id / state root / blob id / checksum / Merkle proof match)
//! are evaluated with the library's public hash functions on the transaction's own data; they are the
//! abstraction of hash equality, which belongs to C09/C10/C15, not a verdict.
#[path = "../util.rs"]
mod util;

use fuel_tx::{
    field::{
        BlobId as BlobIdField, BytecodeRoot, BytecodeWitnessIndex, Inputs, MintAssetId, OutputContract, Outputs, Policies as PoliciesField,
        ProofSet, Salt as SaltField, Script as ScriptField, ScriptData, ScriptGasLimit, StorageSlots, SubsectionIndex, SubsectionsNumber,
        TxPointer as TxPointerField, UpgradePurpose as UpgradePurposeField, Witnesses,
    },
    input::{
        coin::{CoinPredicate, CoinSigned},
        message::{MessageCoinPredicate, MessageCoinSigned, MessageDataPredicate, MessageDataSigned},
    },
    policies::{Policies, PolicyType},
    BlobBody, BlobIdExt, Cacheable, Chargeable, ConsensusParameters, Contract, ContractParameters, FeeParameters,
    FormatValidityChecks, GasCosts, Input, Output, PredicateParameters, ScriptParameters, StorageSlot, Transaction,
    TxParameters, TxPointer, UpgradePurpose, UploadBody, UtxoId, Witness,
};
use fuel_types::{canonical::Serialize, Address, AssetId, BlobId, BlockHeight, Bytes32, ChainId, ContractId, Nonce, Salt};
use fuel_vm::checked_transaction::{CheckedMetadata, IntoChecked};
use rand::{rngs::StdRng, seq::SliceRandom, Rng};
use serde_json::{json, Map, Value};
use std::collections::BTreeMap;
use std::process::exit;
use util::*;

const SYM: i128 = 1000; // symbolic size / max gas used by Validity_MC

// ------------------------------------------------------------------------------------------------
// Names: the abstract identifiers of the specification <-> concrete 32-byte values
// ------------------------------------------------------------------------------------------------
struct Names {
    idmap: u64,
}

fn fill(b: u8) -> [u8; 32] { [b; 32] }
fn fill_last(b: u8, last: u8) -> [u8; 32] {
    let mut a = [b; 32];
    a[31] = last;
    a
}

impl Names {
    fn asset(&self, s: &str) -> AssetId {
        AssetId::new(match (s, self.idmap) {
            ("B", 0) => fill(0xba),
            ("X", 0) => fill(0x0a),
            ("Y", 0) => fill(0xfe),
            ("B", _) => fill_last(0x33, 0x02), // base sorts between the others and shares a prefix
            ("X", _) => fill_last(0x33, 0x03),
            ("Y", _) => fill_last(0x33, 0x01),
            ("", _) => [0u8; 32],
            _ => unhx32(s),
        })
    }
    fn asset_name(&self, a: &AssetId) -> String {
        for n in ["B", "X", "Y"] {
            if &self.asset(n) == a { return n.to_string(); }
        }
        hx(a)
    }
    fn owner(&self, s: &str) -> Address {
        Address::new(match s {
            "o0" => fill(0xa0),
            "o1" => fill_last(0xa0, 0xa1),
            "o2" => fill(0xa2),
            "" => [0u8; 32],
            _ => unhx32(s),
        })
    }
    fn owner_name(&self, a: &Address) -> String {
        for n in ["o0", "o1", "o2"] {
            if &self.owner(n) == a { return n.to_string(); }
        }
        hx(a)
    }
    fn utxo(&self, s: &str) -> UtxoId {
        match (s, self.idmap) {
            ("u0", _) => UtxoId::new(fill(0x70).into(), 0),
            ("u1", 0) => UtxoId::new(fill(0x70).into(), 1), // same tx, next output
            ("u1", _) => UtxoId::new(fill(0x71).into(), 0), // other tx, same output index
            ("u2", 0) => UtxoId::new(fill(0x71).into(), 0),
            ("u2", _) => UtxoId::new(fill(0x70).into(), 1),
            ("u3", _) => UtxoId::new(fill_last(0x70, 0x71).into(), 0),
            ("", _) => UtxoId::new([0u8; 32].into(), 0),
            _ => {
                let b = unhx(s);
                let mut t = [0u8; 32];
                t.copy_from_slice(&b[..32]);
                UtxoId::new(t.into(), u16::from_be_bytes([b[32], b[33]]))
            }
        }
    }
    fn utxo_name(&self, u: &UtxoId) -> String {
        for n in ["u0", "u1", "u2", "u3"] {
            if &self.utxo(n) == u { return n.to_string(); }
        }
        let mut b = u.tx_id().to_vec();
        b.extend_from_slice(&u.output_index().to_be_bytes());
        hx(b)
    }
    fn nonce(&self, s: &str) -> Nonce {
        Nonce::new(match s {
            "n0" => fill(0x50),
            "n1" => fill_last(0x50, 0x51),
            "n2" => fill(0x52),
            "n3" => fill_last(0x52, 0x53),
            "" => [0u8; 32],
            _ => unhx32(s),
        })
    }
    fn nonce_name(&self, a: &Nonce) -> String {
        for n in ["n0", "n1", "n2", "n3"] {
            if &self.nonce(n) == a { return n.to_string(); }
        }
        hx(a)
    }
    fn contract(&self, s: &str) -> ContractId {
        ContractId::new(match s {
            "c0" => fill(0xc0),
            "c1" => fill_last(0xc0, 0xc1),
            "c2" => fill(0xc2),
            "" => [0u8; 32],
            _ => unhx32(s),
        })
    }
    fn contract_name(&self, a: &ContractId) -> String {
        for n in ["c0", "c1", "c2"] {
            if &self.contract(n) == a { return n.to_string(); }
        }
        hx(a)
    }
}

fn s<'a>(v: &'a Value, k: &str) -> &'a str { v[k].as_str().unwrap_or_else(|| panic!("string field {k} missing in {v}")) }
fn n(v: &Value, k: &str) -> usize { v[k].as_u64().unwrap_or_else(|| panic!("int field {k} missing in {v}")) as usize }
fn b(v: &Value, k: &str) -> bool { v[k].as_bool().unwrap_or_else(|| panic!("bool field {k} missing in {v}")) }
fn u(v: &Value, k: &str) -> u64 { s(v, k).parse().unwrap_or_else(|_| panic!("u64 field {k} in {v}")) }

fn pattern(len: usize, salt: u8) -> Vec<u8> { (0..len).map(|i| (i as u8).wrapping_mul(7).wrapping_add(salt)).collect() }

// ------------------------------------------------------------------------------------------------
// abstract -> real
// ------------------------------------------------------------------------------------------------
fn build_input(nm: &Names, v: &Value, j: usize) -> Input {
    let k = s(v, "k");
    let amount = if k == "Contract" { 0 } else { u(v, "amount") };
    let predicate = pattern(n(v, "predLen"), 0x24 + j as u8);
    let pdata = pattern(n(v, "predDataLen"), 0x61);
    let data = pattern(n(v, "dataLen"), 0x11 + j as u8);
    let owner = |pred: &Vec<u8>| if s(v, "owner") == "pred" { Input::predicate_owner(pred) } else { nm.owner(s(v, "owner")) };
    let wit = n(v, "wit") as u16;
    let sender = Address::new(fill(0x5e));
    let ptr = TxPointer::new(BlockHeight::new(1), j as u16);
    match k {
        "CoinSigned" => Input::coin_signed(nm.utxo(s(v, "utxo")), owner(&predicate), amount, nm.asset(s(v, "asset")), ptr, wit),
        "CoinPredicate" => Input::coin_predicate(nm.utxo(s(v, "utxo")), owner(&predicate), amount, nm.asset(s(v, "asset")), ptr, 0, predicate, pdata),
        "Contract" => Input::contract(nm.utxo(s(v, "utxo")), Bytes32::new(fill(0x01)), Bytes32::new(fill(0x02)), ptr, nm.contract(s(v, "contract"))),
        "MessageCoinSigned" => Input::message_coin_signed(sender, owner(&predicate), amount, nm.nonce(s(v, "nonce")), wit),
        "MessageCoinPredicate" => Input::message_coin_predicate(sender, owner(&predicate), amount, nm.nonce(s(v, "nonce")), 0, predicate, pdata),
        "MessageDataSigned" => Input::message_data_signed(sender, owner(&predicate), amount, nm.nonce(s(v, "nonce")), wit, data),
        "MessageDataPredicate" => Input::message_data_predicate(sender, owner(&predicate), amount, nm.nonce(s(v, "nonce")), 0, data, predicate, pdata),
        _ => panic!("input kind {k}"),
    }
}

fn key32(hexkey: &str) -> Bytes32 {
    // abstract slot keys are big-endian numbers written in hex; left-pad to 32 bytes (order preserving)
    let raw = unhx(hexkey);
    let mut a = [0u8; 32];
    a[32 - raw.len()..].copy_from_slice(&raw);
    Bytes32::new(a)
}

fn build_policies(p: &Value) -> Policies {
    let mut pol = Policies::new();
    for (name, ty) in [("tip", PolicyType::Tip), ("witnessLimit", PolicyType::WitnessLimit), ("maturity", PolicyType::Maturity),
                       ("maxFee", PolicyType::MaxFee), ("expiration", PolicyType::Expiration), ("owner", PolicyType::Owner)] {
        if s(p, name) != "none" { pol.set(ty, Some(u(p, name))); }
    }
    pol
}

fn default_cparams_bytes() -> Vec<u8> { postcard::to_allocvec(&ConsensusParameters::default()).expect("postcard") }

fn build_tx(nm: &Names, t: &Value) -> Transaction {
    let kind = s(t, "kind");
    let salt = Salt::new(fill(0x5a));
    if kind == "Mint" {
        let h: u32 = s(t, "ptrHeight").parse().expect("ptrHeight");
        let ic = fuel_tx::input::contract::Contract {
            utxo_id: UtxoId::new(fill(0x70).into(), 0), balance_root: Bytes32::zeroed(), state_root: Bytes32::zeroed(),
            tx_pointer: TxPointer::new(BlockHeight::new(0), 0), contract_id: ContractId::new(fill(0xc0)),
        };
        let oc = fuel_tx::output::contract::Contract { input_index: n(t, "outInputIndex") as u16, balance_root: Bytes32::zeroed(), state_root: Bytes32::zeroed() };
        return Transaction::mint(TxPointer::new(BlockHeight::new(h), 0), ic, oc, 7, nm.asset(s(t, "mintAsset")), 1).into();
    }
    let inputs: Vec<Input> = t["inputs"].as_array().unwrap().iter().enumerate().map(|(j, v)| build_input(nm, v, j)).collect();
    let wlens: Vec<usize> = t["wlens"].as_array().unwrap().iter().map(|x| x.as_u64().unwrap() as usize).collect();
    let widx = n(t, "widx");
    let mut wit: Vec<Vec<u8>> = wlens.iter().enumerate().map(|(j, l)| pattern(*l, 0x30 + j as u8)).collect();
    let policies = build_policies(&t["pol"]);
    // body-specific witness contents
    if kind == "Upgrade" && s(t, "purpose") == "ConsensusParameters" && widx < wit.len() {
        if b(t, "deserOk") {
            let ser = default_cparams_bytes();
            assert_eq!(ser.len(), wlens[widx], "wlens must carry CParamsLen for a deserializable parameters witness");
            wit[widx] = ser;
        } else {
            wit[widx] = vec![0xff; wlens[widx]];
        }
    }
    let slots: Vec<StorageSlot> = t["slots"].as_array().unwrap().iter().enumerate()
        .map(|(j, k)| StorageSlot::new(key32(k.as_str().unwrap()), Bytes32::new(fill(0xd0 + j as u8)))).collect();
    // outputs (ContractCreated needs the real contract id / state root)
    let (cid, sroot) = {
        let code: &[u8] = if widx < wit.len() { &wit[widx] } else { &[] };
        let root = Contract::root_from_code(code);
        let sroot = Contract::initial_state_root(slots.iter());
        (Contract::id(&salt, &root, &sroot), sroot)
    };
    let to = Address::new(fill(0x77));
    let outputs: Vec<Output> = t["outputs"].as_array().unwrap().iter().map(|o| match s(o, "k") {
        "Coin" => Output::coin(to, u(o, "amount"), nm.asset(s(o, "asset"))),
        "Change" => Output::change(to, u(o, "amount"), nm.asset(s(o, "asset"))),
        "Variable" => Output::variable(to, u(o, "amount"), nm.asset(s(o, "asset"))),
        "Contract" => Output::contract(n(o, "inputIndex") as u16, Bytes32::new(fill(0x03)), Bytes32::new(fill(0x04))),
        "ContractCreated" => {
            let mut c = *cid;
            let mut r = *sroot;
            if !b(o, "idOk") { c[5] ^= 0x40; }
            if !b(o, "rootOk") { r[9] ^= 0x01; }
            Output::contract_created(ContractId::new(c), Bytes32::new(r))
        }
        k => panic!("output kind {k}"),
    }).collect();
    let witnesses: Vec<Witness> = wit.iter().map(|w| Witness::from(w.clone())).collect();
    match kind {
        "Script" => Transaction::script(t.get("gasLimit").and_then(|x| x.as_str()).and_then(|x| x.parse().ok()).unwrap_or(9), pattern(n(t, "scriptLen"), 0x24), pattern(n(t, "scriptDataLen"), 0x42),
                                        policies, inputs, outputs, witnesses).into(),
        "Create" => {
            let mut sorted = slots.clone();
            sorted.sort();
            let tx = Transaction::create(widx as u16, policies, salt, slots.clone(), inputs, outputs, witnesses);
            let in_order = sorted.iter().map(|x| *x.key()).collect::<Vec<_>>() == slots.iter().map(|x| *x.key()).collect::<Vec<_>>()
                && tx.storage_slots() == &slots;
            if in_order { tx.into() } else {
                // the constructor sorts; an unsorted vector can only arrive through deserialization
                let mut v = serde_json::to_value(&tx).expect("ser create");
                v["body"]["storage_slots"] = serde_json::to_value(&slots).unwrap();
                let tx: fuel_tx::Create = serde_json::from_value(v).expect("de create");
                tx.into()
            }
        }
        "Upgrade" => {
            let purpose = match s(t, "purpose") {
                "StateTransition" => UpgradePurpose::StateTransition { root: Bytes32::new(fill(0x99)) },
                "ConsensusParameters" => {
                    let mut sum = if widx < wit.len() { *fuel_crypto::Hasher::hash(&wit[widx]) } else { [0u8; 32] };
                    if !b(t, "checksumOk") { sum[0] ^= 0x80; }
                    UpgradePurpose::ConsensusParameters { witness_index: widx as u16, checksum: Bytes32::new(sum) }
                }
                p => panic!("purpose {p}"),
            };
            Transaction::upgrade(purpose, policies, inputs, outputs, witnesses).into()
        }
        "Upload" => {
            let nsub = n(t, "nsub");
            let sub_idx = t.get("subIdx").and_then(|x| x.as_u64()).unwrap_or(0);
            let mut tree = fuel_merkle::binary::in_memory::MerkleTree::new();
            for j in 0..nsub.max(1) {
                if j as u64 == sub_idx && widx < wit.len() { tree.push(&wit[widx]); } else { tree.push(&pattern(5, 0x80 + j as u8)); }
            }
            let (mut root, proof) = tree.prove(sub_idx.min(nsub.max(1) as u64 - 1)).expect("prove");
            if !b(t, "proofOk") { root[3] ^= 0x10; }
            let body = UploadBody { root: Bytes32::new(root), witness_index: widx as u16, subsection_index: sub_idx as u16,
                                    subsections_number: nsub as u16, proof_set: proof.into_iter().map(Bytes32::new).collect() };
            Transaction::upload(body, policies, inputs, outputs, witnesses).into()
        }
        "Blob" => {
            let mut id = if widx < wit.len() { *BlobId::compute(&wit[widx]) } else { [0u8; 32] };
            if !b(t, "blobIdOk") { id[31] ^= 0x01; }
            Transaction::blob(BlobBody { id: BlobId::new(id), witness_index: widx as u16 }, policies, inputs, outputs, witnesses).into()
        }
        k => panic!("tx kind {k}"),
    }
}

fn lim(p: &Value, k: &str) -> u64 { u(p, k) }

fn build_params(nm: &Names, p: &Value, max_size: u64, max_gas_per_tx: u64) -> ConsensusParameters {
    let txp = TxParameters::DEFAULT
        .with_max_inputs(lim(p, "maxInputs") as u16)
        .with_max_outputs(lim(p, "maxOutputs") as u16)
        .with_max_witnesses(lim(p, "maxWitnesses") as u32)
        .with_max_gas_per_tx(max_gas_per_tx)
        .with_max_size(max_size)
        .with_max_bytecode_subsections(lim(p, "maxSubsections") as u16);
    let pp = PredicateParameters::DEFAULT
        .with_max_predicate_length(lim(p, "maxPredLen"))
        .with_max_predicate_data_length(lim(p, "maxPredDataLen"))
        .with_max_message_data_length(lim(p, "maxMsgDataLen"));
    let sp = ScriptParameters::DEFAULT
        .with_max_script_length(lim(p, "maxScriptLen"))
        .with_max_script_data_length(lim(p, "maxScriptDataLen"));
    let cp = ContractParameters::DEFAULT
        .with_contract_max_size(lim(p, "contractMaxSize"))
        .with_max_storage_slots(lim(p, "maxStorageSlots"));
    ConsensusParameters::new(txp, pp, sp, cp, FeeParameters::DEFAULT, ChainId::new(7), GasCosts::default(), nm.asset(s(p, "base")),
                             u64::MAX, u64::MAX, nm.owner(s(p, "privileged")))
}

// ------------------------------------------------------------------------------------------------
// real -> abstract (the projection every event is made of)
// ------------------------------------------------------------------------------------------------
fn blank_input(k: &str) -> Map<String, Value> {
    let mut m = Map::new();
    for (f, v) in [("k", json!(k)), ("asset", json!("")), ("amount", json!("0")), ("owner", json!("")), ("utxo", json!("")), ("nonce", json!("")),
                   ("contract", json!("")), ("wit", json!(0)), ("predLen", json!(0)), ("predDataLen", json!(0)), ("dataLen", json!(0))] {
        m.insert(f.to_string(), v);
    }
    m
}

fn owner_name(nm: &Names, owner: &Address, predicate: Option<&[u8]>) -> String {
    if let Some(p) = predicate {
        if &Input::predicate_owner(p) == owner { return "pred".to_string(); }
    }
    nm.owner_name(owner)
}

fn project_input(nm: &Names, i: &Input) -> Value {
    let mut m;
    match i {
        Input::CoinSigned(CoinSigned { utxo_id, owner, amount, asset_id, witness_index, .. }) => {
            m = blank_input("CoinSigned");
            m.insert("utxo".into(), json!(nm.utxo_name(utxo_id)));
            m.insert("owner".into(), json!(owner_name(nm, owner, None)));
            m.insert("amount".into(), json!(amount.to_string()));
            m.insert("asset".into(), json!(nm.asset_name(asset_id)));
            m.insert("wit".into(), json!(*witness_index));
        }
        Input::CoinPredicate(CoinPredicate { utxo_id, owner, amount, asset_id, predicate, predicate_data, .. }) => {
            m = blank_input("CoinPredicate");
            m.insert("utxo".into(), json!(nm.utxo_name(utxo_id)));
            m.insert("owner".into(), json!(owner_name(nm, owner, Some(&predicate[..]))));
            m.insert("amount".into(), json!(amount.to_string()));
            m.insert("asset".into(), json!(nm.asset_name(asset_id)));
            m.insert("predLen".into(), json!(predicate.len()));
            m.insert("predDataLen".into(), json!(predicate_data.len()));
        }
        Input::Contract(c) => {
            m = blank_input("Contract");
            m.insert("utxo".into(), json!(nm.utxo_name(&c.utxo_id)));
            m.insert("contract".into(), json!(nm.contract_name(&c.contract_id)));
        }
        Input::MessageCoinSigned(MessageCoinSigned { recipient, amount, nonce, witness_index, .. }) => {
            m = blank_input("MessageCoinSigned");
            m.insert("owner".into(), json!(owner_name(nm, recipient, None)));
            m.insert("amount".into(), json!(amount.to_string()));
            m.insert("nonce".into(), json!(nm.nonce_name(nonce)));
            m.insert("wit".into(), json!(*witness_index));
        }
        Input::MessageCoinPredicate(MessageCoinPredicate { recipient, amount, nonce, predicate, predicate_data, .. }) => {
            m = blank_input("MessageCoinPredicate");
            m.insert("owner".into(), json!(owner_name(nm, recipient, Some(&predicate[..]))));
            m.insert("amount".into(), json!(amount.to_string()));
            m.insert("nonce".into(), json!(nm.nonce_name(nonce)));
            m.insert("predLen".into(), json!(predicate.len()));
            m.insert("predDataLen".into(), json!(predicate_data.len()));
        }
        Input::MessageDataSigned(MessageDataSigned { recipient, amount, nonce, witness_index, data, .. }) => {
            m = blank_input("MessageDataSigned");
            m.insert("owner".into(), json!(owner_name(nm, recipient, None)));
            m.insert("amount".into(), json!(amount.to_string()));
            m.insert("nonce".into(), json!(nm.nonce_name(nonce)));
            m.insert("wit".into(), json!(*witness_index));
            m.insert("dataLen".into(), json!(data.len()));
        }
        Input::MessageDataPredicate(MessageDataPredicate { recipient, amount, nonce, data, predicate, predicate_data, .. }) => {
            m = blank_input("MessageDataPredicate");
            m.insert("owner".into(), json!(owner_name(nm, recipient, Some(&predicate[..]))));
            m.insert("amount".into(), json!(amount.to_string()));
            m.insert("nonce".into(), json!(nm.nonce_name(nonce)));
            m.insert("predLen".into(), json!(predicate.len()));
            m.insert("predDataLen".into(), json!(predicate_data.len()));
            m.insert("dataLen".into(), json!(data.len()));
        }
    }
    Value::Object(m)
}

fn out_json(k: &str, asset: String, amount: u64, ix: u64, id_ok: bool, root_ok: bool) -> Value {
    json!({"k": k, "asset": asset, "amount": amount.to_string(), "inputIndex": ix, "idOk": id_ok, "rootOk": root_ok})
}

fn project_output(nm: &Names, o: &Output, created: &Option<(ContractId, Bytes32)>, sroot: &Bytes32, is_create: bool) -> Value {
    match o {
        Output::Coin { amount, asset_id, .. } => out_json("Coin", nm.asset_name(asset_id), *amount, 0, false, false),
        Output::Change { amount, asset_id, .. } => out_json("Change", nm.asset_name(asset_id), *amount, 0, false, false),
        Output::Variable { amount, asset_id, .. } => {
            // the asset of a variable output is not constrained by any rule; keep the abstract blank when it is the zero id
            let a = if asset_id == &AssetId::zeroed() { String::new() } else { nm.asset_name(asset_id) };
            out_json("Variable", a, *amount, 0, false, false)
        }
        Output::Contract(c) => out_json("Contract", String::new(), 0, c.input_index as u64, false, false),
        Output::ContractCreated { contract_id, state_root } => {
            // only a Create transaction has a contract to compare with (is_create <=> created/sroot are meaningful)
            let id_ok = matches!(created, Some((cid, _)) if cid == contract_id);
            out_json("ContractCreated", String::new(), 0, 0, id_ok, is_create && state_root == sroot)
        }
    }
}

fn pol_json(p: &Policies) -> Value {
    let g = |t: PolicyType| p.get(t).map(|v| v.to_string()).unwrap_or_else(|| "none".to_string());
    json!({"tip": g(PolicyType::Tip), "witnessLimit": g(PolicyType::WitnessLimit), "maturity": g(PolicyType::Maturity),
           "maxFee": g(PolicyType::MaxFee), "expiration": g(PolicyType::Expiration), "owner": g(PolicyType::Owner)})
}

fn measure(tx: &Transaction, gc: &GasCosts, fee: &FeeParameters) -> (u64, u64) {
    match tx {
        Transaction::Script(t) => (t.size() as u64, t.max_gas(gc, fee)),
        Transaction::Create(t) => (t.size() as u64, t.max_gas(gc, fee)),
        Transaction::Upgrade(t) => (t.size() as u64, t.max_gas(gc, fee)),
        Transaction::Upload(t) => (t.size() as u64, t.max_gas(gc, fee)),
        Transaction::Blob(t) => (t.size() as u64, t.max_gas(gc, fee)),
        Transaction::Mint(t) => (t.size() as u64, 0),
    }
}

fn project_tx(nm: &Names, tx: &Transaction, gc: &GasCosts, fee: &FeeParameters) -> Value {
    let (size, max_gas) = measure(tx, gc, fee);
    let mut m = Map::new();
    let kind = match tx {
        Transaction::Script(_) => "Script", Transaction::Create(_) => "Create", Transaction::Mint(_) => "Mint",
        Transaction::Upgrade(_) => "Upgrade", Transaction::Upload(_) => "Upload", Transaction::Blob(_) => "Blob",
    };
    m.insert("kind".into(), json!(kind));
    m.insert("size".into(), json!(size.to_string()));
    m.insert("maxGas".into(), json!(max_gas.to_string()));
    for (f, v) in [("scriptLen", json!(0)), ("scriptDataLen", json!(0)), ("widx", json!(0)), ("slots", json!([])), ("purpose", json!("none")),
                   ("checksumOk", json!(false)), ("deserOk", json!(false)), ("nsub", json!(0)), ("proofOk", json!(false)), ("blobIdOk", json!(false)),
                   ("ptrHeight", json!("0")), ("outInputIndex", json!(0)), ("mintAsset", json!(""))] {
        m.insert(f.to_string(), v);
    }
    let (inputs, outputs, witnesses, policies): (&[Input], &[Output], &[Witness], Option<&Policies>) = match tx {
        Transaction::Script(t) => (t.inputs(), t.outputs(), t.witnesses(), Some(t.policies())),
        Transaction::Create(t) => (t.inputs(), t.outputs(), t.witnesses(), Some(t.policies())),
        Transaction::Upgrade(t) => (t.inputs(), t.outputs(), t.witnesses(), Some(t.policies())),
        Transaction::Upload(t) => (t.inputs(), t.outputs(), t.witnesses(), Some(t.policies())),
        Transaction::Blob(t) => (t.inputs(), t.outputs(), t.witnesses(), Some(t.policies())),
        Transaction::Mint(_) => (&[], &[], &[], None),
    };
    let wbytes = |ix: usize| witnesses.get(ix).map(|w| w.as_vec().as_slice());
    let mut created: Option<(ContractId, Bytes32)> = None;
    let mut sroot = Bytes32::zeroed();
    match tx {
        Transaction::Script(t) => {
            m.insert("scriptLen".into(), json!(t.script().len()));
            m.insert("scriptDataLen".into(), json!(t.script_data().len()));
            m.insert("gasLimit".into(), json!(t.script_gas_limit().to_string()));
        }
        Transaction::Create(t) => {
            let ix = *t.bytecode_witness_index() as usize;
            m.insert("widx".into(), json!(ix));
            // keys are big-endian numbers: leading zero bytes carry no information
            let trim = |k: &Bytes32| { let z = k.iter().take_while(|x| **x == 0).count().min(31); hx(&k[z..]) };
            m.insert("slots".into(), Value::Array(t.storage_slots().iter().map(|sl| json!(trim(sl.key()))).collect()));
            sroot = Contract::initial_state_root(t.storage_slots().iter());
            if let Some(code) = wbytes(ix) {
                let root = Contract::root_from_code(code);
                created = Some((Contract::id(t.salt(), &root, &sroot), sroot));
            }
        }
        Transaction::Upgrade(t) => match t.upgrade_purpose() {
            UpgradePurpose::StateTransition { .. } => { m.insert("purpose".into(), json!("StateTransition")); }
            UpgradePurpose::ConsensusParameters { witness_index, checksum } => {
                let ix = *witness_index as usize;
                m.insert("purpose".into(), json!("ConsensusParameters"));
                m.insert("widx".into(), json!(ix));
                if let Some(w) = wbytes(ix) {
                    m.insert("checksumOk".into(), json!(&fuel_crypto::Hasher::hash(w) == checksum));
                    m.insert("deserOk".into(), json!(postcard::from_bytes::<ConsensusParameters>(w).is_ok()));
                }
            }
        },
        Transaction::Upload(t) => {
            let ix = *t.bytecode_witness_index() as usize;
            m.insert("widx".into(), json!(ix));
            m.insert("nsub".into(), json!(*t.subsections_number()));
            m.insert("subIdx".into(), json!(*t.subsection_index()));
            if let Some(w) = wbytes(ix) {
                let proof: Vec<[u8; 32]> = t.proof_set().iter().map(|p| **p).collect();
                let ok = fuel_merkle::binary::verify(&**t.bytecode_root(), &w, &proof, *t.subsection_index() as u64, *t.subsections_number() as u64);
                m.insert("proofOk".into(), json!(ok));
            }
        }
        Transaction::Blob(t) => {
            let ix = *t.bytecode_witness_index() as usize;
            m.insert("widx".into(), json!(ix));
            if let Some(w) = wbytes(ix) { m.insert("blobIdOk".into(), json!(&BlobId::compute(w) == t.blob_id())); }
        }
        Transaction::Mint(t) => {
            m.insert("ptrHeight".into(), json!((*t.tx_pointer().block_height()).to_string()));
            m.insert("outInputIndex".into(), json!(t.output_contract().input_index));
            m.insert("mintAsset".into(), json!(nm.asset_name(t.mint_asset_id())));
        }
    }
    m.insert("inputs".into(), Value::Array(inputs.iter().map(|i| project_input(nm, i)).collect()));
    m.insert("outputs".into(), Value::Array(outputs.iter().map(|o| project_output(nm, o, &created, &sroot, kind == "Create")).collect()));
    m.insert("wlens".into(), Value::Array(witnesses.iter().map(|w| json!(w.as_vec().len())).collect()));
    m.insert("pol".into(), policies.map(pol_json).unwrap_or_else(|| pol_json(&Policies::new())));
    Value::Object(m)
}

fn project_params(nm: &Names, cp: &ConsensusParameters) -> Value {
    let t = cp.tx_params();
    let p = cp.predicate_params();
    json!({
        "maxSize": t.max_size().to_string(), "maxGasPerTx": t.max_gas_per_tx().to_string(),
        "maxInputs": t.max_inputs().to_string(), "maxOutputs": t.max_outputs().to_string(), "maxWitnesses": t.max_witnesses().to_string(),
        "maxPredLen": p.max_predicate_length().to_string(), "maxPredDataLen": p.max_predicate_data_length().to_string(),
        "maxMsgDataLen": p.max_message_data_length().to_string(),
        "maxScriptLen": cp.script_params().max_script_length().to_string(), "maxScriptDataLen": cp.script_params().max_script_data_length().to_string(),
        "contractMaxSize": cp.contract_params().contract_max_size().to_string(), "maxStorageSlots": cp.contract_params().max_storage_slots().to_string(),
        "maxSubsections": t.max_bytecode_subsections().to_string(),
        "base": nm.asset_name(cp.base_asset_id()), "privileged": nm.owner_name(cp.privileged_address()),
    })
}

// ------------------------------------------------------------------------------------------------
// the calls under observation
// ------------------------------------------------------------------------------------------------
struct Obs {
    ok: bool,
    err: String,
    fmt: bool,
    fmt_err: String,
    bal: BTreeMap<AssetId, u64>,
    retry: u64,
    panic: Option<String>,
}

fn variant_name(dbg: String) -> String {
    dbg.split(|c: char| !(c.is_alphanumeric() || c == '_')).find(|x| !x.is_empty()).unwrap_or("").to_string()
}

fn observe(tx: &Transaction, cp: &ConsensusParameters, h: BlockHeight) -> Obs {
    let mut o = Obs { ok: false, err: String::new(), fmt: false, fmt_err: String::new(), bal: BTreeMap::new(), retry: 0, panic: None };
    // (1) the format rules alone
    let t1 = tx.clone();
    match catch(std::panic::AssertUnwindSafe(|| {
        let mut t = t1;
        t.precompute(&cp.chain_id()).and_then(|_| t.check_without_signatures(h, cp))
    })) {
        Ok(Ok(())) => o.fmt = true,
        Ok(Err(e)) => o.fmt_err = variant_name(format!("{e:?}")),
        Err(msg) => { o.panic = Some(format!("check_without_signatures: {msg}")); return o; }
    }
    // (2) the basic check with its metadata
    let t2 = tx.clone();
    match catch(std::panic::AssertUnwindSafe(|| t2.into_checked_basic(h, cp))) {
        Ok(Ok(checked)) => {
            o.ok = true;
            match checked.metadata() {
                CheckedMetadata::Script(m) => {
                    o.bal = m.non_retryable_balances.iter().map(|(a, v)| (*a, *v)).collect();
                    o.retry = *m.retryable_balance;
                }
                CheckedMetadata::Create(m) => o.bal = m.free_balances.iter().map(|(a, v)| (*a, *v)).collect(),
                CheckedMetadata::Upgrade(m) => o.bal = m.free_balances.iter().map(|(a, v)| (*a, *v)).collect(),
                CheckedMetadata::Upload(m) => o.bal = m.free_balances.iter().map(|(a, v)| (*a, *v)).collect(),
                CheckedMetadata::Blob(m) => o.bal = m.free_balances.iter().map(|(a, v)| (*a, *v)).collect(),
                CheckedMetadata::Mint(_) => {}
            }
        }
        Ok(Err(e)) => {
            let d = format!("{e:?}");
            // CheckError::Validity(ValidityError::X ...) -> X
            let inner = d.strip_prefix("Validity(").unwrap_or(&d).to_string();
            o.err = variant_name(inner);
        }
        Err(msg) => o.panic = Some(format!("into_checked_basic: {msg}")),
    }
    o
}

fn event(nm: &Names, src: &str, tx: &Transaction, cp: &ConsensusParameters, h: BlockHeight, o: &Obs) -> Value {
    if let Some(msg) = &o.panic {
        return json!({"ev": "HostPanic", "src": src, "msg": msg, "tx": project_tx(nm, tx, cp.gas_costs(), cp.fee_params()),
                      "p": project_params(nm, cp), "h": (*h).to_string()});
    }
    json!({
        "ev": "Checked", "src": src,
        "tx": project_tx(nm, tx, cp.gas_costs(), cp.fee_params()), "p": project_params(nm, cp), "h": (*h).to_string(),
        "ok": o.ok, "err": o.err, "fmt": o.fmt, "fmtErr": o.fmt_err,
        "bal": Value::Array(o.bal.iter().map(|(a, v)| json!({"asset": nm.asset_name(a), "amount": v.to_string()})).collect()),
        "retry": o.retry.to_string(),
    })
}

// ------------------------------------------------------------------------------------------------
// Leg R: replay of TLC-generated cases
// ------------------------------------------------------------------------------------------------
fn rel(p: &Value, k: &str, actual: u64) -> u64 {
    // limits of the symbolic quantities are given relative to SYM
    let v: i128 = s(p, k).parse().expect("limit");
    let r = actual as i128 + (v - SYM);
    r.clamp(0, u64::MAX as i128) as u64
}

fn replay(o: &Opts) -> Res<()> {
    let path = o.input.as_ref().expect("input");
    let mut out = Out::open(&o.out)?;
    let mut events = match o.opt("--events") { Some(p) => Some(Out::open(&Some(p))?), None => None };
    let nm = Names { idmap: o.opt("--idmap").and_then(|x| x.parse().ok()).unwrap_or(0) };
    let every: u64 = o.opt("--events-every").and_then(|x| x.parse().ok()).unwrap_or(1);
    let f = std::io::BufReader::new(std::fs::File::open(path)?);
    use std::io::BufRead;
    let (mut cases, mut accepted, mut rejected, mut mism) = (0u64, 0u64, 0u64, 0u64);
    let gc = GasCosts::default();
    let fee = FeeParameters::DEFAULT;
    for ln in f.lines() {
        let ln = ln?;
        if ln.trim().is_empty() { continue; }
        let c: Value = serde_json::from_str(&ln)?;
        cases += 1;
        let tx = build_tx(&nm, &c["tx"]);
        let (size, max_gas) = measure(&tx, &gc, &fee);
        let cp = build_params(&nm, &c["p"], rel(&c["p"], "maxSize", size), rel(&c["p"], "maxGasPerTx", max_gas));
        let h = BlockHeight::new(s(&c, "h").parse()?);
        // the projection of what was built must be the abstract case itself (harness sanity, not a verdict)
        let mut pt = project_tx(&nm, &tx, &gc, &fee);
        pt["size"] = json!(SYM.to_string());
        pt["maxGas"] = json!(SYM.to_string());
        let mut want = c["tx"].clone();
        if let Some(m) = pt.as_object_mut() { m.remove("gasLimit"); m.remove("subIdx"); }
        if let Some(m) = want.as_object_mut() { m.remove("gasLimit"); m.remove("subIdx"); }
        if pt != want {
            return Err(format!("harness projection differs from the abstract case {cases}:\n built   {pt}\n abstract {want}").into());
        }
        let mut pp = project_params(&nm, &cp);
        pp["maxSize"] = c["p"]["maxSize"].clone();
        pp["maxGasPerTx"] = c["p"]["maxGasPerTx"].clone();
        if pp != c["p"] {
            return Err(format!("harness parameter projection differs in case {cases}:\n built   {pp}\n abstract {}", c["p"]).into());
        }
        let ob = observe(&tx, &cp, h);
        if let Some(ev) = events.as_mut() {
            if cases % every == 0 {
                if ev.n % 200 == 0 { ev.ev(json!({"ev": "Seg"})); }
                ev.ev(event(&nm, s(&c, "mut"), &tx, &cp, h, &ob));
            }
        }
        let exp = &c["exp"];
        let verdict = s(exp, "verdict");
        let failing: Vec<&str> = exp["failing"].as_array().unwrap().iter().map(|x| x.as_str().unwrap()).collect();
        let rule = if failing.len() == 1 { failing[0].to_string() } else if failing.is_empty() { "balance".to_string() } else { "several".to_string() };
        let mut report = |what: String, expected: Value, observed: Value, out: &mut Out| {
            mism += 1;
            out.ev(json!({"mismatch": what, "case": cases, "mut": c["mut"], "kind": c["tx"]["kind"], "expected": expected, "observed": observed,
                          "err": ob.err, "fmtErr": ob.fmt_err, "behaviour": c}));
        };
        if let Some(msg) = &ob.panic {
            report("host-panic".into(), json!(verdict), json!(msg), &mut out);
            continue;
        }
        if ob.ok { accepted += 1 } else { rejected += 1 }
        // verdict of the basic check
        if verdict == "reject" && ob.ok { report(format!("accepted-invalid/{rule}"), json!("reject"), json!("accepted"), &mut out); }
        if verdict == "accept" && !ob.ok { report(format!("rejected-valid/{}", ob.err), json!("accept"), json!(format!("rejected: {}", ob.err)), &mut out); }
        // verdict of the format rules alone
        if failing.is_empty() && !ob.fmt { report(format!("format-rejected-valid/{}", ob.fmt_err), json!("format ok"), json!(ob.fmt_err), &mut out); }
        if !failing.is_empty() && ob.fmt { report(format!("format-accepted-invalid/{rule}"), json!(failing), json!("format ok"), &mut out); }
        // recorded balances
        if ob.ok && verdict != "reject" {
            let mut got: BTreeMap<String, String> = ob.bal.iter().map(|(a, v)| (nm.asset_name(a), v.to_string())).collect();
            let want: BTreeMap<String, String> = exp["bal"].as_array().unwrap().iter()
                .map(|e| (e[0].as_str().unwrap().to_string(), e[1].as_str().unwrap().to_string())).collect();
            let base = s(&c["p"], "base").to_string();
            if c["tx"]["kind"] != "Mint" { got.entry(base).or_insert_with(|| "0".to_string()); }
            if got != want { report("free-balances".into(), json!(want), json!(got), &mut out); }
            if ob.retry.to_string() != s(exp, "retry") { report("retryable-balance".into(), exp["retry"].clone(), json!(ob.retry.to_string()), &mut out); }
        }
    }
    out.ev(json!({"summary": {"cases": cases, "accepted": accepted, "rejected": rejected, "mismatches": mism, "idmap": nm.idmap}}));
    out.finish();
    if let Some(ev) = events { ev.finish(); }
    Ok(())
}

// ------------------------------------------------------------------------------------------------
// Leg T: seeded random abstract transactions, mutations of them, factory transactions
// ------------------------------------------------------------------------------------------------
fn amount(rng: &mut StdRng) -> u64 {
    match rng.gen_range(0..14) {
        0 => 0,
        1 => 1,
        2 => 2,
        3 => 5,
        4 => u64::MAX,
        5 => u64::MAX - 1,
        6 => 1u64 << 63,
        7 => (1u64 << 63) - 1,
        8 => (1u64 << 32) + rng.gen_range(0..3),
        9 => u64::MAX - rng.gen_range(0..8),
        _ => rng.gen_range(0..1000),
    }
}

fn pick<'a>(rng: &mut StdRng, xs: &[&'a str]) -> &'a str { xs[rng.gen_range(0..xs.len())] }

struct Gen<'a> {
    rng: &'a mut StdRng,
    utxo: usize,
    nonce: usize,
    contract: usize,
}

const UTXOS: [&str; 4] = ["u0", "u1", "u2", "u3"];
const NONCES: [&str; 4] = ["n0", "n1", "n2", "n3"];
const CONTRACTS: [&str; 3] = ["c0", "c1", "c2"];

impl<'a> Gen<'a> {
    fn input(&mut self, k: &str, asset: &str, nwit: usize) -> Option<Value> {
        let mut m = blank_input(k);
        let amt = if self.rng.gen_bool(0.5) { self.rng.gen_range(1..100) } else { amount(self.rng) };
        let pred = k.ends_with("Predicate");
        if k != "Contract" {
            m.insert("amount".into(), json!(amt.to_string()));
            m.insert("owner".into(), json!(if pred { "pred" } else { pick(self.rng, &["o0", "o1", "o2"]) }));
        }
        if pred {
            m.insert("predLen".into(), json!(self.rng.gen_range(1..12)));
            m.insert("predDataLen".into(), json!(self.rng.gen_range(0..6)));
        } else if k != "Contract" {
            m.insert("wit".into(), json!(self.rng.gen_range(0..nwit.max(1))));
        }
        if k.starts_with("Coin") {
            if self.utxo >= UTXOS.len() { return None; }
            m.insert("utxo".into(), json!(UTXOS[self.utxo]));
            self.utxo += 1;
            m.insert("asset".into(), json!(asset));
        } else if k == "Contract" {
            if self.contract >= CONTRACTS.len() { return None; }
            m.insert("contract".into(), json!(CONTRACTS[self.contract]));
            self.contract += 1;
            // the utxo id of a contract input is free: reuse a coin's id on purpose
            m.insert("utxo".into(), json!(pick(self.rng, &UTXOS)));
        } else {
            if self.nonce >= NONCES.len() { return None; }
            m.insert("nonce".into(), json!(NONCES[self.nonce]));
            self.nonce += 1;
            if k.starts_with("MessageData") { m.insert("dataLen".into(), json!(self.rng.gen_range(1..9))); }
        }
        Some(Value::Object(m))
    }
}

fn out_abs(k: &str, asset: &str, amount: u64, ix: usize, id_ok: bool, root_ok: bool) -> Value {
    json!({"k": k, "asset": asset, "amount": amount.to_string(), "inputIndex": ix, "idOk": id_ok, "rootOk": root_ok})
}

/// A transaction that is meant to satisfy every rule (the specification decides whether it does).
fn gen_valid(rng: &mut StdRng, cparams_len: usize) -> Value {
    let kind = match rng.gen_range(0..100) { 0..=39 => "Script", 40..=54 => "Create", 55..=66 => "Upgrade", 67..=78 => "Upload", 79..=90 => "Blob", _ => "Mint" };
    if kind == "Mint" {
        return json!({"kind": "Mint", "inputs": [], "outputs": [], "wlens": [], "pol": pol_json(&Policies::new()), "scriptLen": 0, "scriptDataLen": 0,
                      "widx": 0, "slots": [], "purpose": "none", "checksumOk": false, "deserOk": false, "nsub": 0, "proofOk": false, "blobIdOk": false,
                      "ptrHeight": "H", "outInputIndex": 0, "mintAsset": "B"});
    }
    let script = kind == "Script";
    let mut wlens: Vec<usize> = (0..rng.gen_range(1..4)).map(|_| rng.gen_range(0..20)).collect();
    let widx = if script { 0 } else { rng.gen_range(0..wlens.len()) };
    let cp_purpose = kind == "Upgrade" && rng.gen_bool(0.5);
    if cp_purpose { wlens[widx] = cparams_len; }
    let nwit = wlens.len();
    let mut g = Gen { rng, utxo: 0, nonce: 0, contract: 0 };
    let mut inputs: Vec<Value> = vec![];
    let mut outputs: Vec<Value> = vec![];
    let nin = g.rng.gen_range(1..5);
    for j in 0..nin {
        let k = if script {
            pick(g.rng, &["CoinSigned", "CoinSigned", "CoinPredicate", "MessageCoinSigned", "MessageCoinPredicate", "MessageDataSigned", "MessageDataPredicate", "Contract"])
        } else {
            pick(g.rng, &["CoinSigned", "CoinPredicate", "MessageCoinSigned", "MessageCoinPredicate"])
        };
        let k = if j == 0 { pick(g.rng, &["CoinSigned", "CoinPredicate", "MessageCoinSigned", "MessageCoinPredicate"]) } else { k };
        let asset = if script { pick(g.rng, &["B", "B", "X", "Y"]) } else { "B" };
        if let Some(i) = g.input(k, asset, nwit) {
            if k == "Contract" { outputs.push(out_abs("Contract", "", 0, inputs.len(), false, false)); }
            inputs.push(i);
        }
    }
    if kind == "Upgrade" && !inputs.iter().any(|i| i["owner"] == "o0") {
        let j = g.rng.gen_range(0..inputs.len());
        if !s(&inputs[j], "k").ends_with("Predicate") { inputs[j]["owner"] = json!("o0"); }
        else if let Some(i) = g.input("CoinSigned", "B", nwit) { let mut i = i; i["owner"] = json!("o0"); inputs.push(i); }
    }
    let rng = g.rng;
    // available amount per asset (u128: the harness does not judge overflow, it only sizes outputs)
    let mut avail: BTreeMap<String, u128> = BTreeMap::new();
    for i in &inputs {
        let k = s(i, "k");
        if k.starts_with("Coin") { *avail.entry(s(i, "asset").to_string()).or_default() += u(i, "amount") as u128; }
        if k.starts_with("MessageCoin") { *avail.entry("B".to_string()).or_default() += u(i, "amount") as u128; }
    }
    let has_msg = inputs.iter().any(|i| s(i, "k").starts_with("Message"));
    let mut spend = |rng: &mut StdRng, a: &str| -> u64 {
        let e = avail.entry(a.to_string()).or_default();
        let cap = (*e).min(u64::MAX as u128) as u64;
        let v = match rng.gen_range(0..5) { 0 => 0, 1 => cap, 2 => cap.saturating_sub(1), _ => if cap == 0 { 0 } else { rng.gen_range(0..=cap) } };
        *e -= v as u128;
        v
    };
    let max_fee = match rng.gen_range(0..4) { 0 => 0, _ => spend(rng, "B") };
    let assets: Vec<String> = {
        let mut v: Vec<String> = inputs.iter().filter(|i| s(i, "k").starts_with("Coin")).map(|i| s(i, "asset").to_string()).collect();
        if has_msg { v.push("B".to_string()); }
        v.sort();
        v.dedup();
        v
    };
    for _ in 0..rng.gen_range(0..3) {
        if assets.is_empty() { break; }
        let a = assets[rng.gen_range(0..assets.len())].clone();
        if !script && a != "B" { continue; }
        let v = spend(rng, &a);
        outputs.push(out_abs("Coin", &a, v, 0, false, false));
    }
    for a in &assets {
        if rng.gen_bool(0.4) && (script || a == "B") { outputs.push(out_abs("Change", a, 0, 0, false, false)); }
    }
    if script && rng.gen_bool(0.3) { outputs.push(out_abs("Variable", "", 0, 0, false, false)); }
    if kind == "Create" { outputs.push(out_abs("ContractCreated", "", 0, 0, true, true)); }
    outputs.shuffle(rng);
    // now and then the change outputs are an INTERLEAVED duplicate - Change(a), Change(b), Change(a) - which the rule "at most
    // one change output per asset" forbids just as it forbids adjacent ones (the specification decides; the generator only builds)
    if script && assets.len() >= 2 && rng.gen_range(0..6) == 0 {
        outputs.retain(|o| o["k"] != "Change");
        for a in [&assets[0], &assets[1], &assets[0]] { outputs.push(out_abs("Change", a, 0, 0, false, false)); }
    }
    // contract outputs moved by the shuffle keep pointing at their inputs (inputIndex is data, not position)
    let nslots = if kind == "Create" { rng.gen_range(0..4) } else { 0 };
    let mut keys: Vec<u8> = (0..nslots).map(|_| rng.gen_range(1..250)).collect();
    keys.sort();
    keys.dedup();
    let slots: Vec<Value> = keys.iter().map(|k| json!(format!("{:02x}", k))).collect();
    let mut pol = json!({"tip": "none", "witnessLimit": "none", "maturity": "none", "maxFee": max_fee.to_string(), "expiration": "none", "owner": "none"});
    if rng.gen_bool(0.3) { pol["tip"] = json!(amount(rng).to_string()); }
    if rng.gen_bool(0.3) { pol["maturity"] = json!("H-"); }
    if rng.gen_bool(0.3) { pol["expiration"] = json!("H+"); }
    if rng.gen_bool(0.3) { pol["witnessLimit"] = json!("W+"); }
    if rng.gen_bool(0.3) {
        let owners: Vec<usize> = inputs.iter().enumerate().filter(|(_, i)| i["k"] != "Contract").map(|(j, _)| j).collect();
        pol["owner"] = json!(owners[rng.gen_range(0..owners.len())].to_string());
    }
    json!({"kind": kind, "inputs": inputs, "outputs": outputs, "wlens": wlens, "pol": pol,
           "scriptLen": if script { rng.gen_range(0..16) } else { 0 }, "scriptDataLen": if script { rng.gen_range(0..16) } else { 0 },
           "gasLimit": if script { rng.gen_range(0..1000u64).to_string() } else { "0".to_string() },
           "widx": widx, "slots": slots,
           "purpose": if kind == "Upgrade" { if cp_purpose { "ConsensusParameters" } else { "StateTransition" } } else { "none" },
           "checksumOk": cp_purpose, "deserOk": cp_purpose,
           "nsub": if kind == "Upload" { rng.gen_range(1..5) } else { 0 }, "proofOk": kind == "Upload", "blobIdOk": kind == "Blob",
           "ptrHeight": "0", "outInputIndex": 0, "mintAsset": ""})
}

/// One random structural change; returns its tag.
fn mutate(rng: &mut StdRng, t: &mut Value) -> String {
    let kind = s(t, "kind").to_string();
    if kind == "Mint" {
        return match rng.gen_range(0..3) {
            0 => { t["ptrHeight"] = json!(pick(rng, &["H-1", "H+1", "0"])); "mint-height".into() }
            1 => { t["outInputIndex"] = json!(rng.gen_range(1..3)); "mint-index".into() }
            _ => { t["mintAsset"] = json!("X"); "mint-asset".into() }
        };
    }
    let nin = t["inputs"].as_array().unwrap().len();
    let nout = t["outputs"].as_array().unwrap().len();
    let nwit = t["wlens"].as_array().unwrap().len();
    for _ in 0..20 {
        match rng.gen_range(0..34) {
            0 if nin > 0 => { let j = rng.gen_range(0..nin); if t["inputs"][j]["k"] != "Contract" { t["inputs"][j]["amount"] = json!(amount(rng).to_string()); return "in-amount".into(); } }
            1 if nout > 0 => { let j = rng.gen_range(0..nout); if t["outputs"][j]["k"] == "Coin" { t["outputs"][j]["amount"] = json!(amount(rng).to_string()); return "out-amount".into(); } }
            2 => { t["pol"]["maxFee"] = json!(amount(rng).to_string()); return "fee".into(); }
            3 if nin > 1 => { // duplicate an identifier
                let (a, bb) = (rng.gen_range(0..nin), rng.gen_range(0..nin));
                if a != bb {
                    let f = pick(rng, &["utxo", "nonce", "contract"]);
                    let v = t["inputs"][a][f].clone();
                    if v != "" && t["inputs"][bb][f] != "" { t["inputs"][bb][f] = v; return format!("dup-{f}"); }
                }
            }
            4 if nin > 0 => { let j = rng.gen_range(0..nin); if s(&t["inputs"][j], "k").starts_with("Coin") { t["inputs"][j]["asset"] = json!(pick(rng, &["B", "X", "Y"])); return "in-asset".into(); } }
            5 if nin > 0 => { let j = rng.gen_range(0..nin); t["inputs"].as_array_mut().unwrap().remove(j); return "drop-input".into(); }
            6 if nout > 0 => { let j = rng.gen_range(0..nout); t["outputs"].as_array_mut().unwrap().remove(j); return "drop-output".into(); }
            7 if nout > 0 => { let j = rng.gen_range(0..nout); if t["outputs"][j]["k"] == "Contract" { t["outputs"][j]["inputIndex"] = json!(rng.gen_range(0..nin + 2)); return "contract-index".into(); } }
            8 => { let a = pick(rng, &["B", "X", "Y"]); t["outputs"].as_array_mut().unwrap().push(out_abs("Change", a, 0, 0, false, false)); return "add-change".into(); }
            9 => { let a = pick(rng, &["B", "X", "Y"]); let v = match rng.gen_range(0..3) { 0 => 0, 1 => 1, _ => amount(rng) }; t["outputs"].as_array_mut().unwrap().push(out_abs("Coin", a, v, 0, false, false)); return "add-coin".into(); }
            10 => { t["outputs"].as_array_mut().unwrap().push(out_abs("ContractCreated", "", 0, 0, rng.gen_bool(0.7), rng.gen_bool(0.7))); return "add-created".into(); }
            11 => { t["outputs"].as_array_mut().unwrap().push(out_abs("Variable", "", 0, 0, false, false)); return "add-variable".into(); }
            12 => { t["outputs"].as_array_mut().unwrap().push(out_abs("Contract", "", 0, rng.gen_range(0..nin + 1), false, false)); return "add-contract-output".into(); }
            13 if nin > 0 => { let j = rng.gen_range(0..nin); if s(&t["inputs"][j], "k").ends_with("Signed") { t["inputs"][j]["wit"] = json!(nwit + rng.gen_range(0..2)); return "wit-index".into(); } }
            14 if nin > 0 => { let j = rng.gen_range(0..nin); if s(&t["inputs"][j], "k").ends_with("Predicate") { t["inputs"][j]["predLen"] = json!(0); return "pred-empty".into(); } }
            15 if nin > 0 => { let j = rng.gen_range(0..nin); if s(&t["inputs"][j], "k").starts_with("MessageData") { t["inputs"][j]["dataLen"] = json!(0); return "data-empty".into(); } }
            16 => { t["pol"]["maturity"] = json!(pick(rng, &["H", "H+1", "H-1", "4294967295", "4294967296", "0"])); return "maturity".into(); }
            17 => { t["pol"]["expiration"] = json!(pick(rng, &["H", "H+1", "H-1", "4294967295", "4294967296", "0"])); return "expiration".into(); }
            18 => { t["pol"]["maxFee"] = json!("none"); return "no-max-fee".into(); }
            19 => { t["pol"]["owner"] = json!(match rng.gen_range(0..4) { 0 => nin.to_string(), 1 => "4294967296".to_string(), 2 => "4294967295".to_string(), _ => rng.gen_range(0..nin + 1).to_string() }); return "owner".into(); }
            20 => { t["pol"]["witnessLimit"] = json!(pick(rng, &["W", "W-1", "W+", "0", "18446744073709551615"])); return "witness-limit".into(); }
            21 => { // an input of another kind appears
                let k = pick(rng, &["Contract", "MessageDataSigned", "MessageDataPredicate", "CoinSigned", "MessageCoinPredicate"]);
                let a = pick(rng, &["B", "X"]);
                let mut g = Gen { rng, utxo: 3, nonce: 3, contract: 2 };
                if let Some(i) = g.input(k, a, nwit) {
                    let with_out = k == "Contract" && g.rng.gen_bool(0.6);
                    t["inputs"].as_array_mut().unwrap().push(i);
                    if with_out { t["outputs"].as_array_mut().unwrap().push(out_abs("Contract", "", 0, nin, false, false)); }
                    return format!("add-input-{k}");
                }
            }
            22 => { t["widx"] = json!(nwit + rng.gen_range(0..2)); if kind != "Script" { return "body-witness-index".into(); } }
            23 if kind == "Create" => { let v = pick(rng, &[r#"["02","01"]"#, r#"["07","07"]"#, r#"["01","02","02"]"#, r#"["03","01","02"]"#, r#"["01","02","03","04","05"]"#]); t["slots"] = serde_json::from_str(v).unwrap(); return "slots".into(); }
            24 if kind == "Upgrade" => { match rng.gen_range(0..3) { 0 => t["checksumOk"] = json!(false), 1 => { t["deserOk"] = json!(false); if t["purpose"] == "ConsensusParameters" { let w = n(t, "widx"); if w < nwit { t["wlens"][w] = json!(rng.gen_range(1..9)); } } }, _ => { for i in t["inputs"].as_array_mut().unwrap() { if i["owner"] == "o0" { i["owner"] = json!("o1"); } } } }; return "upgrade-body".into(); }
            25 if kind == "Upload" => { match rng.gen_range(0..3) { 0 => t["proofOk"] = json!(false), 1 => { let ns = n(t, "nsub"); t["subIdx"] = json!(rng.gen_range(0..ns + 1)); }, _ => t["nsub"] = json!(rng.gen_range(0..6)) }; return "upload-body".into(); }
            26 if kind == "Blob" => { t["blobIdOk"] = json!(false); return "blob-id".into(); }
            27 if nout > 0 => { let j = rng.gen_range(0..nout); if t["outputs"][j]["k"] == "ContractCreated" { let f = pick(rng, &["idOk", "rootOk"]); t["outputs"][j][f] = json!(false); return "created-mismatch".into(); } }
            28 if nout > 0 => { let j = rng.gen_range(0..nout); if t["outputs"][j]["k"] == "Change" || t["outputs"][j]["k"] == "Coin" { t["outputs"][j]["asset"] = json!(pick(rng, &["B", "X", "Y"])); return "out-asset".into(); } }
            29 if nwit > 0 => { t["wlens"].as_array_mut().unwrap().pop(); return "drop-witness".into(); }
            30 => { t["wlens"].as_array_mut().unwrap().push(json!(rng.gen_range(0..10))); return "add-witness".into(); }
            31 if nin > 0 => { let j = rng.gen_range(0..nin); if t["inputs"][j]["k"] != "Contract" && !s(&t["inputs"][j], "k").ends_with("Predicate") { t["inputs"][j]["owner"] = json!(pick(rng, &["o0", "o1", "o2"])); return "owner-change".into(); } }
            32 if nin > 1 => { let v = t["inputs"].as_array_mut().unwrap(); let j = rng.gen_range(0..nin - 1); v.swap(j, j + 1); return "swap-inputs".into(); }
            33 if nout > 1 => { let v = t["outputs"].as_array_mut().unwrap(); let j = rng.gen_range(0..nout - 1); v.swap(j, j + 1); return "swap-outputs".into(); }
            _ => {}
        }
    }
    "none".into()
}

/// Replace the height / witness-size placeholders of a generated case.
fn resolve_placeholders(t: &mut Value, h: u32) {
    let wsize: u64 = t["wlens"].as_array().unwrap().iter().map(|l| { let l = l.as_u64().unwrap(); 8 + l + (8 - l % 8) % 8 }).sum();
    let hh = h as u64;
    let r = |v: &str| -> Option<String> {
        Some(match v {
            "H" => hh.to_string(), "H+1" => (hh + 1).to_string(), "H-1" => hh.saturating_sub(1).to_string(),
            "H-" => (hh / 2).to_string(), "H+" => (hh + (u32::MAX as u64 - hh) / 2).to_string(),
            "W" => wsize.to_string(), "W-1" => wsize.saturating_sub(1).to_string(), "W+" => (wsize + 9).to_string(),
            _ => return None,
        })
    };
    for f in ["maturity", "expiration", "witnessLimit"] {
        if let Some(x) = r(s(&t["pol"], f)) { t["pol"][f] = json!(x); }
    }
    if let Some(x) = r(s(t, "ptrHeight")) {
        // a tx pointer height is a u32
        let v: u64 = x.parse().unwrap();
        t["ptrHeight"] = json!(if v > u32::MAX as u64 { (hh - 1).to_string() } else { x });
    }
}

/// Limits around the quantities of the built transaction; `squeeze` names one limit set just below.
fn random_params(rng: &mut StdRng, t: &Value, size: u64, max_gas: u64) -> (Value, u64, u64) {
    let maxf = |f: &str| t["inputs"].as_array().unwrap().iter().map(|i| i[f].as_u64().unwrap()).max().unwrap_or(0);
    let widx = n(t, "widx");
    let wl: Vec<u64> = t["wlens"].as_array().unwrap().iter().map(|x| x.as_u64().unwrap()).collect();
    let actual: Vec<(&str, u64, u64)> = vec![
        ("maxSize", size, u64::MAX), ("maxGasPerTx", max_gas, u64::MAX),
        ("maxInputs", t["inputs"].as_array().unwrap().len() as u64, u16::MAX as u64),
        ("maxOutputs", t["outputs"].as_array().unwrap().len() as u64, u16::MAX as u64),
        ("maxWitnesses", wl.len() as u64, u32::MAX as u64),
        ("maxPredLen", maxf("predLen"), u64::MAX), ("maxPredDataLen", maxf("predDataLen"), u64::MAX), ("maxMsgDataLen", maxf("dataLen"), u64::MAX),
        ("maxScriptLen", n(t, "scriptLen") as u64, u64::MAX), ("maxScriptDataLen", n(t, "scriptDataLen") as u64, u64::MAX),
        ("contractMaxSize", if s(t, "kind") == "Create" { wl.get(widx).copied().unwrap_or(0) } else { 0 }, u64::MAX),
        ("maxStorageSlots", t["slots"].as_array().unwrap().len() as u64, u64::MAX),
        ("maxSubsections", n(t, "nsub") as u64, u16::MAX as u64),
    ];
    let squeeze = if rng.gen_bool(0.3) { Some(rng.gen_range(0..actual.len())) } else { None };
    let style = rng.gen_range(0..3); // 0 tight, 1 loose, 2 mixed
    let mut m = Map::new();
    let (mut ms, mut mg) = (0, 0);
    for (j, (name, a, cap)) in actual.iter().enumerate() {
        let v = if Some(j) == squeeze && *a > 0 { a - 1 } else {
            match (style, rng.gen_range(0..4)) {
                (0, _) | (2, 0) => *a,
                (2, 1) => a.saturating_add(1).min(*cap),
                (2, 2) => *cap,
                _ => a.saturating_mul(2).saturating_add(10).min(*cap),
            }
        };
        if *name == "maxSize" { ms = v; }
        if *name == "maxGasPerTx" { mg = v; }
        m.insert(name.to_string(), json!(v.to_string()));
    }
    m.insert("base".into(), json!("B"));
    m.insert("privileged".into(), json!("o0"));
    (Value::Object(m), ms, mg)
}

fn record(o: &Opts) -> Res<()> {
    let mut out = Out::open(&o.out)?;
    let thorough = o.thorough();
    let cparams_len = default_cparams_bytes().len();
    let gc = GasCosts::default();
    let fee = FeeParameters::DEFAULT;
    let n_rand: usize = o.opt("--n").and_then(|x| x.parse().ok()).unwrap_or(if thorough { 150_000 } else { 7_000 });
    let n_factory: usize = o.opt("--factory").and_then(|x| x.parse().ok()).unwrap_or(if thorough { 8_000 } else { 600 });
    let mut rng = o.rng(19);
    let mut seg = |out: &mut Out| { if out.n % 200 == 0 { out.ev(json!({"ev": "Seg"})); } };
    // ---- (a) random abstract transactions, 0..2 mutations, randomised limits and heights ----
    for c in 0..n_rand {
        let nm = Names { idmap: (c % 2) as u64 };
        let mut t = gen_valid(&mut rng, cparams_len);
        let nmut = match rng.gen_range(0..10) { 0..=3 => 0, 4..=7 => 1, _ => 2 };
        let mut tag = String::from("rand");
        for _ in 0..nmut { tag.push_str("+"); tag.push_str(&mutate(&mut rng, &mut t)); }
        let h: u32 = match rng.gen_range(0..6) { 0 => 0, 1 => u32::MAX, 2 => u32::MAX - 1, 3 => 1, _ => rng.gen_range(0..1_000_000) };
        resolve_placeholders(&mut t, h);
        // a deserializable parameters witness must keep its length; anything else becomes garbage
        if t["purpose"] == "ConsensusParameters" && b(&t, "deserOk") {
            let w = n(&t, "widx");
            if t["wlens"].get(w).and_then(|x| x.as_u64()) != Some(cparams_len as u64) { t["deserOk"] = json!(false); }
        }
        let tx = match catch(std::panic::AssertUnwindSafe(|| build_tx(&nm, &t))) {
            Ok(tx) => tx,
            Err(msg) => return Err(format!("cannot build generated case: {msg}\n{t}").into()),
        };
        let (size, max_gas) = measure(&tx, &gc, &fee);
        let (p, ms, mg) = random_params(&mut rng, &t, size, max_gas);
        let cp = build_params(&nm, &p, ms, mg);
        let hh = BlockHeight::new(h);
        let ob = observe(&tx, &cp, hh);
        seg(&mut out);
        out.ev(event(&nm, &tag, &tx, &cp, hh, &ob));
    }
    // ---- (b) factory transactions (fuel_tx::test_helper::TransactionFactory) and repairs of them ----
    use fuel_tx::test_helper::TransactionFactory;
    let nm = Names { idmap: 0 };
    let fseed = rng.gen::<u64>();
    let mut f_script = TransactionFactory::<_, fuel_tx::Script>::from_seed(fseed);
    let mut f_create = TransactionFactory::<_, fuel_tx::Create>::from_seed(fseed ^ 1);
    let mut f_upgrade = TransactionFactory::<_, fuel_tx::Upgrade>::from_seed(fseed ^ 2);
    let mut f_mint = TransactionFactory::<_, fuel_tx::Mint>::from_seed(fseed ^ 5);
    let mut f_upload = TransactionFactory::<_, fuel_tx::Upload>::from_seed(fseed ^ 3);
    let mut f_blob = TransactionFactory::<_, fuel_tx::Blob>::from_seed(fseed ^ 4);
    for c in 0..n_factory {
        let mut tx: Transaction = if c % 32 == 15 { f_upload.transaction().into() } else if c % 32 == 31 { f_blob.transaction().into() } else { match c % 8 {
            0 | 1 | 2 => f_script.transaction().into(),
            3 | 4 => f_create.transaction().into(),
            5 | 6 => f_upgrade.transaction().into(),
            _ => f_mint.transaction().into(),
        } };
        let mut tag = String::from("factory");
        // seeded repairs towards validity: the factory's outputs and policies are random
        let repair = rng.gen_range(0..4);
        if repair >= 1 {
            tag.push_str("+fee0");
            match &mut tx {
                Transaction::Script(t) => { t.policies_mut().set(PolicyType::MaxFee, Some(0)); t.policies_mut().set(PolicyType::Maturity, None); t.policies_mut().set(PolicyType::Expiration, None); t.policies_mut().set(PolicyType::Owner, None); t.policies_mut().set(PolicyType::WitnessLimit, None); }
                Transaction::Create(t) => { t.policies_mut().set(PolicyType::MaxFee, Some(0)); t.policies_mut().set(PolicyType::Maturity, None); t.policies_mut().set(PolicyType::Expiration, None); t.policies_mut().set(PolicyType::Owner, None); t.policies_mut().set(PolicyType::WitnessLimit, None); }
                Transaction::Upgrade(t) => { t.policies_mut().set(PolicyType::MaxFee, Some(0)); t.policies_mut().set(PolicyType::Maturity, None); t.policies_mut().set(PolicyType::Expiration, None); t.policies_mut().set(PolicyType::Owner, None); t.policies_mut().set(PolicyType::WitnessLimit, None); }
                _ => {}
            }
        }
        if repair >= 2 {
            tag.push_str("+outputs");
            let fix = |inputs: &Vec<Input>, outputs: &mut Vec<Output>, keep_created: bool| {
                outputs.retain(|o| matches!(o, Output::ContractCreated { .. }) && keep_created);
                for (j, i) in inputs.iter().enumerate() {
                    if matches!(i, Input::Contract(_)) { outputs.push(Output::contract(j as u16, Bytes32::zeroed(), Bytes32::zeroed())); }
                }
            };
            match &mut tx {
                Transaction::Script(t) => { let i = t.inputs().clone(); fix(&i, t.outputs_mut(), false); }
                Transaction::Create(t) => { let i = t.inputs().clone(); fix(&i, t.outputs_mut(), true); }
                Transaction::Upgrade(t) => { let i = t.inputs().clone(); fix(&i, t.outputs_mut(), false); }
                _ => {}
            }
        }
        if repair >= 3 {
            tag.push_str("+inputs");
            let keep = |i: &Input| matches!(i, Input::CoinSigned(_) | Input::CoinPredicate(_) | Input::MessageCoinSigned(_) | Input::MessageCoinPredicate(_));
            match &mut tx {
                Transaction::Create(t) => { t.inputs_mut().retain(keep); t.outputs_mut().retain(|o| !matches!(o, Output::Contract(_))); }
                Transaction::Upgrade(t) => { t.inputs_mut().retain(keep); t.outputs_mut().retain(|o| !matches!(o, Output::Contract(_))); }
                _ => {}
            }
        }
        let (size, max_gas) = measure(&tx, &gc, &fee);
        // limits: standard ones, with the size / gas / count limits drawn around the actual values
        let std = ConsensusParameters::standard();
        let around = |rng: &mut StdRng, a: u64, cap: u64| match rng.gen_range(0..5) { 0 => a, 1 => a.saturating_sub(1), 2 => a.saturating_add(1).min(cap), _ => cap };
        let (ni, no, nw) = match &tx {
            Transaction::Script(t) => (t.inputs().len(), t.outputs().len(), t.witnesses().len()),
            Transaction::Create(t) => (t.inputs().len(), t.outputs().len(), t.witnesses().len()),
            Transaction::Upgrade(t) => (t.inputs().len(), t.outputs().len(), t.witnesses().len()),
            _ => (0, 0, 0),
        };
        let txp = TxParameters::DEFAULT
            .with_max_inputs(around(&mut rng, ni as u64, 255) as u16)
            .with_max_outputs(around(&mut rng, no as u64, 255) as u16)
            .with_max_witnesses(around(&mut rng, nw as u64, 255) as u32)
            .with_max_gas_per_tx(around(&mut rng, max_gas, u64::MAX))
            .with_max_size(around(&mut rng, size, 110 * 1024 * 1024));
        // the base asset / privileged owner are sometimes taken from the transaction itself
        let mut base = *std.base_asset_id();
        let mut privileged = *std.privileged_address();
        let ins: Vec<Input> = match &tx { Transaction::Script(t) => t.inputs().clone(), Transaction::Create(t) => t.inputs().clone(), Transaction::Upgrade(t) => t.inputs().clone(), _ => vec![] };
        if rng.gen_bool(0.5) {
            if let Some(a) = ins.iter().find_map(|i| match i { Input::CoinSigned(c) => Some(c.asset_id), Input::CoinPredicate(c) => Some(c.asset_id), _ => None }) { base = a; }
        }
        if rng.gen_bool(0.7) {
            if let Some(a) = ins.iter().find_map(|i| i.input_owner().copied()) { privileged = a; }
        }
        if let Transaction::Mint(m) = &tx { if rng.gen_bool(0.6) { base = *m.mint_asset_id(); } }
        let cp = ConsensusParameters::new(txp, *std.predicate_params(), *std.script_params(), *std.contract_params(), *std.fee_params(),
                                          std.chain_id(), std.gas_costs().clone(), base, u64::MAX, u64::MAX, privileged);
        let h = match (&tx, rng.gen_range(0..3)) {
            (Transaction::Mint(m), 0 | 1) => m.tx_pointer().block_height(),
            _ => BlockHeight::new(rng.gen()),
        };
        if let (Transaction::Mint(m), true) = (&mut tx, rng.gen_bool(0.5)) { m.output_contract_mut().input_index = 0; }
        let ob = observe(&tx, &cp, h);
        seg(&mut out);
        out.ev(event(&nm, &tag, &tx, &cp, h, &ob));
    }
    out.finish();
    Ok(())
}

fn main() {
    if std::env::var("VH_PANIC_TRACE").is_err() { std::panic::set_hook(Box::new(|_| {})); }
    let args: Vec<String> = std::env::args().collect();
    if args.len() >= 2 && args[1] == "info" {
        println!("{}", json!({"cparams_len": default_cparams_bytes().len()}));
        return;
    }
    if args.len() < 3 {
        eprintln!("usage: vh_validity info | record validity ... | replay validity <cases> ...");
        exit(64);
    }
    let opts = Opts::parse(&args[3..]);
    let r = match (args[1].as_str(), args[2].as_str()) {
        ("record", "validity") => record(&opts),
        ("replay", "validity") => replay(&opts),
        _ => { eprintln!("unknown mode"); exit(64); }
    };
    if let Err(e) = r {
        eprintln!("vh_validity error: {e}");
        exit(3);
    }
}
