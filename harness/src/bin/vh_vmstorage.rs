//! vh_vmstorage — recorder for the contract-storage instructions (C33).
//!   vh_vmstorage record vmstorage [--tier T] [--part twin,gas,ext,small] -o trace.ndjson
//!
//! A world = two deployed contracts A, B (code: `RET $one`), a forwarding contract C (calls the contract named by its
//! parameters), pre-filled contract storage, and two script transactions executed one after the other by the SAME
//! interpreter on the SAME storage.  A script CALLs the contracts one after the other through the real run loop
//! (mode "run", single-stepped); at the first instruction of every callee the harness switches to mode "exec" and
//! executes a generated sequence of storage instructions through `Interpreter::instruction` with preset registers, then
//! lets the run loop continue (the callee returns).  After every step the persistent storage is dumped and the
//! difference to the previous dump is logged (`std`).  A panic ends the transaction (the host discards its changes).
//!
//! Every world of part "twin" is executed three times from the same seed with the same instruction sequences:
//! slot cache cold, pre-warmed (SPLD of every key of the key table at the start of each callee) and emptied before
//! every instruction.  The per-step results of the three executions are logged side by side in `Twin` events.
//!
//! The harness is dumb: it chooses inputs (it may look at the current storage to aim offsets at the ends of values),
//! executes, snapshots and logs.  It contains no expected results.
#[path = "../util.rs"]
mod util;
#[path = "../vmcore.rs"]
mod vmcore;

use fuel_asm::{op, GTFArgs, Instruction, RegId};
use fuel_tx::{field::ScriptData as _, ConsensusParameters, GasCosts, Receipt, Script, ScriptParameters};
use fuel_types::{canonical::Serialize as _, Bytes32, ContractId};
use fuel_vm::{
    call::Call,
    checked_transaction::Checked,
    interpreter::MemoryInstance,
    prelude::*,
    state::ProgramState,
    storage::{ContractsRawCode, MemoryStorage},
    util::test_helpers::TestBuilder,
};
use rand::{rngs::StdRng, Rng};
use serde_json::{json, Map, Value};
use std::collections::BTreeMap;
use std::process::exit;
use util::*;
use vmcore::*;

type Dump = BTreeMap<(ContractId, Bytes32), Vec<u8>>;

const RPC: usize = 3;
const RSSP: usize = 4;
const RSP: usize = 5;
const RFP: usize = 6;
const RHP: usize = 7;
const RERR: usize = 8;
const RGGAS: usize = 9;
const RCGAS: usize = 10;

// operand registers used by the generated instructions
const KEY: u8 = 0x10;
const STAT: u8 = 0x11;
const A2: u8 = 0x12;
const A3: u8 = 0x13;
const A4: u8 = 0x14;
const DST: u8 = 0x15;
const SCR: u8 = 0x1f;

const NK: usize = 14; // keys in the key table
const NV: usize = 1400; // bytes of value material after the key table
const BUF: u64 = 4096; // callee stack buffer

fn enc_rrrr(op: u8, a: u8, b: u8, c: u8, d: u8) -> u32 { ((op as u32) << 24) | ((a as u32) << 18) | ((b as u32) << 12) | ((c as u32) << 6) | d as u32 }
fn enc_rri(op: u8, a: u8, b: u8, imm: u16) -> u32 { ((op as u32) << 24) | ((a as u32) << 18) | ((b as u32) << 12) | (imm as u32 & 0xfff) }
fn enc_i24(op: u8, imm: u32) -> u32 { ((op as u32) << 24) | (imm & 0xffffff) }

fn dump(st: &MemoryStorage) -> Dump {
    st.all_contract_state().map(|(k, v)| ((*k.contract_id(), *k.state_key()), AsRef::<[u8]>::as_ref(v).to_vec())).collect()
}
fn dump_json(d: &Dump) -> Value { Value::Array(d.iter().map(|((c, k), v)| json!([hx(c), hx(k), hx(v)])).collect()) }
fn delta_json(a: &Dump, b: &Dump) -> Value {
    let mut out = vec![];
    for (k, v) in b { if a.get(k) != Some(v) { out.push(json!([hx(k.0), hx(k.1), 1, hx(v)])); } }
    for k in a.keys() { if !b.contains_key(k) { out.push(json!([hx(k.0), hx(k.1), 0, ""])); } }
    Value::Array(out)
}
fn merge(mut a: Value, b: Value) -> Value {
    for (k, v) in b.as_object().unwrap() { a[k] = v.clone(); }
    a
}

fn contracts_json(st: &MemoryStorage, ids: &[ContractId]) -> Value {
    use fuel_storage::StorageAsRef;
    let mut o = Map::new();
    for id in ids {
        let code: Vec<u8> = st.storage::<ContractsRawCode>().get(id).ok().flatten().map(|c| c.as_ref().as_ref().to_vec()).unwrap_or_default();
        o.insert(hx(id), json!({"code": hx(&code), "bal": {}}));
    }
    Value::Object(o)
}

/// one generated instruction: register presets + raw word
#[derive(Clone)]
struct PStep { sets: Vec<(usize, u64)>, raw: u32 }

#[derive(Clone, Copy, PartialEq)]
enum Variant { Cold, Warm, Flush }

struct Cfg {
    thorough: bool,
    steps_per_session: usize,
    risky: f64,       // probability that a step is aimed at a panic boundary
    low_gas: bool,    // forward little gas / poke $cgas down
    max_len: u64,     // max_storage_slot_length
    gas: Option<GasCosts>,
}

struct WorldSt {
    tb: TestBuilder,
    a: ContractId,
    b: ContractId,
    c: ContractId,
    d: ContractId,
    keys: Vec<[u8; 32]>,
    vals: Vec<u8>,
    w: World,
}

fn key_table(rng: &mut StdRng) -> Vec<[u8; 32]> {
    let mut ks: Vec<[u8; 32]> = vec![];
    let mut num = |hi: [u8; 24], lo: u64| { let mut k = [0u8; 32]; k[..24].copy_from_slice(&hi); k[24..].copy_from_slice(&lo.to_be_bytes()); k };
    for i in 0..4u64 { ks.push(num([0u8; 24], i)); }                                   // 0, 1, 2, 3
    for i in 0..3u64 { ks.push(num([0xffu8; 24], u64::MAX - 2 + i)); }                 // 2^256-3 .. 2^256-1
    let mut hi = [0u8; 24]; rng.fill(&mut hi[..]);
    let lo: u64 = rng.gen_range(0..u64::MAX - 8);
    for i in 0..3u64 { ks.push(num(hi, lo + i)); }                                     // r, r+1, r+2
    ks.push(num([0u8; 24], u64::MAX));                                                  // 2^64-1 (carry into the next limb)
    ks.push(num([0u8; 24], u64::MAX - 1));
    let mut h2 = [0u8; 24]; h2[0] = 0x80; ks.push(num(h2, 0));                         // 2^255
    let mut k = [0u8; 32]; rng.fill(&mut k[..]); ks.push(k);                           // random
    assert_eq!(ks.len(), NK);
    ks
}

fn build_world(seed: u64, cfg: &Cfg) -> WorldSt {
    let mut rng = <StdRng as rand::SeedableRng>::seed_from_u64(seed ^ 0x5707a6e);
    let mut tb = TestBuilder::new(seed);
    let mut params = ConsensusParameters::standard();
    if let Some(g) = &cfg.gas { tb.with_gas_costs(g.clone()); params.set_gas_costs(g.clone()); }
    params.set_script_params(ScriptParameters::DEFAULT.with_max_storage_slot_length(cfg.max_len));
    let a = tb.setup_contract(vec![op::ret(RegId::ONE)], None, None).contract_id;
    let b = tb.setup_contract(vec![op::ret(RegId::ONE), op::noop()], None, None).contract_id;
    // C forwards: calls the contract whose Call structure its parameter a points at (asset id pointer in parameter b)
    let c = tb.setup_contract(vec![
        op::lw(0x18, RegId::FP, 73), op::lw(0x19, RegId::FP, 74), op::call(0x18, RegId::ZERO, 0x19, RegId::CGAS), op::ret(RegId::ONE),
    ], None, None).contract_id;
    // D: real contract code made of storage instructions; parameter a = address of three adjacent keys, parameter b =
    // address of value material.  Executed instruction by instruction like every other code (no injected sequence).
    let d = tb.setup_contract(vec![
        op::lw(0x10, RegId::FP, 73), op::lw(0x12, RegId::FP, 74), op::cfei(256), op::move_(0x13, RegId::SSP),
        op::sww(0x10, 0x11, 0x12), op::srw(0x15, 0x11, 0x10, 0), op::srw(0x15, 0x11, 0x10, 3),
        op::swri(0x10, 0x12, 40), op::srdi(0x13, 0x10, RegId::ZERO, 40), op::spld(0x15, 0x10),
        op::addi(0x14, 0x10, 32), op::movi(0x16, 2),
        op::swwq(0x14, 0x11, 0x12, 0x16), op::srwq(0x13, 0x11, 0x14, 0x16),
        op::not(0x17, RegId::ZERO), op::supi(0x14, 0x12, 0x17, 8), op::spld(0x15, 0x14),
        op::movi(0x18, 36), op::movi(0x19, 4), op::srdd(0x13, 0x14, 0x18, 0x19),
        op::movi(0x18, 4), op::supd(0x14, 0x12, 0x18, 0x19), op::swrd(0x10, 0x13, 0x19),
        op::scwq(0x10, 0x11, 0x16), op::spld(0x15, 0x10), op::sclr(0x14, 0x16), op::scwq(0x10, 0x11, 0x16),
        op::srdi(0x13, 0x14, RegId::ZERO, 1),
        op::ret(RegId::ONE),
    ], None, None).contract_id;
    let keys = key_table(&mut rng);
    let mut vals = vec![0u8; NV];
    rng.fill(&mut vals[..]);
    let mut storage = tb.get_storage().clone();
    // initial contents: values of assorted lengths (legacy 32-byte slots and dynamic ones) under some keys of the table
    for cid in [a, b, c, d] {
        for k in &keys {
            if rng.gen_bool(0.45) {
                let len = if rng.gen_bool(0.5) { 32 } else { [0usize, 1, 7, 8, 16, 31, 33, 40, 64, 100][rng.gen_range(0..10)] };
                let len = len.min(cfg.max_len as usize);
                let v: Vec<u8> = (0..len).map(|_| rng.gen::<u8>()).collect::<Vec<u8>>();
                storage.contract_state_insert(&cid, &Bytes32::new(*k), &v).expect("insert");
            }
        }
    }
    storage.commit();
    let w = World { params, gas_price: 0, storage, block_height: u32::from(tb.get_block_height()) };
    WorldSt { tb, a, b, c, d, keys, vals, w }
}

/// the calls of one transaction: (contract entered first, contract it forwards to)
#[derive(Clone)]
struct CallPlan { outer: ContractId, inner: Option<ContractId>, fwd: Option<u32>, key_index: usize }

struct Tx { checked: Checked<Script>, data_addr: u64, keys_off: usize }

fn build_tx(ws: &mut WorldSt, calls: &[CallPlan], gas_limit: u64, tx_offset: u64) -> Tx {
    let n = calls.len();
    // script data: call structures (outer calls first, then the structures the forwarding contract uses), zero asset id, key table, values
    let inner: Vec<&CallPlan> = calls.iter().filter(|c| c.inner.is_some()).collect();
    let asset_off = 48 * (n + inner.len());
    let keys_off = asset_off + 32;
    let (keys_c, vals_c) = (ws.keys.clone(), ws.vals.clone());
    let make = |data_addr: u64| -> Vec<u8> {
        let mut d = vec![];
        let mut ii = 0usize;
        for c in calls {
            match c.inner {
                Some(_) => { d.extend(Call::new(c.outer, data_addr + 48 * (n + ii) as u64, data_addr + asset_off as u64).to_bytes()); ii += 1; }
                // (contract D reads its parameters: address of its three keys, address of the value material)
                None => d.extend(Call::new(c.outer, data_addr + (keys_off + 32 * c.key_index) as u64, data_addr + (keys_off + 32 * NK + 64) as u64).to_bytes()),
            }
        }
        for c in &inner { d.extend(Call::new(c.inner.unwrap(), 0, 0).to_bytes()); }
        d.extend([0u8; 32]);
        for k in &keys_c { d.extend(k); }
        d.extend(&vals_c);
        d
    };
    let mut sc: Vec<Instruction> = vec![op::gtf_args(0x20, RegId::ZERO, GTFArgs::ScriptData), op::addi(0x22, 0x20, asset_off as u16)];
    for (j, c) in calls.iter().enumerate() {
        sc.push(op::addi(0x21, 0x20, (48 * j) as u16));
        match c.fwd {
            Some(g) => { sc.push(op::movi(0x23, g)); sc.push(op::call(0x21, RegId::ZERO, 0x22, 0x23)); }
            None => sc.push(op::call(0x21, RegId::ZERO, 0x22, RegId::CGAS)),
        }
    }
    sc.push(op::ret(RegId::ONE));
    let mut build = |data: Vec<u8>, ws: &mut WorldSt| -> Checked<Script> {
        let (a, b, c, d) = (ws.a, ws.b, ws.c, ws.d);
        ws.tb.start_script(sc.clone(), data).gas_price(0).script_gas_limit(gas_limit)
            .contract_input(a).contract_input(b).contract_input(c).contract_input(d).fee_input()
            .contract_output(&a).contract_output(&b).contract_output(&c).contract_output(&d);
        ws.tb.build()
    };
    // the data address depends only on the lengths: build once with a dummy address to learn it
    let probe = build(make(0), ws);
    let data_addr = tx_offset + probe.transaction().script_data_offset() as u64;
    let checked = build(make(data_addr), ws);
    Tx { checked, data_addr, keys_off }
}

struct Sess<'a> {
    cid: ContractId,
    keys_addr: u64,
    vals_addr: u64,
    buf: u64,       // start of the callee's stack buffer
    heap: u64,      // start of a heap buffer (0 = none)
    keys: &'a [[u8; 32]],
    max_len: u64,
}

fn slot_len(d: &Dump, cid: &ContractId, k: &[u8; 32]) -> Option<usize> { d.get(&(*cid, Bytes32::new(*k))).map(|v| v.len()) }
/// key + i as a 256-bit big-endian number (None past 2^256 - 1) — used only to look at the neighbours of a key
fn key_add(k: &[u8; 32], i: u64) -> Option<[u8; 32]> {
    let mut out = *k;
    let mut carry = i as u128;
    for b in (0..4).rev() {
        let limb = u64::from_be_bytes(out[8 * b..8 * b + 8].try_into().unwrap()) as u128 + carry;
        out[8 * b..8 * b + 8].copy_from_slice(&(limb as u64).to_be_bytes());
        carry = limb >> 64;
    }
    if carry != 0 { None } else { Some(out) }
}

/// choose the next storage instruction (boundary-biased; `risky` steps aim at the panic conditions)
fn gen_step(rng: &mut StdRng, s: &Sess, cur: &Dump, cfg: &Cfg) -> PStep {
    let risky = rng.gen_bool(cfg.risky);
    let ki = rng.gen_range(0..NK);
    let key_ptr = if risky && rng.gen_range(0..12) == 0 { [MEM - 16, u64::MAX - 10, MEM / 2, MEM][rng.gen_range(0..4)] } else { s.keys_addr + 32 * ki as u64 };
    let len_here = slot_len(cur, &s.cid, &s.keys[ki]);
    let l = len_here.unwrap_or(0) as u64;
    let stat: u8 = if risky && rng.gen_range(0..14) == 0 { [0u8, 1, 3, 8, 15][rng.gen_range(0..5)] } else { STAT };
    let dst_buf = |rng: &mut StdRng| if s.heap != 0 && rng.gen_bool(0.3) { s.heap + rng.gen_range(0..8) * 8 } else { s.buf + rng.gen_range(0..64) * 8 };
    let src_buf = |rng: &mut StdRng| match rng.gen_range(0..3) { 0 => s.buf + rng.gen_range(0..32) * 8, _ => s.vals_addr + rng.gen_range(0..(NV as u64 - 400)) };
    let bad_ptr = |rng: &mut StdRng| [0u64, s.buf + BUF - 8, s.buf + BUF, MEM - 8, u64::MAX - 3, s.buf - 8][rng.gen_range(0..6)];
    // sources must not reach into call frames (they hold saved gas registers, which legitimately differ between cache variants)
    let bad_src = |rng: &mut StdRng| [MEM - 8, u64::MAX - 3, MEM / 2, 1u64 << 40, MEM - 40][rng.gen_range(0..5)];
    let count = |rng: &mut StdRng| -> u64 {
        if risky { [0u64, 1, 2, 3, 4, 5, 9][rng.gen_range(0..7)] }
        else {
            // stay inside the key space: keys 4..6 are 2^256-3 .. 2^256-1
            let left = if (4..7).contains(&ki) { 7 - ki as u64 } else { 4 };
            [0u64, 1, 1, 2, 2, 3, 4][rng.gen_range(0..7)].min(left)
        }
    };
    let mut sets: Vec<(usize, u64)> = vec![(KEY as usize, key_ptr)];
    let raw = match rng.gen_range(0..26) {
        0 | 1 => { sets.push((A2 as usize, count(rng))); enc_rrrr(0x37, KEY, stat, A2, 0) }                                 // SCWQ
        2 | 3 => {                                                                                                           // SRW
            let words = l / 8;
            let imm = if risky { [0u64, words, words + 1, 63][rng.gen_range(0..4)].min(63) } else if words > 0 { rng.gen_range(0..words).min(63) } else { 0 };
            let dst = if risky && rng.gen_range(0..10) == 0 { [stat, 0, 5][rng.gen_range(0..3)] } else { DST };
            if !risky && len_here.map(|x| x < 8).unwrap_or(false) { sets.push((A2 as usize, 0)); enc_rrrr(0xc7, DST, KEY, 0, 0) & 0xfffff000 }   // too short for a word: SPLD instead
            else { enc_rrrr(0x38, dst, stat, KEY, imm as u8) }
        }
        4 | 5 => {                                                                                                           // SRWQ
            let mut n = count(rng);
            if !risky {   // only ranges whose present slots are all 32 bytes long can be read this way
                while n > 0 && (0..n).any(|i| key_add(&s.keys[ki], i).and_then(|q| slot_len(cur, &s.cid, &q)).map(|l| l != 32).unwrap_or(false)) { n -= 1; }
            }
            sets.push((A2 as usize, if risky && rng.gen_range(0..5) == 0 { bad_ptr(rng) } else { dst_buf(rng) }));
            sets.push((A3 as usize, n));
            enc_rrrr(0x39, A2, stat, KEY, A3)
        }
        6 | 7 => { sets.push((A2 as usize, if rng.gen_bool(0.3) { [0u64, 1, u64::MAX][rng.gen_range(0..3)] } else { rng.gen() })); enc_rrrr(0x3a, KEY, stat, A2, 0) }   // SWW
        8 | 9 => {                                                                                                           // SWWQ
            sets.push((A2 as usize, if risky && rng.gen_range(0..5) == 0 { bad_src(rng) } else { src_buf(rng) }));
            sets.push((A3 as usize, count(rng)));
            enc_rrrr(0x3b, KEY, stat, A2, A3)
        }
        10 | 11 => { sets.push((A2 as usize, count(rng))); enc_rrrr(0xc0, KEY, A2, 0, 0) }                                  // SCLR
        12 | 13 | 14 | 15 => {                                                                                              // SRDD / SRDI
            let off = if risky { [0u64, l, l + 1, l / 2, u64::MAX, 1 << 40][rng.gen_range(0..6)] } else { [0u64, l / 2, l, l.saturating_sub(1)][rng.gen_range(0..4)].min(l) };
            let room = l.saturating_sub(off.min(l));
            let len = if risky { [0u64, room, room + 1, 1, 63, 64, 5000, MEM, u64::MAX][rng.gen_range(0..9)] } else { [0u64, room, room / 2, 1u64.min(room), 8u64.min(room)][rng.gen_range(0..5)] };
            sets.push((A2 as usize, if risky && rng.gen_range(0..5) == 0 { bad_ptr(rng) } else { dst_buf(rng) }));
            sets.push((A3 as usize, off));
            if rng.gen_bool(0.4) { enc_rrrr(0xc2, A2, KEY, A3, len.min(63) as u8) } else { sets.push((A4 as usize, len)); enc_rrrr(0xc1, A2, KEY, A3, A4) }
        }
        16 | 17 | 18 => {                                                                                                   // SWRD / SWRI
            let m = s.max_len;
            let len = if risky { [0u64, m, m + 1, 400, 1399, 1 << 33, u64::MAX][rng.gen_range(0..7)] } else { [0u64, 1, 7, 8, 31, 32, 32, 33, 64, 100, 255, 300][rng.gen_range(0..12)].min(m) };
            sets.push((A2 as usize, if risky && rng.gen_range(0..5) == 0 { bad_src(rng) } else if len > 300 { s.vals_addr } else { src_buf(rng) }));
            if rng.gen_bool(0.4) { enc_rri(0xc4, KEY, A2, len.min(1399) as u16) } else { sets.push((A3 as usize, len)); enc_rrrr(0xc3, KEY, A2, A3, 0) }
        }
        19 | 20 | 21 | 22 => {                                                                                              // SUPD / SUPI
            let m = s.max_len;
            let off = if risky { [0u64, l, l + 1, u64::MAX, u64::MAX - 1, l / 2][rng.gen_range(0..6)] } else { [0u64, l / 2, l, u64::MAX, l.saturating_sub(1)][rng.gen_range(0..5)] };
            let base = if off == u64::MAX { l } else { off.min(l) };
            let room = m.saturating_sub(base);
            let len = if risky { [0u64, room, room + 1, 63, 1 << 33][rng.gen_range(0..5)] } else { [0u64, 1, 8, 32, 63, 100][rng.gen_range(0..6)].min(room) };
            sets.push((A2 as usize, if risky && rng.gen_range(0..5) == 0 { bad_src(rng) } else if len > 300 { s.vals_addr } else { src_buf(rng) }));
            sets.push((A3 as usize, off));
            if rng.gen_bool(0.4) { enc_rrrr(0xc6, KEY, A2, A3, len.min(63) as u8) } else { sets.push((A4 as usize, len)); enc_rrrr(0xc5, KEY, A2, A3, A4) }
        }
        _ => {                                                                                                              // SPLD
            let dst = if risky && rng.gen_range(0..6) == 0 { [0u8, 0, 4, 15][rng.gen_range(0..4)] } else { DST };
            enc_rrrr(0xc7, dst, KEY, 0, 0) & 0xfffff000
        }
    };
    PStep { sets, raw }
}

/// deterministic boundary grid (part "edge"): items are resolved against the CURRENT length L of the slot when they are executed
#[derive(Clone, Debug)]
enum Edge {
    Range(u8, usize, u64),          // opcode (SCWQ SRWQ SWWQ SCLR), key index, count
    Srd(bool, usize, i64, i64),     // immediate form?, key index, offset - L, (offset + len) - L
    Srw(usize, i64),                // key index, word index - L / 8
    Sup(bool, usize, i64, i64),     // immediate form?, key index, offset - L (i64::MAX = the append marker 2^64-1), (offset + len) - max
    Swr(bool, usize, i64),          // immediate form?, key index, len - max
    Own(usize, u64),                // SRWQ of `count` slots from key index into the LAST 32 owned bytes of the stack buffer: only the first slot's destination is owned
}
thread_local! { static EDGE_QUEUE: std::cell::RefCell<std::collections::VecDeque<Edge>> = std::cell::RefCell::new(Default::default()); }

fn edge_grid() -> Vec<Edge> {
    let mut v = vec![];
    for op in [0xc0u8, 0x37, 0x3b, 0x39] { for ki in [6usize, 5, 4] { for count in 0..=4u64 { v.push(Edge::Range(op, ki, count)); } } }
    for ki in [0usize, 4] { for count in [1u64, 2, 3] { v.push(Edge::Own(ki, count)); } }
    // (every read item is preceded by a write that makes the slot present with a known length: 40, 64, 1 or 0 bytes —
    //  a panicking read reverts its transaction and with it the write)
    for (ki, l0) in [(0usize, 40i64), (1, 1), (3, 0)] {
        for doff in [-1000i64, -1, 0, 1] { for dend in [-1i64, 0, 1, 2] {
            v.push(Edge::Swr(false, ki, l0 - 64)); v.push(Edge::Srd((doff + dend) % 2 != 0, ki, doff, dend));
        } }
        for dw in [-1i64, 0, 1] { v.push(Edge::Swr(false, ki, l0 - 64)); v.push(Edge::Srw(ki, dw)); }
    }
    for ki in [2usize, 8] {
        for doff in [-1i64, 0, 1, i64::MAX] { for dend in [-1i64, 0, 1] { v.push(Edge::Sup(false, ki, doff, dend)); v.push(Edge::Sup(true, ki, doff, dend)); } }
        for dl in [-1i64, 0, 1] { v.push(Edge::Swr(false, ki, dl)); v.push(Edge::Swr(true, ki, dl)); }
    }
    v
}

fn resolve_edge(e: &Edge, s: &Sess, cur: &Dump) -> PStep {
    let lof = |ki: usize| slot_len(cur, &s.cid, &s.keys[ki]).unwrap_or(0) as i64;
    let kp = |ki: usize| (KEY as usize, s.keys_addr + 32 * ki as u64);
    let nn = |x: i64| x.max(0) as u64;
    match *e {
        Edge::Range(op, ki, count) => match op {
            0xc0 => PStep { sets: vec![kp(ki), (A2 as usize, count)], raw: enc_rrrr(0xc0, KEY, A2, 0, 0) },
            0x37 => PStep { sets: vec![kp(ki), (A2 as usize, count)], raw: enc_rrrr(0x37, KEY, STAT, A2, 0) },
            0x3b => PStep { sets: vec![kp(ki), (A2 as usize, s.vals_addr + 100), (A3 as usize, count)], raw: enc_rrrr(0x3b, KEY, STAT, A2, A3) },
            _ => PStep { sets: vec![kp(ki), (A2 as usize, s.buf + 512), (A3 as usize, count)], raw: enc_rrrr(0x39, A2, STAT, KEY, A3) },
        },
        Edge::Own(ki, count) => PStep { sets: vec![kp(ki), (A2 as usize, s.buf + BUF - 32), (A3 as usize, count)], raw: enc_rrrr(0x39, A2, STAT, KEY, A3) },
        Edge::Srd(imm, ki, doff, dend) => {
            let l = lof(ki);
            let off = if doff <= -1000 { 0 } else { nn(l + doff) };
            let len = nn(l + dend - off as i64);
            let mut sets = vec![kp(ki), (A2 as usize, s.buf + 1024), (A3 as usize, off)];
            if imm { PStep { sets, raw: enc_rrrr(0xc2, A2, KEY, A3, len.min(63) as u8) } } else { sets.push((A4 as usize, len)); PStep { sets, raw: enc_rrrr(0xc1, A2, KEY, A3, A4) } }
        }
        Edge::Srw(ki, dw) => PStep { sets: vec![kp(ki)], raw: enc_rrrr(0x38, DST, STAT, KEY, nn(lof(ki) / 8 + dw).min(63) as u8) },
        Edge::Sup(imm, ki, doff, dend) => {
            let l = lof(ki);
            let (off, base) = if doff == i64::MAX { (u64::MAX, l) } else { (nn(l + doff), nn(l + doff) as i64) };
            let len = nn(s.max_len as i64 + dend - base);
            let mut sets = vec![kp(ki), (A2 as usize, s.vals_addr), (A3 as usize, off)];
            if imm { PStep { sets, raw: enc_rrrr(0xc6, KEY, A2, A3, len.min(63) as u8) } } else { sets.push((A4 as usize, len)); PStep { sets, raw: enc_rrrr(0xc5, KEY, A2, A3, A4) } }
        }
        Edge::Swr(imm, ki, dl) => {
            let len = nn(s.max_len as i64 + dl);
            let mut sets = vec![kp(ki), (A2 as usize, s.vals_addr + 8)];
            if imm { PStep { sets, raw: enc_rri(0xc4, KEY, A2, len.min(4095) as u16) } } else { sets.push((A3 as usize, len)); PStep { sets, raw: enc_rrrr(0xc3, KEY, A2, A3, 0) } }
        }
    }
}

/// per-step result summary used for the cold / warm / flush comparison (everything but the gas registers)
fn summary(ev: &Value, post_regs: &[u64; 64]) -> Value {
    // every register the callee's instructions can touch ($zero..$flag and 0x10..0x1f), the two gas registers blanked
    let regs: Vec<Value> = (0..32).map(|i| if i == RGGAS || i == RCGAS { json!("-") } else { json!(post_regs[i].to_string()) }).collect();
    json!({"word": ev["word"], "out": ev["out"], "reason": ev.get("reason").cloned().unwrap_or(json!("-")), "regs": regs, "mem": ev["mem"], "std": ev["std"]})
}

struct Rec<'a> {
    out: &'a mut Out,
    run: u64,
    i: u64,
    last: Dump,
    results: Vec<Value>,
}

/// mode "exec" with storage observation: returns true iff the instruction proceeded
fn st_exec(r: &mut Rec, vm: &mut Vm<MemoryStorage>, st: &PStep, flush: bool, keep: bool) -> bool {
    if flush {
        vm.bench_storage_slot_cache_mut().clear();
        r.out.ev(json!({"ev": "StCold", "run": r.run}));
    }
    let mut po = Map::new();
    for (i, v) in &st.sets { vm.registers_mut()[*i] = *v; po.insert(i.to_string(), Value::String(v.to_string())); }
    let pre = snap(vm);
    let res = catch(std::panic::AssertUnwindSafe(|| vm.instruction::<u32, false>(st.raw)));
    r.i += 1;
    match res {
        Ok(res) => {
            let post = snap(vm);
            let rc: Vec<Receipt> = vm.receipts().to_vec();
            let now = dump(vm.as_ref());
            let mut ev = merge(step_event(r.run, r.i, "exec", &pre, &post, Some(st.raw), &rc), out_of_execute(&res));
            ev["poke"] = Value::Object(po);
            ev["std"] = delta_json(&r.last, &now);
            r.last = now;
            if keep { r.results.push(summary(&ev, &post.regs)); }
            LAST_OUT.with(|c| *c.borrow_mut() = ev["out"].as_str().unwrap_or("?").to_string());
            r.out.ev(ev);
            matches!(res, Ok(fuel_vm::state::ExecuteState::Proceed))
        }
        Err(m) => {
            LAST_OUT.with(|c| *c.borrow_mut() = "hostpanic".to_string());
            r.out.ev(json!({"ev": "HostPanic", "run": r.run, "where": "instruction", "i": r.i, "msg": m, "word": format!("{:08x}", st.raw)}));
            false
        }
    }
}

/// run one transaction, instruction by instruction through `Interpreter::instruction` (mode "exec"): the harness reads
/// the word at $pc and executes it; right after a CALL has entered a callee (and, with `script_session`, right after the
/// script's first instruction) it executes a sequence of storage instructions with preset registers, then lets the
/// callee's own code continue.  `plan`: the sequences recorded by an earlier variant (replayed) or None (generated now
/// and appended to `made`).
#[allow(clippy::too_many_arguments)]
fn run_tx(out: &mut Out, run: u64, vm: &mut Vm<MemoryStorage>, ws: &WorldSt, tx: Tx, cont: bool, cfg: &Cfg, variant: Variant, rng: &mut StdRng,
          plan: Option<&Vec<Vec<PStep>>>, made: &mut Vec<Vec<PStep>>, results: &mut Vec<Value>, script_session: bool) {
    let w = &ws.w;
    let (data_addr, keys_off) = (tx.data_addr, tx.keys_off);
    let ready = match tx.checked.into_ready(w.gas_price, w.params.gas_costs(), w.params.fee_params(), Some(w.block_height.into())) {
        Ok(r) => r,
        Err(e) => { out.ev(json!({"ev": "NotReady", "run": run, "err": format!("{e:?}")})); return; }
    };
    let start = dump(vm.as_ref());
    if let Err(e) = vm.init_script(ready) { out.ev(json!({"ev": "NotReady", "run": run, "err": format!("{e:?}")})); return; }
    let s0 = snap(vm);
    let mut env = env_json(vm, w);
    env["max_storage_slot_length"] = json!(w.params.script_params().max_storage_slot_length().to_string());
    out.ev(json!({
        "ev": "Init", "run": run, "kind": "exec", "env": env,
        "regs": regs_json(&s0.regs), "stack": hx(&s0.stack), "hp": s0.hp,
        "tx": hx(vm.transaction().to_bytes()), "early": false, "driver": "vmstorage",
        "contracts": contracts_json(vm.as_ref(), &[ws.a, ws.b, ws.c, ws.d]), "inputs": [hx(ws.a), hx(ws.b), hx(ws.c), hx(ws.d)],
        "kv": dump_json(&start), "cont": cont,
        "variant": match variant { Variant::Cold => "cold", Variant::Warm => "warm", Variant::Flush => "flush" },
    }));
    let mut rec = Rec { out, run, i: 0, last: start, results: vec![] };
    let keys_addr = data_addr + keys_off as u64;
    let vals_addr = keys_addr + 32 * NK as u64;
    let mut sess_no = 0usize;
    let mut steps = 0u64;
    let mut finished = false;   // the script's own code ran to its end (any outcome) / a panic ended the transaction
    'tx: while steps < 2000 {
        let pre = snap(vm);
        let pc = pre.regs[RPC];
        let word = match read_word(&pre, pc) { Some(x) => x, None => break };
        // as the VM's own run loop does: a return inside a call context continues in the caller
        let in_call = pre.regs[RFP] != 0;
        let proceeded = st_exec(&mut rec, vm, &PStep { sets: vec![], raw: word }, false, false);
        steps += 1;
        let lo = LAST_OUT.with(|c| c.borrow().clone());
        if !proceeded && !(in_call && (lo == "return" || lo == "returndata")) { finished = true; break; }
        let entered = word >> 24 == 0x2d && vm.registers()[RFP] != pre.regs[RFP];
        if !(entered || (script_session && steps == 1)) { continue; }
        let fp = vm.registers()[RFP];
        let cid = if entered { let s = snap(vm); ContractId::new(s.stack[fp as usize..fp as usize + 32].try_into().unwrap()) } else { ContractId::zeroed() };
        let entry_pc = vm.registers()[RPC];
        if cid == ws.d { continue; }   // D runs its own code
        // a stack buffer (and in every other session a heap buffer), filled with non-zero bytes so that a read that writes
        // nothing is told apart from a read that writes zeros
        if !st_exec(&mut rec, vm, &PStep { sets: vec![], raw: enc_i24(0x91, BUF as u32) }, false, false) { finished = true; break; }   // CFEI
        let buf = vm.registers()[RSP] - BUF;
        // 64 bytes above the buffer are allocated and released again: memory that exists but is not owned (Edge::Own)
        if !st_exec(&mut rec, vm, &PStep { sets: vec![], raw: enc_i24(0x91, 64) }, false, false) { finished = true; break; }   // CFEI 64
        if !st_exec(&mut rec, vm, &PStep { sets: vec![], raw: enc_i24(0x92, 64) }, false, false) { finished = true; break; }   // CFSI 64
        let mut heap = 0u64;
        if sess_no % 2 == 1 {
            if !st_exec(&mut rec, vm, &PStep { sets: vec![(SCR as usize, 256)], raw: enc_rrrr(0x26, SCR, 0, 0, 0) & 0xfffc0000 }, false, false) { finished = true; break; }   // ALOC
            heap = vm.registers()[RHP];
        }
        if !st_exec(&mut rec, vm, &PStep { sets: vec![(A2 as usize, buf), (A3 as usize, vals_addr + 600), (A4 as usize, 640)], raw: enc_rrrr(0x28, A2, A3, A4, 0) & 0xffffffc0 }, false, false) { finished = true; break; }   // MCP
        if variant == Variant::Warm {
            let (err0, scr0) = (vm.registers()[RERR], vm.registers()[SCR as usize]);
            for ki in 0..NK {
                let st = PStep { sets: vec![(KEY as usize, keys_addr + 32 * ki as u64), (RPC, entry_pc)], raw: enc_rrrr(0xc7, SCR, KEY, 0, 0) & 0xfffff000 };
                if !st_exec(&mut rec, vm, &st, false, false) { finished = true; break 'tx; }
            }
            poke(rec.out, run, vm, &[(RERR, err0), (SCR as usize, scr0)]);
        }
        let sess = Sess { cid, keys_addr, vals_addr, buf, heap, keys: &ws.keys, max_len: cfg.max_len };
        let mut this: Vec<PStep> = vec![];
        let nsteps = match plan { Some(p) => p.get(sess_no).map(|v| v.len()).unwrap_or(0), None => cfg.steps_per_session };
        let mut died = false;
        for j in 0..nsteps {
            let queued = if plan.is_none() { EDGE_QUEUE.with(|q| q.borrow_mut().pop_front()) } else { None };
            let mut st = match (plan, &queued) { (Some(p), _) => p[sess_no][j].clone(), (None, Some(e)) => resolve_edge(e, &sess, &rec.last), (None, None) => gen_step(rng, &sess, &rec.last, cfg) };
            if plan.is_none() {
                st.sets.push((RPC, entry_pc));
                if cfg.low_gas && rng.gen_range(0..7) == 0 { let g = vm.registers()[RCGAS]; st.sets.push((RCGAS, g.min([0u64, 1, 2, 5, 12, 25, 60, 105, 120, 140, 260, 600][rng.gen_range(0..12)]))); }
            }
            this.push(st.clone());
            if !st_exec(&mut rec, vm, &st, variant == Variant::Flush, true) { died = true; break; }
        }
        made.push(this);
        sess_no += 1;
        if died { finished = true; break; }
        rec.out.ev(json!({"ev": "StDump", "run": run, "st": dump_json(&rec.last)}));
        poke(rec.out, run, vm, &[(RPC, entry_pc)]);
    }
    results.append(&mut rec.results);
    let _ = finished;
    // what a host does when the transaction is over: keep the changes of a script that returned, discard them otherwise.
    // (the outcome of the last executed instruction is in the preceding Step event; the trace specification ties the two)
    let last_out = LAST_OUT.with(|c| c.borrow().clone());
    let success = (last_out == "return" || last_out == "returndata") && vm.registers()[RFP] == 0 && finished;
    {
        let st: &mut MemoryStorage = vm.as_mut();
        if success { st.commit(); } else { st.revert(); }
    }
    out.ev(json!({"ev": "StEnd", "run": run, "outcome": if success { "commit" } else { "revert" }, "st": dump_json(&dump(vm.as_ref()))}));
}

thread_local! { static LAST_OUT: std::cell::RefCell<String> = std::cell::RefCell::new(String::new()); }

/// a gas schedule whose every number is drawn from 1..=hi (same shape/version as the default one)
fn random_gas(rng: &mut StdRng, hi: u64) -> GasCosts {
    fn walk(v: &mut Value, rng: &mut StdRng, hi: u64) {
        match v {
            Value::Number(_) => { *v = json!(rng.gen_range(1..=hi)); }
            Value::Array(a) => a.iter_mut().for_each(|x| walk(x, rng, hi)),
            Value::Object(o) => o.values_mut().for_each(|x| walk(x, rng, hi)),
            _ => {}
        }
    }
    let mut v = serde_json::to_value(GasCosts::default()).expect("ser");
    walk(&mut v, rng, hi);
    serde_json::from_value(v).expect("de")
}

fn call_plans(rng: &mut StdRng, ws: &WorldSt, second: bool, low_gas: bool) -> Vec<CallPlan> {
    let (a, b, c, d) = (ws.a, ws.b, ws.c, ws.d);
    let p = |outer, inner| CallPlan { outer, inner, fwd: None, key_index: 0 };
    let real = |ki: usize| CallPlan { outer: d, inner: None, fwd: None, key_index: ki };
    let mut v = if !second {
        match rng.gen_range(0..6) {
            0 => vec![p(a, None), p(b, None), p(a, None)],
            1 => vec![p(c, Some(b)), p(a, None)],
            2 => vec![p(a, None), p(c, Some(a))],
            3 => vec![p(b, None), p(b, None)],
            4 => vec![real([0usize, 4, 7][rng.gen_range(0..3)]), p(a, None), real([0usize, 1, 4, 7, 10][rng.gen_range(0..5)])],
            _ => vec![p(a, None), p(b, None)],
        }
    } else {
        match rng.gen_range(0..5) { 0 => vec![p(b, None), p(a, None)], 1 => vec![p(a, None)], 2 => vec![p(c, Some(a)), p(b, None)], 3 => vec![real(4), real(4)], _ => vec![p(a, None), p(a, None)] }
    };
    if low_gas { for c in v.iter_mut() { if rng.gen_bool(0.5) { c.fwd = Some([700u32, 1500, 2500, 6000, 20000][rng.gen_range(0..5)]); } } }
    v
}

/// one world, one variant: two transactions on the same interpreter and storage. Returns the per-step results.
fn run_world(out: &mut Out, run: &mut u64, seed: u64, cfg: &Cfg, variant: Variant, plans: &mut Vec<Vec<Vec<PStep>>>, replay: bool) -> Vec<Value> {
    let mut ws = build_world(seed, cfg);
    let mut rng = <StdRng as rand::SeedableRng>::seed_from_u64(seed ^ 0xc33);
    let mut rng_calls = <StdRng as rand::SeedableRng>::seed_from_u64(seed ^ 0xca115);   // the same calls in every variant
    let mut vm = Vm::<MemoryStorage>::with_storage(MemoryInstance::new(), ws.w.storage.clone(), ws.w.iparams());
    let tx_offset = vm.tx_offset() as u64;
    out.ev(json!({"ev": "Seg"}));
    let mut results = vec![];
    for t in 0..2 {
        let calls = call_plans(&mut rng_calls, &ws, t == 1, cfg.low_gas);
        let tx = build_tx(&mut ws, &calls, 10_000_000, tx_offset);
        *run += 1;
        let mut made = vec![];
        let plan = if replay { plans.get(t) } else { None };
        run_tx(out, *run, &mut vm, &ws, tx, t == 1, cfg, variant, &mut rng, plan, &mut made, &mut results, false);
        if !replay { plans.push(made); }
    }
    results
}

fn twin(o: &Opts, out: &mut Out, run: &mut u64) {
    let n = if o.thorough() { 110 } else { 6 };
    for k in 0..n {
        let cfg = Cfg { thorough: o.thorough(), steps_per_session: if o.thorough() { 14 } else { 10 }, risky: 0.035, low_gas: false, max_len: 1 << 20, gas: None };
        let seed = o.seed.wrapping_mul(1000).wrapping_add(k);
        let mut plans = vec![];
        let cold = run_world(out, run, seed, &cfg, Variant::Cold, &mut plans, false);
        let warm = run_world(out, run, seed, &cfg, Variant::Warm, &mut plans, true);
        out.ev(json!({"ev": "Twin", "what": "cold-vs-warm", "seed": seed.to_string(), "a": cold, "b": warm}));
        let flush = run_world(out, run, seed, &cfg, Variant::Flush, &mut plans, true);
        out.ev(json!({"ev": "Twin", "what": "cold-vs-flushed", "seed": seed.to_string(), "a": cold, "b": flush}));
    }
}

/// random / unit gas schedules, little forwarded gas, $cgas poked down: exact charges incl. hot vs cold, OutOfGas
fn gas(o: &Opts, out: &mut Out, run: &mut u64) {
    let n = if o.thorough() { 60 } else { 4 };
    let mut rng = o.rng(3326);
    for k in 0..n {
        let costs = match k % 3 { 0 => GasCosts::unit(), 1 => random_gas(&mut rng, 9), _ => random_gas(&mut rng, 300) };
        let cfg = Cfg { thorough: o.thorough(), steps_per_session: 10, risky: 0.05, low_gas: true, max_len: 1 << 20, gas: Some(costs) };
        let seed = o.seed.wrapping_mul(1000).wrapping_add(500 + k);
        let mut plans = vec![];
        run_world(out, run, seed, &cfg, Variant::Cold, &mut plans, false);
        let mut plans2 = vec![];
        run_world(out, run, seed ^ 0xffff, &cfg, Variant::Warm, &mut plans2, false);
    }
}

/// small maximum slot length: the StorageOutOfBounds boundary of writes / updates; many panic-aimed steps
fn small(o: &Opts, out: &mut Out, run: &mut u64) {
    let n = if o.thorough() { 60 } else { 5 };
    for k in 0..n {
        let cfg = Cfg { thorough: o.thorough(), steps_per_session: 8, risky: 0.3, low_gas: false, max_len: [64u64, 33, 100, 32, 16][k as usize % 5], gas: None };
        let seed = o.seed.wrapping_mul(1000).wrapping_add(800 + k);
        let mut plans = vec![];
        run_world(out, run, seed, &cfg, Variant::Cold, &mut plans, false);
    }
}

/// the deterministic boundary grid: ranges ending at 2^256 - 1, slices / words / updates / writes at the ends of values and at
/// the maximum slot length; transactions (one call of contract A each) are run until the grid is used up
fn edge(o: &Opts, out: &mut Out, run: &mut u64) {
    let cfg = Cfg { thorough: o.thorough(), steps_per_session: 12, risky: 0.0, low_gas: false, max_len: 64, gas: None };
    let seed = o.seed.wrapping_mul(1000).wrapping_add(970);
    let mut ws = build_world(seed, &cfg);
    let mut rng = o.rng(3328);
    let mut vm = Vm::<MemoryStorage>::with_storage(MemoryInstance::new(), ws.w.storage.clone(), ws.w.iparams());
    let tx_offset = vm.tx_offset() as u64;
    out.ev(json!({"ev": "Seg"}));
    EDGE_QUEUE.with(|q| q.borrow_mut().extend(edge_grid()));
    let mut t = 0;
    while EDGE_QUEUE.with(|q| !q.borrow().is_empty()) && t < 400 {
        let calls = vec![CallPlan { outer: ws.a, inner: None, fwd: None, key_index: 0 }];
        let tx = build_tx(&mut ws, &calls, 10_000_000, tx_offset);
        *run += 1;
        let (mut made, mut results) = (vec![], vec![]);
        run_tx(out, *run, &mut vm, &ws, tx, t > 0, &cfg, Variant::Cold, &mut rng, None, &mut made, &mut results, false);
        t += 1;
    }
    EDGE_QUEUE.with(|q| q.borrow_mut().clear());
}

/// storage instructions outside a contract (script context): one instruction per transaction
fn ext(o: &Opts, out: &mut Out, run: &mut u64) {
    let cfg = Cfg { thorough: o.thorough(), steps_per_session: 1, risky: 0.0, low_gas: false, max_len: 1 << 20, gas: None };
    let seed = o.seed.wrapping_mul(1000).wrapping_add(990);
    let mut ws = build_world(seed, &cfg);
    let mut rng = o.rng(3327);
    let mut vm = Vm::<MemoryStorage>::with_storage(MemoryInstance::new(), ws.w.storage.clone(), ws.w.iparams());
    let tx_offset = vm.tx_offset() as u64;
    out.ev(json!({"ev": "Seg"}));
    let n = if o.thorough() { 60 } else { 13 };
    for t in 0..n {
        let tx = build_tx(&mut ws, &[], 1_000_000, tx_offset);
        *run += 1;
        let (mut made, mut results) = (vec![], vec![]);
        run_tx(out, *run, &mut vm, &ws, tx, t > 0, &cfg, Variant::Cold, &mut rng, None, &mut made, &mut results, true);
    }
}

fn record(o: &Opts) -> Res<()> {
    let mut out = Out::open(&o.out)?;
    let part = o.opt("--part").unwrap_or_else(|| "all".into());
    let want = |p: &str| part == "all" || part.split(',').any(|x| x == p);
    let mut run = 0u64;
    if want("twin") { twin(o, &mut out, &mut run); }
    if want("gas") { gas(o, &mut out, &mut run); }
    if want("small") { small(o, &mut out, &mut run); }
    if want("edge") { edge(o, &mut out, &mut run); }
    if want("ext") { ext(o, &mut out, &mut run); }
    let n = out.finish();
    eprintln!("vmstorage: {n} events");
    Ok(())
}

fn main() {
    if std::env::var("VH_PANIC_TRACE").is_err() { std::panic::set_hook(Box::new(|_| {})); }
    let args: Vec<String> = std::env::args().collect();
    if args.len() < 3 { eprintln!("usage: vh_vmstorage record vmstorage [--tier T] [--part p] -o file"); exit(64); }
    let opts = Opts::parse(&args[3..]);
    let r = match (args[1].as_str(), args[2].as_str()) {
        ("record", "vmstorage") => record(&opts),
        _ => { eprintln!("unknown"); exit(64); }
    };
    if let Err(e) = r { eprintln!("vh_vmstorage error: {e}"); exit(3); }
}
