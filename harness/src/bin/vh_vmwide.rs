//! vh_vmwide — recorder for the wide-integer instructions of the FuelVM interpreter (C22).
//!   vh_vmwide record vmwide [--part wide] [--tier T] -o trace.ndjson
//!
//! Driver `wide` (exec mode, see vmcore.rs): a VM initialised with a trivial script gets a stack frame and a heap
//! allocation through REAL `CFEI` / `CFSI` / `ALOC` instructions, operand bytes are placed in memory with
//! `write_noownerchecks` (logged as `MemPoke` events — an environment action in the trace specification), registers
//! are preset and one wide-integer instruction is executed through `Interpreter::instruction`.  The driver chooses
//! WHAT to run (seeded, boundary-biased); it contains no expectations about results.
#![allow(dead_code)]
#[path = "../util.rs"]
mod util;
#[path = "../vmcore.rs"]
mod vmcore;
// The few public helpers of ../vm/drivers.rs this binary needs (world / new_vm / simple_script / random_gas / BOUNDARY) are
// copied below in `mod drivers` instead of including the file: drivers.rs is edited concurrently by other builders and a
// half-finished edit there must not break this binary.
mod drivers {
    use crate::vmcore::*;
    use fuel_tx::{ConsensusParameters, GasCosts, Script, TransactionBuilder, TxParameters};
    use fuel_vm::prelude::*;
    use fuel_vm::{checked_transaction::Checked, interpreter::MemoryInstance, storage::MemoryStorage};
    use rand::{rngs::StdRng, Rng};
    use serde_json::json;

    pub fn small_params(max_inputs: u16) -> ConsensusParameters {
        let mut p = ConsensusParameters::standard();
        let tx = TxParameters::DEFAULT.with_max_inputs(max_inputs);
        p.set_tx_params(tx);
        p
    }
    pub fn world(max_inputs: u16, gas_price: u64) -> World {
        World { params: small_params(max_inputs), gas_price, storage: MemoryStorage::default(), block_height: 0 }
    }
    pub fn new_vm(w: &World) -> Vm<MemoryStorage> {
        Vm::<MemoryStorage>::with_storage(MemoryInstance::new(), w.storage.clone(), w.iparams())
    }
    pub fn simple_script(w: &World, _rng: &mut StdRng, code: Vec<u8>, data: Vec<u8>, gas_limit: u64) -> Result<Checked<Script>, String> {
        let tx = TransactionBuilder::script(code, data)
            .script_gas_limit(gas_limit)
            .max_fee_limit(0)
            .with_params(w.params.clone())
            .add_fee_input()
            .finalize();
        checked_script(tx, w)
    }
    pub const BOUNDARY: [u64; 30] = [
        0, 1, 2, 3, 7, 8, 63, 64, 65, 255, 256, 257, 65535, 65536, 65537,
        0xffff_ffff, 0x1_0000_0000, 0x1_0000_0001, (1 << 63) - 1, 1 << 63, (1 << 63) + 1, u64::MAX - 1, u64::MAX,
        9, 27, 1000, 1 << 32, 4_294_967_297, 3_037_000_499, 3_037_000_500,
    ];
    /// a gas schedule whose every number is drawn from 1..=hi (same shape/version as the default one)
    pub fn random_gas(rng: &mut StdRng, hi: u64) -> GasCosts {
        fn walk(v: &mut serde_json::Value, rng: &mut StdRng, hi: u64) {
            match v {
                serde_json::Value::Number(_) => { *v = json!(rng.gen_range(1..=hi)); }
                serde_json::Value::Array(a) => a.iter_mut().for_each(|x| walk(x, rng, hi)),
                serde_json::Value::Object(o) => o.values_mut().for_each(|x| walk(x, rng, hi)),
                _ => {}
            }
        }
        let mut v = serde_json::to_value(GasCosts::default()).expect("ser");
        walk(&mut v, rng, hi);
        serde_json::from_value(v).expect("de")
    }
}

use fuel_asm::{op, RegId};
use fuel_vm::storage::MemoryStorage;
use rand::{rngs::StdRng, seq::SliceRandom, Rng};
use serde_json::json;
use std::process::exit;
use util::*;
use vmcore::*;

fn main() {
    if std::env::var("VH_PANIC_TRACE").is_err() { std::panic::set_hook(Box::new(|_| {})); }
    let args: Vec<String> = std::env::args().collect();
    if args.len() < 3 { eprintln!("usage: vh_vmwide record vmwide [--part wide] [--tier T] -o trace.ndjson"); exit(64); }
    let opts = util::Opts::parse(&args[3..]);
    let r = match (args[1].as_str(), args[2].as_str()) {
        ("record", "vmwide") => record(&opts),
        _ => { eprintln!("unknown"); exit(64); }
    };
    if let Err(e) = r { eprintln!("vh_vmwide error: {e}"); exit(3); }
}

fn record(o: &Opts) -> Res<()> {
    let mut out = Out::open(&o.out)?;
    let part = o.opt("--part").unwrap_or_else(|| "wide".into());
    let want = |p: &str| part == "all" || part.split(',').any(|x| x == p);
    let mut run = 0u64;
    if want("wide") { wide(o, &mut out, &mut run); }
    if want("grid") { grid(o, &mut out, &mut run); }
    let n = out.finish();
    eprintln!("vmwide: {n} events");
    Ok(())
}

// ---- instruction words (layout only: opcode byte, four 6-bit fields) ----
fn enc4(op: u8, a: u8, b: u8, c: u8, d: u8) -> u32 {
    ((op as u32) << 24) | ((a as u32 & 63) << 18) | ((b as u32 & 63) << 12) | ((c as u32 & 63) << 6) | (d as u32 & 63)
}
fn raw_of(i: fuel_asm::Instruction) -> u32 { u32::from_be_bytes(i.to_bytes()) }

const RZERO: usize = 0;
const RONE: usize = 1;
const ROF: usize = 2;
const RPC: usize = 3;
const RSSP: usize = 4;
const RSP: usize = 5;
const RHP: usize = 7;
const RERR: usize = 8;
const RGGAS: usize = 9;
const RCGAS: usize = 10;
const RFLAG: usize = 15;
const RA_: u8 = 0x10;
const RB_: u8 = 0x11;
const RC_: u8 = 0x12;
const RD_: u8 = 0x13;
const RT_: u8 = 0x14; // scratch register for the set-up instructions

/// (opcode byte, has a 6-bit immediate, operand width in bytes, family)
#[derive(Clone, Copy, PartialEq)]
enum Fam { Cmp, Op, Mul, Div, MulDiv, AddMod, MulMod }
const OPS: [(u8, Fam, usize); 14] = [
    (0xa0, Fam::Cmp, 16), (0xa1, Fam::Cmp, 32), (0xa2, Fam::Op, 16), (0xa3, Fam::Op, 32), (0xa4, Fam::Mul, 16), (0xa5, Fam::Mul, 32),
    (0xa6, Fam::Div, 16), (0xa7, Fam::Div, 32), (0xa8, Fam::MulDiv, 16), (0xa9, Fam::MulDiv, 32), (0xaa, Fam::AddMod, 16),
    (0xab, Fam::AddMod, 32), (0xac, Fam::MulMod, 16), (0xad, Fam::MulMod, 32),
];
fn has_imm(f: Fam) -> bool { matches!(f, Fam::Cmp | Fam::Op | Fam::Mul | Fam::Div) }

// ---- wide values as big-endian byte strings of width w ----
fn wz(w: usize) -> Vec<u8> { vec![0u8; w] }
fn set_bit(v: &mut [u8], k: usize) { let n = v.len(); if k < 8 * n { v[n - 1 - k / 8] |= 1 << (k % 8); } }
fn pow2(w: usize, k: usize) -> Vec<u8> { let mut v = wz(w); set_bit(&mut v, k); v }
fn low_ones(w: usize, k: usize) -> Vec<u8> { let mut v = wz(w); for i in 0..k.min(8 * w) { set_bit(&mut v, i); } v }
fn from_u64(w: usize, x: u64) -> Vec<u8> { let mut v = wz(w); v[w - 8..].copy_from_slice(&x.to_be_bytes()); v }
fn inc(v: &[u8]) -> Vec<u8> { let mut r = v.to_vec(); for i in (0..r.len()).rev() { let (x, c) = r[i].overflowing_add(1); r[i] = x; if !c { break; } } r }
fn dec(v: &[u8]) -> Vec<u8> { let mut r = v.to_vec(); for i in (0..r.len()).rev() { let (x, c) = r[i].overflowing_sub(1); r[i] = x; if !c { break; } } r }
fn rand_wide(rng: &mut StdRng, w: usize) -> Vec<u8> { (0..w).map(|_| rng.gen::<u8>()).collect() }
/// random value of a random bit length (so that every leading-zero count occurs)
fn rand_bits(rng: &mut StdRng, w: usize) -> Vec<u8> {
    let bits = rng.gen_range(0..=8 * w);
    let mut v = rand_wide(rng, w);
    for k in bits..8 * w { let n = v.len(); v[n - 1 - k / 8] &= !(1 << (k % 8)); }
    if bits > 0 { set_bit(&mut v, bits - 1); }
    v
}

/// boundary-biased wide integer
fn wide_pick(rng: &mut StdRng, w: usize) -> Vec<u8> {
    let bits = 8 * w;
    match rng.gen_range(0..100) {
        0..=54 => {
            let mut ks: Vec<Vec<u8>> = vec![
                wz(w), from_u64(w, 1), from_u64(w, 2), from_u64(w, 3), from_u64(w, u64::MAX), pow2(w, 64), inc(&pow2(w, 64)),
                low_ones(w, 127), pow2(w, 127), inc(&pow2(w, 127)), low_ones(w, bits), dec(&low_ones(w, bits)),
                low_ones(w, bits / 2), pow2(w, bits / 2), inc(&pow2(w, bits / 2)), pow2(w, bits - 1), low_ones(w, bits - 1), inc(&pow2(w, bits - 1)),
                from_u64(w, 1 << 63), from_u64(w, u64::MAX - 1), from_u64(w, 10), from_u64(w, 255), from_u64(w, 256),
            ];
            if w == 32 { ks.extend([low_ones(w, 128), pow2(w, 128), inc(&pow2(w, 128)), low_ones(w, 255), pow2(w, 255), inc(&pow2(w, 255)), pow2(w, 192), low_ones(w, 192)]); }
            ks.choose(rng).unwrap().clone()
        }
        55..=69 => rand_wide(rng, w),
        70..=84 => rand_bits(rng, w),
        85..=92 => from_u64(w, rng.gen_range(0..1000)),
        93..=96 => pow2(w, rng.gen_range(0..bits)),
        _ => dec(&pow2(w, rng.gen_range(0..bits))),
    }
}

/// a value related to `x` (equal, neighbours, complement) or independent
fn related(rng: &mut StdRng, w: usize, x: &[u8]) -> Vec<u8> {
    match rng.gen_range(0..12) {
        0 | 1 => x.to_vec(),
        2 => inc(x),
        3 => dec(x),
        4 => x.iter().map(|b| !b).collect(),
        5 => inc(&x.iter().map(|b| !b).collect::<Vec<u8>>()), // 2^bits - x
        _ => wide_pick(rng, w),
    }
}

fn shift_amount(rng: &mut StdRng, w: usize) -> Vec<u8> {
    let b = [0u64, 1, 2, 7, 8, 9, 63, 64, 65, 127, 128, 129, 191, 192, 255, 256, 257, 511, 512, 65536, 1 << 32, u64::MAX];
    match rng.gen_range(0..10) {
        0..=5 => from_u64(w, *b.choose(rng).unwrap()),
        6 | 7 => from_u64(w, rng.gen_range(0..(8 * w as u64 + 4))),
        8 => pow2(w, rng.gen_range(0..8 * w)),
        _ => wide_pick(rng, w),
    }
}

fn u64_pick(rng: &mut StdRng) -> u64 {
    match rng.gen_range(0..10) {
        0..=6 => *drivers::BOUNDARY.choose(rng).unwrap(),
        7 => rng.gen::<u64>(),
        8 => rng.gen::<u32>() as u64,
        _ => rng.gen_range(0..300),
    }
}

/// layout of one exec session after the set-up instructions
struct Lay { ssp: u64, sp: u64, slen: u64, hp: u64 }

fn lay_of(vm: &Vm<MemoryStorage>) -> Lay {
    let r = vm.registers();
    Lay { ssp: r[RSSP], sp: r[RSP], slen: vm.memory().stack_raw().len() as u64, hp: r[RHP] }
}

/// start an exec-mode session (same events as drivers::exec_session, which is private) and give it owned memory through
/// real instructions
fn session(out: &mut Out, run: u64, rng: &mut StdRng, random_schedule: bool, i: &mut u64) -> Option<(Vm<MemoryStorage>, u64)> {
    let mut w = drivers::world(2, 0);
    if random_schedule { w.params.set_gas_costs(drivers::random_gas(rng, 60)); }
    let gas_limit = 1_000_000;
    let checked = drivers::simple_script(&w, rng, vec![op::ret(RegId::ONE)].into_iter().collect(), vec![], gas_limit).ok()?;
    let ready = checked.into_ready(w.gas_price, w.params.gas_costs(), w.params.fee_params(), Some(w.block_height.into())).ok()?;
    let mut vm = drivers::new_vm(&w);
    vm.init_script(ready).ok()?;
    let s0 = snap(&vm);
    out.ev(json!({"ev": "Seg"}));
    out.ev(json!({"ev": "Init", "run": run, "kind": "exec", "env": env_json(&vm, &w), "regs": regs_json(&s0.regs),
                  "stack": hx(&s0.stack), "hp": s0.hp, "early": false, "driver": "wide"}));
    let pc0 = vm.registers()[RPC];
    let big = 100_000_000u64;
    let gas = [(RPC, pc0), (RCGAS, big), (RGGAS, big)];
    // stack frame: extend, then shrink a little so that [sp, stack extent) is accessible but not owned
    let ext: u32 = *[512u32, 1024, 2048, 4096].choose(rng).unwrap();
    let shrink: u32 = *[0u32, 64, 256].choose(rng).unwrap();
    let heap: u64 = *[64u64, 256, 1024, 1000, 4096, 70_000].choose(rng).unwrap();
    if !exec_one(out, run, *i, &mut vm, &gas, raw_of(op::cfei(ext))) { return None; }
    *i += 1;
    if shrink > 0 {
        if !exec_one(out, run, *i, &mut vm, &gas, raw_of(op::cfsi(shrink))) { return None; }
        *i += 1;
    }
    let mut sets = gas.to_vec();
    sets.push((RT_ as usize, heap));
    if !exec_one(out, run, *i, &mut vm, &sets, raw_of(op::aloc(RegId::new(RT_)))) { return None; }
    *i += 1;
    Some((vm, pc0))
}

fn mem_poke(out: &mut Out, run: u64, vm: &mut Vm<MemoryStorage>, addr: u64, bytes: &[u8]) -> bool {
    match vm.memory_mut().write_noownerchecks(addr, bytes.len()) {
        Ok(s) => {
            s.copy_from_slice(bytes);
            out.ev(json!({"ev": "MemPoke", "run": run, "addr": addr, "bytes": hx(bytes)}));
            true
        }
        Err(_) => false,
    }
}

/// an address at which `w` bytes are accessible AND owned (stack frame or heap), 64-byte slots, sometimes unaligned
fn good_addr(rng: &mut StdRng, l: &Lay, w: u64, used: &[u64]) -> u64 {
    for _ in 0..40 {
        let a = if rng.gen_bool(0.5) {
            let slots = (l.sp - l.ssp) / 64;
            l.ssp + 64 * rng.gen_range(0..slots)
        } else {
            let slots = ((MEM - l.hp) / 64).min(64).max(1);
            let base = if rng.gen_bool(0.3) { MEM - 64 * slots } else { l.hp };
            base + 64 * rng.gen_range(0..slots)
        };
        let a = a + match rng.gen_range(0..6) { 0 => 1, 1 => 7, 2 => 64 - w, _ => 0 };
        let fits = (a >= l.ssp && a + w <= l.sp) || (a >= l.hp && a + w <= MEM);
        if fits && used.iter().all(|u| a + w <= *u || *u + w <= a) { return a; }
    }
    l.ssp
}

/// an address chosen to be wrong, or at least unusual, for a `w`-byte access
fn odd_addr(rng: &mut StdRng, l: &Lay, w: u64, others: &[u64]) -> u64 {
    let gap_mid = (l.slen + l.hp) / 2;
    match rng.gen_range(0..30) {
        0 => 0,                                   // transaction area: readable, not owned
        1 => rng.gen_range(0..l.ssp - w),
        2 => l.ssp - w,                           // last unowned bytes below the frame
        3 => l.ssp - 8,                           // straddles $ssp
        4 => l.sp - 8,                            // straddles $sp
        5 => l.sp - w,                            // last owned bytes of the frame
        6 => l.sp,                                // first byte after the frame (accessible iff the extent is larger)
        7 => l.slen - w,                          // last accessible stack bytes
        8 => l.slen - 8,                          // straddles the stack extent
        9 => l.slen,
        10 => l.slen + 100,
        11 => gap_mid,
        12 => l.hp - w - 1,
        13 => l.hp - 8,                           // straddles $hp
        14 => l.hp - 1,
        15 => l.hp,                               // first heap bytes
        16 => MEM - w,                            // last heap bytes
        17 => MEM - w + 1,
        18 => MEM - 1,
        19 => MEM,
        20 => MEM + 1,
        21 => u64::MAX,
        22 => u64::MAX - w,
        23 => u64::MAX - w + 1,
        24 => 1 << 32,
        25 => 1 << 63,
        // overlapping another operand / the destination
        26 if !others.is_empty() => others[rng.gen_range(0..others.len())],
        27 if !others.is_empty() => others[rng.gen_range(0..others.len())].wrapping_add(8),
        28 if !others.is_empty() => others[rng.gen_range(0..others.len())].wrapping_sub(8),
        _ => rng.gen_range(0..MEM),
    }
}

struct Case { opc: u8, fam: Fam, w: usize, imm: u8, flag: u64 }

/// run one case: choose operands and pointers, place operand bytes, execute
fn run_case(out: &mut Out, run: u64, i: &mut u64, vm: &mut Vm<MemoryStorage>, pc0: u64, rng: &mut StdRng, c: &Case, thorough: bool) {
    let l = lay_of(vm);
    let w = c.w;
    let ww = w as u64;
    // which of the four pointer roles (0 dest, 1 lhs, 2 rhs, 3 third) is aimed badly, if any
    let odd_role: Option<usize> = if rng.gen_range(0..100) < 22 { Some(rng.gen_range(0..4)) } else { None };
    let two_odd = rng.gen_range(0..100) < 3;
    // operand values
    let b = wide_pick(rng, w);
    let shifty = c.fam == Fam::Op && (c.imm & 7) >= 6;
    let cv = if shifty { shift_amount(rng, w) } else { related(rng, w, &b) };
    let dv = match rng.gen_range(0..10) { 0 | 1 => wz(w), 2 => from_u64(w, 1), 3 => from_u64(w, 2), 4 => b.clone(), 5 => cv.clone(), _ => wide_pick(rng, w) };
    // addresses: operands first, then the destination (which may deliberately overlap them)
    let mut used: Vec<u64> = vec![];
    let mut addr = [0u64; 4];
    for role in 1..4 {
        let odd = odd_role == Some(role) || (two_odd && rng.gen_bool(0.5));
        addr[role] = if odd { odd_addr(rng, &l, ww, &used) } else { good_addr(rng, &l, ww, &used) };
        used.push(addr[role]);
    }
    addr[0] = if odd_role == Some(0) || (two_odd && rng.gen_bool(0.5)) { odd_addr(rng, &l, ww, &used) } else { good_addr(rng, &l, ww, &used) };
    // place operand bytes wherever the memory accepts them (the later write wins where they overlap); the direct / indirect
    // choice is made by the immediate, so a register that turns out to be a direct operand just holds this number
    let direct_b = rng.gen_bool(0.5);
    let direct_c = rng.gen_bool(0.5);
    let vals = [&b, &cv, &dv];
    for role in 1..4 {
        if rng.gen_range(0..100) < 90 { mem_poke(out, run, vm, addr[role], vals[role - 1]); }
    }
    if rng.gen_range(0..100) < 15 { let junk = rand_wide(rng, w); mem_poke(out, run, vm, addr[0], &junk); }
    // registers. For instructions with an immediate the low bits decide whether rB / rC are pointers; the driver does not
    // decode them: it uses a pointer or a small number at random, both are meaningful inputs in either mode.
    let rb_val = if c.fam == Fam::Mul && direct_b { u64_pick(rng) } else { addr[1] };
    let rc_val = if has_imm(c.fam) && direct_c { if shifty { u64::from_be_bytes(cv[w - 8..].try_into().unwrap()) } else { u64_pick(rng) } } else { addr[2] };
    let gas = match rng.gen_range(0..14) { 0 => rng.gen_range(0..6), 1 => rng.gen_range(0..70), _ => 1_000_000 };
    let ggas = gas + [0u64, 0, 1, 1000][rng.gen_range(0..4)];
    let mut sets: Vec<(usize, u64)> = vec![
        (RA_ as usize, addr[0]), (RB_ as usize, rb_val), (RC_ as usize, rc_val), (RD_ as usize, addr[3]),
        (RFLAG, c.flag), (RPC, pc0), (RCGAS, gas), (RGGAS, ggas), (ROF, rng.gen_range(0..3)), (RERR, rng.gen_range(0..2)),
    ];
    // register fields: usually the four scratch registers; sometimes system registers as sources, reserved / aliased destinations
    let mut ra = RA_;
    let (mut rb, mut rc, mut rd) = (RB_, RC_, RD_);
    if c.fam == Fam::Cmp {
        sets[0] = (RA_ as usize, rng.gen::<u64>());
        ra = match rng.gen_range(0..16) { 0 => rng.gen_range(0..16), 1 => RB_, 2 => RC_, 3 => 63, _ => RA_ };
    } else {
        match rng.gen_range(0..40) { 0 => ra = RHP as u8, 1 => ra = RSSP as u8, 2 => ra = RZERO as u8, 3 => ra = RSP as u8, 4 => ra = RB_, _ => {} }
    }
    match rng.gen_range(0..40) { 0 => rb = RZERO as u8, 1 => rb = RONE as u8, 2 => rb = RHP as u8, 3 => rb = RSSP as u8, 4 => rb = RC_, 5 => rb = RCGAS as u8, _ => {} }
    match rng.gen_range(0..40) { 0 => rc = RZERO as u8, 1 => rc = RONE as u8, 2 => rc = RHP as u8, 3 => rc = RSSP as u8, 4 => rc = RB_, 5 => rc = RCGAS as u8, 6 => rc = RGGAS as u8, _ => {} }
    if !has_imm(c.fam) { match rng.gen_range(0..40) { 0 => rd = RZERO as u8, 1 => rd = RONE as u8, 2 => rd = RHP as u8, 3 => rd = RB_, _ => {} } }
    let _ = thorough;
    let raw = if has_imm(c.fam) { enc4(c.opc, ra, rb, rc, c.imm) } else { enc4(c.opc, ra, rb, rc, rd) };
    exec_one(out, run, *i, vm, &sets, raw);
    *i += 1;
}

/// C22: every wide-integer instruction x all 64 immediates x four flag settings x boundary operands x pointer classes
fn wide(o: &Opts, out: &mut Out, run: &mut u64) {
    let thorough = o.thorough();
    let mut rng = o.rng(22);
    let reps_valid = o.opt("--reps").and_then(|s| s.parse().ok()).unwrap_or(if thorough { 250 } else { 6 });
    let reps_other = if thorough { 8 } else { 1 };
    let reps_four = if thorough { 3000 } else { 60 };
    // the case list: (instruction, immediate, flag) with repetitions; shuffled so that every session mixes instructions
    let mut cases: Vec<Case> = vec![];
    for (opc, fam, w) in OPS {
        if has_imm(fam) {
            for imm in 0..64u8 {
                // immediates the assembler itself can produce get more repetitions; the driver asks fuel-asm, it does not decode
                let known = match fam {
                    Fam::Cmp => fuel_asm::wideint::CompareArgs::from_imm(fuel_asm::Imm06::from(imm)).is_some(),
                    Fam::Op => fuel_asm::wideint::MathArgs::from_imm(fuel_asm::Imm06::from(imm)).is_some(),
                    Fam::Mul => fuel_asm::wideint::MulArgs::from_imm(fuel_asm::Imm06::from(imm)).is_some(),
                    _ => fuel_asm::wideint::DivArgs::from_imm(fuel_asm::Imm06::from(imm)).is_some(),
                };
                // few immediates are meaningful for MUL / DIV: give them more weight
                let k = if known { match fam { Fam::Mul => reps_valid * 3, Fam::Div => reps_valid * 6, _ => reps_valid } } else { reps_other };
                for flag in 0..4u64 { for _ in 0..k { cases.push(Case { opc, fam, w, imm, flag }); } }
            }
        } else {
            for flag in 0..4u64 { for _ in 0..reps_four { cases.push(Case { opc, fam, w, imm: 0, flag }); } }
        }
    }
    cases.shuffle(&mut rng);
    let per_session = 1200;
    let mut k = 0usize;
    let mut sess = 0u64;
    while k < cases.len() {
        *run += 1;
        let mut i = 0u64;
        // every third session runs under a seeded random gas schedule (distinct entries get distinct prices)
        let (mut vm, pc0) = match session(out, *run, &mut rng, sess % 3 == 1, &mut i) { Some(v) => v, None => { sess += 1; if sess > 10_000 { return; } continue; } };
        sess += 1;
        let end = (k + per_session).min(cases.len());
        while k < end {
            run_case(out, *run, &mut i, &mut vm, pc0, &mut rng, &cases[k], thorough);
            k += 1;
        }
    }
}

/// the operand grid of the design-level model (spec/vm/VmWide_MC.tla) evaluated on the real code: every instruction with
/// its meaningful immediates x the same boundary operands x four flags, operands in owned heap, destination owned
fn grid(o: &Opts, out: &mut Out, run: &mut u64) {
    let mut rng = o.rng(2201);
    let thorough = o.thorough();
    let vals = |w: usize| -> Vec<Vec<u8>> {
        let bits = 8 * w;
        let mut v = vec![wz(w), from_u64(w, 1), from_u64(w, 2), from_u64(w, u64::MAX), pow2(w, 64), inc(&pow2(w, 64)), pow2(w, bits - 1), low_ones(w, bits)];
        if thorough { v.extend([pow2(w, bits / 2), low_ones(w, bits / 2), dec(&low_ones(w, bits)), from_u64(w, 3)]); }
        v
    };
    for (opc, fam, w) in OPS {
        *run += 1;
        let mut i = 0u64;
        let (mut vm, pc0) = match session(out, *run, &mut rng, false, &mut i) { Some(v) => v, None => return };
        let l = lay_of(&vm);
        let ww = w as u64;
        let (ab, ac, ad, adst) = (l.ssp, l.ssp + 64, l.ssp + 128, l.ssp + 192);
        let imms: Vec<u8> = (0..64u8).filter(|imm| match fam {
            Fam::Cmp => fuel_asm::wideint::CompareArgs::from_imm(fuel_asm::Imm06::from(*imm)).is_some(),
            Fam::Op => fuel_asm::wideint::MathArgs::from_imm(fuel_asm::Imm06::from(*imm)).is_some(),
            Fam::Mul => fuel_asm::wideint::MulArgs::from_imm(fuel_asm::Imm06::from(*imm)).is_some(),
            Fam::Div => fuel_asm::wideint::DivArgs::from_imm(fuel_asm::Imm06::from(*imm)).is_some(),
            _ => *imm == 0,
        }).collect();
        let vs = vals(w);
        let _ = ww;
        for b in &vs {
            mem_poke(out, *run, &mut vm, ab, b);
            for c in &vs {
                mem_poke(out, *run, &mut vm, ac, c);
                let ds: Vec<Vec<u8>> = if has_imm(fam) { vec![wz(w)] } else { vec![wz(w), from_u64(w, 1), vs[3].clone(), vs[7].clone(), c.clone()] };
                for d in &ds {
                    if !has_imm(fam) { mem_poke(out, *run, &mut vm, ad, d); }
                    for imm in &imms {
                        let flag = (i % 4) as u64;
                        let sets = [(RA_ as usize, adst), (RB_ as usize, ab), (RC_ as usize, ac), (RD_ as usize, ad), (RFLAG, flag), (RPC, pc0),
                                    (RCGAS, 1_000_000), (RGGAS, 1_000_000)];
                        let raw = if has_imm(fam) { enc4(opc, RA_, RB_, RC_, *imm) } else { enc4(opc, RA_, RB_, RC_, RD_) };
                        exec_one(out, *run, i, &mut vm, &sets, raw);
                        i += 1;
                    }
                }
            }
        }
    }
}
